#!/bin/bash
# Build the framework from files on disk only (offline): regenerate the translated models from /repo,
# then a full .vo build of the Coq development (never -vos).
set -e
cd "$(dirname "$0")"
export PYTHONHASHSEED=0 PYTHONPATH=/repo:$(pwd)/harness:$(pwd)/tools
/venv/bin/python - <<'PY'
import sys
import common
written, errors = common.regen()
for t, m in errors:
    print('translator refused', t, m)
common.coq_project()
bad = common.lint_coq()
if bad:
    print('LINT', bad); sys.exit(1)
PY
cd coq && ulimit -v 12000000 && timeout 3000 make -j16 2>&1 | tail -5
