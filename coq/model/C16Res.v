(* C16 - resource naming over the streams of a document: model of Stream.set_alpha / set_state / set_alpha_state /
   add_group / add_pattern / add_shading / add_image / clone (weasyprint/pdf/stream.py) and of the key-preserving
   part of _use_references (weasyprint/pdf/__init__.py).  Definitions only.

   A document is a list of resource dictionaries (index = creation order; 0 is the dictionary shared by the page
   streams and the form field streams) and a list of Stream objects (index = creation order), each writing to one
   dictionary.  Names: 'a..'/'A..'/'s<n>' (ExtGState), 'x<n>' (group) and 'i<id><0|1>' (image) in XObject,
   'p<n>' (Pattern), 's<n>' (Shading). *)
From Coq Require Import ZArith List Bool.
Require Import WV.model.C16Stream.
Import ListNotations.
Open Scope Z_scope.

Inductive rname := NGs (k : key) | NX (n : Z) | NI (img : Z) (interp : bool) | NP (n : Z) | NSh (n : Z).
Definition rname_eqb (a b : rname) : bool :=
  match a, b with
  | NGs k, NGs k' => key_eqb k k'
  | NX n, NX n' | NP n, NP n' | NSh n, NSh n' => n =? n'
  | NI i b, NI i' b' => (i =? i') && Bool.eqb b b'
  | _, _ => false
  end.

(* value stored under an XObject name: a group Stream (by index) or None until write_pdf (images);
   after _use_references: a reference *)
Inductive xval := XG (sid : nat) | XI | XRef (x : xval).
Record resd := rmk {
  r_gs : list (key * option nat);   (* ExtGState: name -> Some sid when the state carries an /SMask /G group *)
  r_xo : list (rname * xval);
  r_pat : list (Z * nat);           (* Pattern: number n of 'p<n>' -> Stream index *)
  r_sh : list Z }.                  (* Shading: number n of 's<n>' *)
Definition res0 : resd := rmk [] [] [] [].

Record doc := dmk {
  d_res : list resd;
  d_str : list (nat * list rname);  (* Stream index -> (its resource dictionary, names it has emitted, newest first) *)
  d_img : list (Z * bool) }.        (* the document-wide `images` table, keyed like the XObject names *)
Definition doc0 : doc := dmk [res0] [(0%nat, [])] [].
Definition nstreams (d : doc) : nat := length (d_str d).

Inductive rop :=
| RSetAlpha (a : Z) (isint stroke : bool)
| RSetState | RAlphaState | RAddGroup | RAddPattern | RAddShading
| RAddImage (img : Z) (interp : bool)
| RClone
| RDraw (n : rname) | RShade (n : rname) | RPatColor (n : rname).
Definition call := (nat * rop)%type.

Fixpoint upd {A} (l : list A) (i : nat) (x : A) : list A :=
  match l, i with
  | [], _ => []
  | _ :: r, O => x :: r
  | a :: r, S j => a :: upd r j x
  end.

Fixpoint gs_mem (k : key) (l : list (key * option nat)) : bool :=
  match l with [] => false | (k', _) :: r => key_eqb k k' || gs_mem k r end.
Fixpoint xo_mem (n : rname) (l : list (rname * xval)) : bool :=
  match l with [] => false | (n', _) :: r => rname_eqb n n' || xo_mem n r end.
Fixpoint xo_assign (n : rname) (v : xval) (l : list (rname * xval)) : list (rname * xval) :=
  match l with
  | [] => [(n, v)]
  | (n', v') :: r => if rname_eqb n n' then (n', v) :: r else (n', v') :: xo_assign n v r
  end.
Fixpoint gs_assign (k : key) (v : option nat) (l : list (key * option nat)) : list (key * option nat) :=
  match l with
  | [] => [(k, v)]
  | (k', v') :: r => if key_eqb k k' then (k', v) :: r else (k', v') :: gs_assign k v r
  end.
Fixpoint pat_assign (n : Z) (v : nat) (l : list (Z * nat)) : list (Z * nat) :=
  match l with
  | [] => [(n, v)]
  | (n', v') :: r => if n =? n' then (n', v) :: r else (n', v') :: pat_assign n v r
  end.
Definition img_mem (i : Z) (b : bool) (l : list (Z * bool)) : bool :=
  existsb (fun p => (fst p =? i) && Bool.eqb (snd p) b) l.

Definition defined_in (r : resd) (n : rname) : bool :=
  match n with
  | NGs k => gs_mem k (r_gs r)
  | NX _ | NI _ _ => xo_mem n (r_xo r)
  | NP m => existsb (fun p => fst p =? m) (r_pat r)
  | NSh m => existsb (fun x => x =? m) (r_sh r)
  end.
Definition res_of (d : doc) (sid : nat) : option (nat * resd) :=
  match nth_error (d_str d) sid with
  | Some (rid, _) => match nth_error (d_res d) rid with Some r => Some (rid, r) | None => None end
  | None => None
  end.
Definition defined (d : doc) (sid : nat) (n : rname) : bool :=
  match res_of d sid with Some (_, r) => defined_in r n | None => false end.
Definition emitted (d : doc) (sid : nat) : list rname :=
  match nth_error (d_str d) sid with Some (_, e) => e | None => [] end.

Definition emit_name (d : doc) (sid : nat) (n : rname) : doc :=
  match nth_error (d_str d) sid with
  | Some (rid, e) => dmk (d_res d) (upd (d_str d) sid (rid, n :: e)) (d_img d)
  | None => d
  end.
Definition set_res (d : doc) (rid : nat) (r : resd) : doc := dmk (upd (d_res d) rid r) (d_str d) (d_img d).
(* a new Stream with a new, empty resource dictionary (add_group / add_pattern: self.clone(resources=...)) *)
Definition new_child (d : doc) : doc * nat :=
  (dmk (d_res d ++ [res0]) (d_str d ++ [(length (d_res d), [])]) (d_img d), length (d_str d)).

Definition rstep (c : call) (d : doc) : option doc :=
  let '(sid, o) := c in
  match res_of d sid with
  | None => None
  | Some (rid, r) =>
    match o with
    | RSetAlpha a i stroke =>
        let k := KA stroke a i in
        let r' := if gs_mem k (r_gs r) then r else rmk (r_gs r ++ [(k, None)]) (r_xo r) (r_pat r) (r_sh r) in
        Some (emit_name (set_res d rid r') sid (NGs k))
    | RSetState =>
        let k := KS (Z.of_nat (length (r_gs r))) in
        Some (emit_name (set_res d rid (rmk (gs_assign k None (r_gs r)) (r_xo r) (r_pat r) (r_sh r))) sid (NGs k))
    | RAddGroup =>
        let '(d1, child) := new_child d in
        Some (set_res d1 rid (rmk (r_gs r) (xo_assign (NX (Z.of_nat (length (r_xo r)))) (XG child) (r_xo r)) (r_pat r) (r_sh r)))
    | RAlphaState =>
        let '(d1, child) := new_child d in
        let xo := xo_assign (NX (Z.of_nat (length (r_xo r)))) (XG child) (r_xo r) in
        let k := KS (Z.of_nat (length (r_gs r))) in
        Some (emit_name (set_res d1 rid (rmk (gs_assign k (Some child) (r_gs r)) xo (r_pat r) (r_sh r))) sid (NGs k))
    | RAddPattern =>
        let '(d1, child) := new_child d in
        Some (set_res d1 rid (rmk (r_gs r) (r_xo r) (pat_assign (Z.of_nat (length (r_pat r))) child (r_pat r)) (r_sh r)))
    | RAddShading =>
        let n := Z.of_nat (length (r_sh r)) in
        Some (set_res d rid (rmk (r_gs r) (r_xo r) (r_pat r) (if existsb (fun x => x =? n) (r_sh r) then r_sh r else r_sh r ++ [n])))
    | RAddImage img interp =>
        let d1 := set_res d rid (rmk (r_gs r) (xo_assign (NI img interp) XI (r_xo r)) (r_pat r) (r_sh r)) in
        Some (dmk (d_res d1) (d_str d1) (if img_mem img interp (d_img d) then d_img d else d_img d ++ [(img, interp)]))
    | RClone => Some (dmk (d_res d) (d_str d ++ [(rid, [])]) (d_img d))
    | RDraw n | RShade n | RPatColor n => Some (emit_name d sid n)
    end
  end.

Fixpoint rrun (cs : list call) (d : doc) : option doc :=
  match cs with
  | [] => Some d
  | c :: r => match rstep c d with Some d' => rrun r d' | None => None end
  end.

(* the drawing code names what the API gave it, on the stream that gave it: draw_x_object(group.id) on the stream
   whose add_group returned `group`, paint_shading(shading.id), set_color_special(pattern.id) *)
Definition call_scoped (c : call) (d : doc) : bool :=
  let '(sid, o) := c in
  match o with
  | RDraw n => match n with NX _ | NI _ _ => defined d sid n | _ => false end
  | RShade n => match n with NSh _ => defined d sid n | _ => false end
  | RPatColor n => match n with NP _ => defined d sid n | _ => false end
  | _ => true
  end.
Fixpoint scoped (d : doc) (cs : list call) : bool :=
  match cs with
  | [] => true
  | c :: r => call_scoped c d && match rstep c d with Some d' => scoped d' r | None => true end
  end.

(* well-formedness: what makes x<len>, p<len>, s<len> fresh, and everything already emitted is defined *)
Definition num_ok (n : nat) (m : Z) : bool := (0 <=? m) && (m <? Z.of_nat n).
Definition res_wf (r : resd) : bool :=
  forallb (fun kv => key_ok (length (r_gs r)) (fst kv)) (r_gs r) &&
  forallb (fun nv => match fst nv with NX m => num_ok (length (r_xo r)) m | NI _ _ => true | _ => false end) (r_xo r) &&
  forallb (fun nv => num_ok (length (r_pat r)) (fst nv)) (r_pat r) &&
  forallb (fun m => num_ok (length (r_sh r)) m) (r_sh r).
Definition str_wf (d : doc) (s : nat * list rname) : bool :=
  match nth_error (d_res d) (fst s) with
  | Some r => forallb (defined_in r) (snd s)
  | None => false
  end.
Definition doc_wf (d : doc) : bool :=
  forallb res_wf (d_res d) && forallb (str_wf d) (d_str d) &&
  forallb (fun r => forallb (fun nv => match fst nv with NI i b => img_mem i b (d_img d) | _ => true end) (r_xo r)) (d_res d).

(* _use_references as far as names go: every value becomes a reference, no key is added, removed or renamed; the
   image names are looked up in the `images` table (KeyError otherwise) *)
Definition finalise_res (imgs : list (Z * bool)) (r : resd) : option resd :=
  if forallb (fun nv => match fst nv with NI i b => img_mem i b imgs | _ => true end) (r_xo r)
  then Some (rmk (r_gs r) (map (fun nv => (fst nv, XRef (snd nv))) (r_xo r)) (r_pat r) (r_sh r))
  else None.
Fixpoint finalise_all (imgs : list (Z * bool)) (l : list resd) : option (list resd) :=
  match l with
  | [] => Some []
  | r :: rest => match finalise_res imgs r, finalise_all imgs rest with
                 | Some r', Some rest' => Some (r' :: rest')
                 | _, _ => None
                 end
  end.
Definition finalise (d : doc) : option doc :=
  match finalise_all (d_img d) (d_res d) with
  | Some l => Some (dmk l (d_str d) (d_img d))
  | None => None
  end.

(* ---------------------------------------------------------------------------- correspondence judge *)
Fixpoint list_eqb2 {A} (eqb : A -> A -> bool) (l m : list A) : bool :=
  match l, m with
  | [], [] => true
  | a :: l', b :: m' => eqb a b && list_eqb2 eqb l' m'
  | _, _ => false
  end.
(* per Stream read back from the implementation: index of its resource dictionary, the names in its items (in
   order), and the keys of the four sub-dictionaries *)
Definition implstr := (nat * list rname * (list key * list rname * list Z * list Z))%type.
Definition str_matches (d : doc) (sid : nat) (o : implstr) : bool :=
  let '(rid, em, (gs, xo, pat, sh)) := o in
  match res_of d sid with
  | Some (rid', r) =>
      (* Stream.set_alpha skips a repeated alpha (its cache, model C16Stream): names are compared as sets *)
      Nat.eqb rid rid' && forallb (fun n => existsb (rname_eqb n) em) (emitted d sid) &&
      forallb (fun n => existsb (rname_eqb n) (emitted d sid)) em &&
      list_eqb2 key_eqb (map fst (r_gs r)) gs && list_eqb2 rname_eqb (map fst (r_xo r)) xo &&
      list_eqb2 Z.eqb (map fst (r_pat r)) pat && list_eqb2 Z.eqb (r_sh r) sh
  | None => false
  end.
Fixpoint strs_match (d : doc) (sid : nat) (os : list implstr) : bool :=
  match os with
  | [] => true
  | o :: r => str_matches d sid o && strs_match d (S sid) r
  end.
(* the specification on the implementation's own output: every emitted name is a key of the dictionary of its
   stream *)
Definition impl_names_defined (o : implstr) : bool :=
  let '(_, em, (gs, xo, pat, sh)) := o in
  forallb (fun n => match n with
                    | NGs k => existsb (key_eqb k) gs
                    | NX _ | NI _ _ => existsb (rname_eqb n) xo
                    | NP m => existsb (Z.eqb m) pat
                    | NSh m => existsb (Z.eqb m) sh
                    end) em.
(* bit 0 model <> implementation, bit 1 an emitted name is not defined in the implementation's dictionaries although
   the calls were scoped, bit 2 finalisation fails in the model *)
Definition res_judge (c : list call * list implstr) : nat :=
  let '(cs, os) := c in
  match rrun cs doc0 with
  | None => 1%nat
  | Some d =>
      ((if Nat.eqb (nstreams d) (length os) && strs_match d 0 os then 0 else 1) +
       (if scoped doc0 cs && negb (forallb impl_names_defined os) then 2 else 0) +
       (match finalise d with Some _ => 0 | None => 4 end))%nat
  end.
