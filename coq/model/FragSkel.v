From Coq Require Import List Arith Lia Bool.
Import ListNotations.

(* ---------- boxes, skip stacks, fragments ---------- *)
Inductive box := Para (ids : list nat) | Blk (kids : list box).
Inductive skip := Start | AtLine (k : nat) | AtChild (i : nat) (s : skip).
Inductive res := Done | Stop (s : skip).
Inductive frag := FPara (ids : list nat) | FBlk (kids : list frag).

Fixpoint words (b : box) : list nat :=
  match b with
  | Para ids => ids
  | Blk kids => (fix go l := match l with [] => [] | k :: l' => words k ++ go l' end) kids
  end.
Fixpoint fwords (f : frag) : list nat :=
  match f with
  | FPara ids => ids
  | FBlk kids => (fix go l := match l with [] => [] | k :: l' => fwords k ++ go l' end) kids
  end.
Definition words_l (l : list box) := flat_map words l.
Definition fwords_l (l : list frag) := flat_map fwords l.
Lemma words_blk kids : words (Blk kids) = words_l kids.
Proof. unfold words_l. simpl. induction kids; simpl; congruence. Qed.
Lemma fwords_blk kids : fwords (FBlk kids) = fwords_l kids.
Proof. unfold fwords_l. simpl. induction kids; simpl; congruence. Qed.

(* words of [b] that remain to be laid out when starting from skip [s] *)
Fixpoint words_from (b : box) (s : skip) : list nat :=
  match s, b with
  | Start, _ => words b
  | AtLine k, Para ids => skipn k ids
  | AtChild i s', Blk kids =>
      (fix go l n := match l with
                     | [] => []
                     | k :: l' => match n with
                                  | O => words_from k s' ++ words_l l'
                                  | S n' => go l' n'
                                  end
                     end) kids i
  | _, _ => []   (* ill-formed skip *)
  end.
Definition words_res (b : box) (r : res) :=
  match r with Done => [] | Stop s => words_from b s end.

(* ---------- oracle: a stream of overflow answers ---------- *)
Definition oracle := list bool.
Definition ask (o : oracle) : bool * oracle :=
  match o with [] => (false, []) | x :: o' => (x, o') end.

(* ---------- paragraph: _linebox_layout + _break_line (orphans = widows = 1) ---------- *)
(* lines k.. of ids; placed = lines already in new_children (reverse order not needed) *)
Fixpoint para_loop (ids : list nat) (k : nat) (placed : list nat) (pie : bool) (o : oracle)
  : option (list nat * res) * oracle :=
  match ids with
  | [] => (Some (placed, Done), o)
  | id :: rest =>
      let '(ovf, o1) := ask o in
      if (negb (Nat.eqb (length placed) 0) || negb pie) && ovf then
        (* _break_line *)
        if Nat.eqb (length placed) 0 then (None, o1)        (* over_orphans < 0, page not empty: abort *)
        else (Some (placed, Stop (AtLine k)), o1)
      else para_loop rest (S k) (placed ++ [id]) pie o1
  end.

Definition layout_para (ids : list nat) (s : skip) (pie : bool) (o : oracle) :=
  let k := match s with AtLine k => k | _ => 0 end in
  para_loop (skipn k ids) k [] pie o.

(* ---------- block container ---------- *)
Section Blk.
  Variable layout : box -> skip -> bool -> oracle -> option (frag * res) * oracle.
  (* children loop of block_container_layout / _in_flow_layout *)
  Fixpoint kids_loop (kids : list box) (index : nat) (s : skip) (newc : list frag) (pie : bool)
           (o : oracle) : option (list frag * res) * oracle :=
    match kids with
    | [] => (Some (newc, Done), o)
    | c :: rest =>
        let pie_nc := pie && Nat.eqb (length newc) 0 in
        match layout c s pie_nc o with
        | (None, o1) =>
            if Nat.eqb (length newc) 0 then (None, o1)                 (* abort *)
            else (Some (newc, Stop (AtChild index Start)), o1)         (* resume before child *)
        | (Some (f, Done), o1) => kids_loop rest (S index) Start (newc ++ [f]) pie o1
        | (Some (f, Stop s'), o1) => (Some (newc ++ [f], Stop (AtChild index s')), o1)
        end
    end.
End Blk.

Fixpoint layout (b : box) (s : skip) (pie : bool) (o : oracle) {struct b}
  : option (frag * res) * oracle :=
  match b with
  | Para ids =>
      match layout_para ids s pie o with
      | (None, o1) => (None, o1)
      | (Some (placed, r), o1) => (Some (FPara placed, r), o1)
      end
  | Blk kids =>
      let '(i, s') := match s with AtChild i s' => (i, s') | _ => (0, Start) end in
      match
        (fix kl (kids : list box) (index : nat) (toskip : nat) (s : skip) (newc : list frag) (o : oracle)
             {struct kids} :=
           match kids with
           | [] => (Some (newc, Done), o)
           | c :: rest =>
               match toskip with
               | S n => kl rest (S index) n s newc o
               | O =>
                 let pie_nc := pie && Nat.eqb (length newc) 0 in
                 match layout c s pie_nc o with
                 | (None, o1) =>
                     if Nat.eqb (length newc) 0 then (None, o1)
                     else (Some (newc, Stop (AtChild index Start)), o1)
                 | (Some (f, Done), o1) => kl rest (S index) O Start (newc ++ [f]) o1
                 | (Some (f, Stop s2), o1) => (Some (newc ++ [f], Stop (AtChild index s2)), o1)
                 end
               end
           end) kids 0 i s' [] o
      with
      | (None, o1) => (None, o1)
      | (Some (newc, r), o1) => (Some (FBlk newc, r), o1)
      end
  end.

(* ---------- well-formed skips ---------- *)
Fixpoint wf_skip (b : box) (s : skip) : Prop :=
  match s, b with
  | Start, _ => True
  | AtLine k, Para ids => k <= length ids
  | AtChild i s', Blk kids =>
      (fix go l n := match l with
                     | [] => False
                     | k :: l' => match n with O => wf_skip k s' | S n' => go l' n' end
                     end) kids i
  | _, _ => False
  end.

(* ---------- conservation ---------- *)
Lemma skipn_S {A} : forall (l : list A) k x rest, skipn k l = x :: rest -> skipn (S k) l = rest.
Proof.
  induction l as [|a l IH]; intros [|k] x rest H; simpl in *; try discriminate.
  - inversion H; reflexivity.
  - destruct l; [destruct k; discriminate|]. apply IH in H. exact H.
Qed.

Lemma para_loop_cons : forall ids k placed pie o placed' r o',
  para_loop ids k placed pie o = (Some (placed', r), o') ->
  forall all, skipn k all = ids ->
  placed' ++ words_res (Para all) r = placed ++ ids.
Proof.
  induction ids as [|id rest IH]; intros k placed pie o placed' r o' H all Hall; simpl in H.
  - inversion H; subst. simpl. now rewrite !app_nil_r.
  - destruct (ask o) as [ovf o1].
    destruct ((negb (length placed =? 0) || negb pie) && ovf).
    + destruct (length placed =? 0); [discriminate|].
      inversion H; subst. simpl. now rewrite Hall.
    + eapply IH in H; [|eapply skipn_S; eassumption].
      rewrite H. now rewrite <- app_assoc.
Qed.

Lemma layout_para_cons ids s pie o placed r o' :
  wf_skip (Para ids) s ->
  layout_para ids s pie o = (Some (placed, r), o') ->
  placed ++ words_res (Para ids) r = words_from (Para ids) s.
Proof.
  intros Hwf H. unfold layout_para in H.
  eapply para_loop_cons in H; [|reflexivity]. simpl in H. rewrite H.
  destruct s; simpl in *; try reflexivity; contradiction.
Qed.

(* the words still to come in a list of children when index i is reached with skip s *)
Fixpoint words_from_kids (l : list box) (n : nat) (s : skip) : list nat :=
  match l with
  | [] => []
  | k :: l' => match n with O => words_from k s ++ words_l l' | S n' => words_from_kids l' n' s end
  end.
Lemma words_from_blk kids i s : words_from (Blk kids) (AtChild i s) = words_from_kids kids i s.
Proof. simpl. revert i. induction kids; intros [|i]; simpl; auto. Qed.
Fixpoint wf_kids (l : list box) (n : nat) (s : skip) : Prop :=
  match l with
  | [] => False
  | k :: l' => match n with O => wf_skip k s | S n' => wf_kids l' n' s end
  end.

Lemma wf_start b : wf_skip b Start. Proof. destruct b; exact I. Qed.
Lemma words_from_start b : words_from b Start = words b. Proof. destruct b; reflexivity. Qed.
Lemma wfk0 l : words_from_kids l 0 Start = words_l l.
Proof. destruct l; simpl; [reflexivity|now rewrite words_from_start]. Qed.
Definition conserves (b : box) :=
  forall s pie o f r o', wf_skip b s -> layout b s pie o = (Some (f, r), o') ->
    fwords f ++ words_res b r = words_from b s.

(* strong induction principle for rose trees *)
Fixpoint box_ind' (P : box -> Prop)
  (Hp : forall ids, P (Para ids))
  (Hb : forall kids, Forall P kids -> P (Blk kids)) (b : box) : P b :=
  match b with
  | Para ids => Hp ids
  | Blk kids => Hb kids ((fix go l : Forall P l := match l with
                                       | [] => Forall_nil _
                                       | k :: l' => Forall_cons k (box_ind' P Hp Hb k) (go l')
                                       end) kids)
  end.

Theorem layout_conserves : forall b, conserves b.
Proof.
  induction b as [ids | kids IH] using box_ind'; unfold conserves; intros s pie o f r o' Hwf H.
  - simpl in H. destruct (layout_para ids s pie o) as [[[placed r0]|] o1] eqn:E; [|discriminate].
    inversion H; subst. simpl fwords. eapply layout_para_cons; eassumption.
  - simpl in H.
    (* generalise the inner loop *)
    set (kl := fix kl (kids : list box) (index toskip : nat) (s : skip) (newc : list frag) (o : oracle) {struct kids} :=
           match kids with
           | [] => (Some (newc, Done), o)
           | c :: rest =>
               match toskip with
               | S n => kl rest (S index) n s newc o
               | O =>
                 let pie_nc := pie && Nat.eqb (length newc) 0 in
                 match layout c s pie_nc o with
                 | (None, o1) =>
                     if Nat.eqb (length newc) 0 then (None, o1)
                     else (Some (newc, Stop (AtChild index Start)), o1)
                 | (Some (f, Done), o1) => kl rest (S index) O Start (newc ++ [f]) o1
                 | (Some (f, Stop s2), o1) => (Some (newc ++ [f], Stop (AtChild index s2)), o1)
                 end
               end
           end) in *.
    assert (KL : forall l, Forall conserves l ->
              forall index toskip s0 newc o0 newc' r0 o1,
              (toskip = 0 /\ s0 = Start \/ wf_kids l toskip s0) ->
              (s0 = Start \/ newc = []) ->
              kl l index toskip s0 newc o0 = (Some (newc', r0), o1) ->
              fwords_l newc' ++
                match r0 with
                | Done => []
                | Stop (AtChild j sj) => words_from_kids l (j - index) sj
                | Stop _ => []
                end = fwords_l newc ++ words_from_kids l toskip s0
              /\ match r0 with Stop (AtChild j _) => index <= j | Stop _ => False | Done => True end).
    { clear. intros l Hl. induction Hl as [|c rest Hc Hrest IHl]; intros index toskip s0 newc o0 newc' r0 o1 Hwf Hs Hk.
      - simpl in Hk. inversion Hk; subst. split; [|exact I]. reflexivity.
      - simpl in Hk. destruct toskip as [|n].
        + (* lay out child c *)
          assert (Hcw : wf_skip c s0) by (destruct Hwf as [[_ ->]|Hwf]; [apply wf_start|exact Hwf]).
          destruct (layout c s0 (pie && (length newc =? 0)) o0) as [[[fc [|s2]]|] o2] eqn:Ec.
          * (* child done *)
            pose proof (Hc _ _ _ _ _ _ Hcw Ec) as Hcc. simpl in Hcc. rewrite app_nil_r in Hcc.
            apply IHl in Hk; [|left; auto|left; auto].
            destruct Hk as [Hk Hidx]. rewrite wfk0 in Hk. split.
            -- destruct r0 as [|[|k'|j sj]]; simpl in Hidx; try contradiction.
               ++ rewrite Hk. unfold fwords_l. rewrite flat_map_app. simpl. rewrite app_nil_r.
                  rewrite <- app_assoc. now rewrite Hcc.
               ++ replace (j - index) with (S (j - S index)) by lia. simpl.
                  rewrite Hk. unfold fwords_l. rewrite flat_map_app. simpl. rewrite app_nil_r.
                  rewrite <- app_assoc. now rewrite Hcc.
            -- destruct r0 as [|[|k'|j sj]]; auto. simpl in Hidx. lia.
          * (* child stopped with s2 *)
            inversion Hk; subst. split; [|lia].
            pose proof (Hc _ _ _ _ _ _ Hcw Ec) as Hcc. simpl in Hcc.
            rewrite Nat.sub_diag. simpl. unfold fwords_l. rewrite flat_map_app. simpl. rewrite app_nil_r.
            rewrite <- !app_assoc. f_equal. now rewrite app_assoc, Hcc.
          * (* child aborted *)
            destruct Hs as [Hs|Hs]; [subst s0|subst newc; simpl in Hk; discriminate].
            destruct (length newc =? 0); [discriminate|]. inversion Hk; subst. split; [|lia].
            rewrite Nat.sub_diag. reflexivity.
        + (* skipping child c *)
          apply IHl in Hk; [| |exact Hs].
          * destruct Hk as [Hk Hidx]. split.
            -- destruct r0 as [|[|k'|j sj]]; simpl in Hidx; try contradiction.
               ++ rewrite Hk. reflexivity.
               ++ replace (j - index) with (S (j - S index)) by lia. simpl. rewrite Hk. reflexivity.
            -- destruct r0 as [|[|k'|j sj]]; auto. lia.
          * right. destruct Hwf as [[Hx _]|Hwf]; [discriminate|exact Hwf].
    }
    assert (FA : Forall conserves kids) by exact IH.
    destruct s as [|k|i s']; simpl in Hwf; try contradiction.
    + destruct (kl kids 0 0 Start [] o) as [[[newc r0]|] o1] eqn:E; [|discriminate].
      inversion H; subst. apply KL in E; auto. destruct E as [E Hidx].
      rewrite fwords_blk. change (words_from (Blk kids) Start) with (words (Blk kids)). rewrite words_blk. simpl in E. rewrite wfk0 in E.
      destruct r as [|[|k'|j sj]]; cbn [words_res]; simpl in Hidx; try contradiction.
      * exact E.
      * rewrite words_from_blk. rewrite Nat.sub_0_r in E. exact E.
    + destruct (kl kids 0 i s' [] o) as [[[newc r0]|] o1] eqn:E; [|discriminate].
      inversion H; subst. apply KL in E; auto.
      2:{ right. clear -Hwf. revert i Hwf. induction kids; intros [|i] Hwf; simpl in *; auto. }
      destruct E as [E Hidx].
      rewrite fwords_blk, words_from_blk. simpl in E.
      destruct r as [|[|k'|j sj]]; cbn [words_res]; simpl in Hidx; try contradiction.
      * exact E.
      * rewrite words_from_blk. rewrite Nat.sub_0_r in E. exact E.
Qed.
Print Assumptions layout_conserves.
