(* C18 - bookmark tree: hand model of weasyprint/anchors.py make_page_bookmark_tree and
   weasyprint/document.py Document.make_bookmark_tree.  Definitions only (proofs: proofs/C18_bookmarks.v).

   Python state                         model
   skipped_levels = [s1,...,sn]         skipped = [sn; ...; s1]        (head = last element = top of the stack)
   previous_level                       prev
   last_by_depth = [root,c1,...,cn]     rootk, opens = [fn; ...; f1]   (head = deepest open node)
     ci is the (aliased, still growing) children list of the last element of c(i-1); the model keeps the
     open node fi = (pos, payload, children so far) apart and puts it into its parent when the Python code
     drops the alias (del last_by_depth[depth:]).
   npos is ghost state: the number of bookmarks handled so far; nodes are tagged with their input position.
   Every way the Python code can raise is an error value:
     EPopEmpty (skipped_levels.pop() on []), EAssertDepthLen / EAssertDepthGe1 (the two asserts),
     EIndex (last_by_depth[depth - 1] out of range). *)
From Coq Require Import ZArith List Bool.
Import ListNotations.
Open Scope Z_scope.

Inductive err := EPopEmpty | EAssertDepthLen | EAssertDepthGe1 | EIndex.

Fixpoint sumZ (l : list Z) : Z := match l with [] => 0 | x :: r => x + sumZ r end.
(* sum(skipped_levels) + len(skipped_levels) *)
Fixpoint sumlen (l : list Z) : Z := match l with [] => 0 | x :: r => x + 1 + sumlen r end.

(* while temp < previous_level: temp += 1 + skipped_levels.pop()       (structural on the stack) *)
Fixpoint unwind (temp prev : Z) (sk : list Z) : option (Z * list Z) :=
  if temp <? prev then
    match sk with
    | [] => None
    | s :: sk' => unwind (temp + 1 + s) prev sk'
    end
  else Some (temp, sk).

Definition adjust (level : Z) (sk : list Z) (prev : Z) : err + list Z :=
  if prev <? level then inr ((level - prev - 1) :: sk)
  else match unwind level prev sk with
       | None => inl EPopEmpty
       | Some (temp, sk') => inr (if prev <? temp then (temp - prev - 1) :: sk' else sk')
       end.

Section Build.
Context {A : Type}.

Inductive tree := Node (pos : nat) (a : A) (kids : list tree).
Definition frame := (nat * A * list tree)%type.

Record state := mkst { skipped : list Z; prev : Z; rootk : list tree; opens : list frame; npos : nat }.

Definition init : state := mkst [] 0 [] [] 0.

(* the deepest open node is finished: it already sits at the end of its parent's children list *)
Fixpoint close_n (n : nat) (rk : list tree) (ops : list frame) : list tree * list frame :=
  match n with
  | O => (rk, ops)
  | S n' =>
      match ops with
      | [] => (rk, [])
      | (p, a, ks) :: rest =>
          match rest with
          | [] => close_n n' (rk ++ [Node p a ks]) []
          | (p', a', ks') :: rest' => close_n n' rk ((p', a', ks' ++ [Node p a ks]) :: rest')
          end
      end
  end.

Definition step (s : state) (level : Z) (a : A) : err + state :=
  match adjust level (skipped s) (prev s) with
  | inl e => inl e
  | inr sk =>
      let depth := level - sumZ sk in
      if negb (depth =? Z.of_nat (length sk)) then inl EAssertDepthLen
      else if negb (1 <=? depth) then inl EAssertDepthGe1
      else if negb (depth - 1 <? Z.of_nat (S (length (opens s)))) then inl EIndex
      else
        (* last_by_depth[depth-1].append(subtree); del last_by_depth[depth:]; last_by_depth.append(children) *)
        let '(rk, ops) := close_n (length (opens s) - (Z.to_nat depth - 1)) (rootk s) (opens s) in
        inr (mkst sk level rk ((npos s, a, []) :: ops) (S (npos s)))
  end.

(* make_page_bookmark_tree: the loop over page.bookmarks (payloads already carry page number and point) *)
Fixpoint run_items (s : state) (items : list (Z * A)) : err + state :=
  match items with
  | [] => inr s
  | (l, a) :: r => match step s l a with inl e => inl e | inr s' => run_items s' r end
  end.

Definition finish (s : state) : list tree := fst (close_n (length (opens s)) (rootk s) (opens s)).

Definition build (items : list (Z * A)) : err + list tree :=
  match run_items init items with inl e => inl e | inr s => inr (finish s) end.

(* ---- reading a forest: preorder entries (position, payload, parent position, depth) ---- *)
Definition entry := (nat * A * option nat * nat)%type.
Fixpoint flat_tree (d : nat) (par : option nat) (t : tree) : list entry :=
  match t with
  | Node p a ks =>
      (p, a, par, d) ::
      (fix go (l : list tree) : list entry :=
         match l with [] => [] | k :: l' => flat_tree (S d) (Some p) k ++ go l' end) ks
  end.
Definition flat_forest (d : nat) (par : option nat) (f : list tree) : list entry :=
  flat_map (flat_tree d par) f.

Definition e_pos (e : entry) : nat := fst (fst (fst e)).
Definition e_payload (e : entry) : A := snd (fst (fst e)).
Definition e_parent (e : entry) : option nat := snd (fst e).
Definition e_depth (e : entry) : nat := snd e.

End Build.
Arguments tree : clear implicits.
Arguments state : clear implicits.
Arguments entry : clear implicits.

(* ---- Document.make_bookmark_tree: pages in order, shared state, payload = (page number, bookmark) ---- *)
Section Doc.
Context {B : Type}.
Definition tag_page (pn : nat) (page : list (Z * B)) : list (Z * (nat * B)) :=
  map (fun lb => (fst lb, (pn, snd lb))) page.
Fixpoint run_pages (s : state (nat * B)) (pn : nat) (pages : list (list (Z * B))) : err + state (nat * B) :=
  match pages with
  | [] => inr s
  | p :: ps => match run_items s (tag_page pn p) with inl e => inl e | inr s' => run_pages s' (S pn) ps end
  end.
Definition doc_tree (pages : list (list (Z * B))) : err + list (tree (nat * B)) :=
  match run_pages init 0 pages with inl e => inl e | inr s => inr (finish s) end.
(* the same bookmarks as one sequence *)
Fixpoint doc_items (pn : nat) (pages : list (list (Z * B))) : list (Z * (nat * B)) :=
  match pages with [] => [] | p :: ps => tag_page pn p ++ doc_items (S pn) ps end.
End Doc.

(* ---- correspondence judge: bookmarks are (level, label id, closed); the implementation's tree is given as
   a forest of (page number, label id, closed) ---- *)
Inductive itree := INode (page : nat) (label : Z) (closed : bool) (kids : list itree).

Fixpoint erase (t : tree (nat * (Z * bool))) : itree :=
  match t with Node _ (pn, (lab, cl)) ks => INode pn lab cl (map erase ks) end.

Fixpoint itree_eqb (a b : itree) : bool :=
  match a, b with
  | INode p1 l1 c1 k1, INode p2 l2 c2 k2 =>
      Nat.eqb p1 p2 && Z.eqb l1 l2 && Bool.eqb c1 c2 &&
      (fix go (x y : list itree) : bool :=
         match x, y with
         | [], [] => true
         | a' :: x', b' :: y' => itree_eqb a' b' && go x' y'
         | _, _ => false
         end) k1 k2
  end.
Fixpoint iforest_eqb (x y : list itree) : bool :=
  match x, y with
  | [], [] => true
  | a :: x', b :: y' => itree_eqb a b && iforest_eqb x' y'
  | _, _ => false
  end.

(* decidable rendition of the property on the implementation's forest, independent of the model:
   preorder = input, parent = nearest earlier entry of strictly lower level *)
Fixpoint iflat (par : option nat) (n : nat) (t : itree) : list (nat * Z * bool * option nat) * nat :=
  match t with
  | INode pg lab cl ks =>
      let '(l, n') :=
        (fix go (l : list itree) (m : nat) : list (nat * Z * bool * option nat) * nat :=
           match l with
           | [] => ([], m)
           | k :: l' => let '(a, m1) := iflat (Some n) m k in let '(b, m2) := go l' m1 in (a ++ b, m2)
           end) ks (S n) in
      ((pg, lab, cl, par) :: l, n')
  end.
Fixpoint iflat_forest (f : list itree) (n : nat) : list (nat * Z * bool * option nat) :=
  match f with
  | [] => []
  | t :: f' => let '(a, m) := iflat None n t in a ++ iflat_forest f' m
  end.

(* nearest earlier index of strictly lower level, scanning backwards *)
Fixpoint nearest_lower (levels_rev : list Z) (i : nat) (lv : Z) : option nat :=
  match levels_rev with
  | [] => None
  | l :: r => match i with
              | O => None
              | S j => if l <? lv then Some j else nearest_lower r j lv
              end
  end.

Definition opt_nat_eqb (a b : option nat) : bool :=
  match a, b with None, None => true | Some x, Some y => Nat.eqb x y | _, _ => false end.

Fixpoint spec_entries (its : list (Z * (nat * (Z * bool)))) (done_rev : list Z) (i : nat)
         (es : list (nat * Z * bool * option nat)) : bool :=
  match its, es with
  | [], [] => true
  | (lv, (pn, (lab, cl))) :: its', (pg, lab', cl', par) :: es' =>
      Nat.eqb pn pg && Z.eqb lab lab' && Bool.eqb cl cl' &&
      opt_nat_eqb par (nearest_lower done_rev i lv) &&
      spec_entries its' (lv :: done_rev) (S i) es'
  | _, _ => false
  end.

Definition bookmark_spec_b (pages : list (list (Z * (Z * bool)))) (out : list itree) : bool :=
  spec_entries (doc_items 0 pages) [] 0 (iflat_forest out 0).

(* case = (pages, implementation result): inl n = the implementation raised (n: 1 IndexError, 2 AssertionError,
   0 other), inr forest.   bit 0: model <> implementation, bit 1: implementation output violates the spec *)
Definition bookmark_judge (c : list (list (Z * (Z * bool))) * (nat + list itree)) : nat :=
  let '(pages, out) := c in
  let m := doc_tree pages in
  ((match m, out with
    | inr f, inr g => if iforest_eqb (map erase f) g then 0 else 1
    | inl EPopEmpty, inl 1%nat | inl EIndex, inl 1%nat => 0
    | inl EAssertDepthLen, inl 2%nat | inl EAssertDepthGe1, inl 2%nat => 0
    | _, _ => 1
    end) +
   (match out with
    | inr g => if bookmark_spec_b pages g then 0 else 2
    | inl _ => if forallb (forallb (fun lb : Z * (Z * bool) => (1 <=? fst lb)%Z)) pages then 2 else 0
    end))%nat.
