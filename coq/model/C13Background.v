(* C13 - background layers: the size / position / repeat arithmetic of layout_background_layer
   (weasyprint/layout/background.py) and of draw_background_image (weasyprint/draw/__init__.py).  Definitions only. *)
From Coq Require Import QArith Qminmax Qround ZArith List Bool.
Require Import WV.model.C13Replaced.
Import ListNotations.
Open Scope Q_scope.

Inductive bgsize := BCover | BContain | BSize (w h : option lenpct).   (* None = 'auto' *)
Inductive rep := Repeat | NoRepeat | Space | Round.
Definition is_round (r : rep) : bool := match r with Round => true | _ => false end.

(* Python's round(): nearest integer, ties to even *)
Definition py_round (x : Q) : Z :=
  let f := Qfloor x in
  let d := x - inject_Z f in
  if Qltb d (1 # 2) then f
  else if Qltb (1 # 2) d then (f + 1)%Z
  else if Z.even f then f else (f + 1)%Z.

Definition opt_percentage (v : option lenpct) (ref : Q) : oq :=
  match v with Some v => Some (percentage v ref) | None => None end.

Inductive bgres :=
| BErr                                  (* the code raises ZeroDivisionError *)
| BUnused                               (* no image / zero intrinsic size: layer with image=None *)
| BLayer (w h x y : Q).                 (* size and position of the layer *)

Definition is_zero (x : oq) : bool := match x with Some q => Qeq_bool q 0 | None => false end.

(* one axis of the `round` adjustment: returns (number of repeats, new size) *)
Definition round_axis (area img : Q) : option (Z * Q) :=
  bind (qdiv area img) (fun q =>
  let n := Z.max 1 (py_round q) in
  Some (n, area / inject_Z n)).

Definition size_auto_h (s : bgsize) : bool := match s with BSize _ None => true | _ => false end.
Definition size_auto_w (s : bgsize) : bool := match s with BSize None _ => true | _ => false end.

(* one `round` block of the code.  on: this axis is 'round'; other_round: the other axis is 'round';
   auto_other: the background-size of the other dimension is 'auto'.  a: this dimension, b: the other one *)
Definition round_step (on other_round auto_other : bool) (area a b : Q) : option (Q * Q) :=
  if on && negb (Qeq_bool a 0)                       (* repeat == 'round' and image_size *)
  then match round_axis area a with
       | None => None
       | Some (_, na) =>
           if negb other_round && auto_other
           then bind (qdiv na a) (fun k => Some (na, b * k))
           else Some (na, b)
       end
  else Some (a, b).

Definition bg_size (i : intr) (size : bgsize) (pw ph : Q) : option (Q * Q) :=
  match size with
  | BCover => cover_sizing pw ph (ir i)
  | BContain => contain_sizing pw ph (ir i)
  | BSize sw sh => default_sizing i (opt_percentage sw pw) (opt_percentage sh ph) pw ph
  end.

Definition bg_place (round_on rgt : bool) (p : lenpct) (area img : Q) : Q :=
  let ref := area - img in
  let x := percentage p ref in
  let x := if rgt then ref - x else x in
  if round_on && negb (Qeq_bool img 0) then 0 else x.   (* position ignored for rounded dimensions *)

(* pw ph: positioning area; rgt btm: origins 'right' / 'bottom'; px py: the offsets; rx ry: repeat *)
Definition bg_layout (i : intr) (size : bgsize) (pw ph : Q) (rgt btm : bool) (px py : lenpct) (rx ry : rep)
  : bgres :=
  if is_zero (iw i) || is_zero (ih i) then BUnused else
  match bg_size i size pw ph with
  | None => BErr
  | Some (w, h) =>
      match round_step (is_round rx) (is_round ry) (size_auto_h size) pw w h with
      | None => BErr
      | Some (w, h) =>
          match round_step (is_round ry) (is_round rx) (size_auto_w size) ph h w with
          | None => BErr
          | Some (h, w) =>
              (* positions refer to the final size *)
              BLayer w h (bg_place (is_round rx) rgt px pw w) (bg_place (is_round ry) btm py ph h)
          end
      end
  end.

(* draw_background_image: per axis, the pattern step and the final offset.
   area: positioning size, paint: painting size, img: image size, pos: layer position *)
Definition draw_axis (r : rep) (area paint img pos : Q) : option (Q * Q) :=
  match r with
  | NoRepeat => Some (Qmax img (2 * paint), pos)
  | Repeat | Round => Some (img, pos)
  | Space =>
      bind (qdiv area img) (fun q =>
      let n := Qfloor q in
      if (2 <=? n)%Z
      then bind (qdiv (area - img) (inject_Z (n - 1))) (fun s => Some (s, 0))
      else Some (area, pos))
  end.

(* number of tiles `space` places *)
Definition space_count (area img : Q) : option Z := bind (qdiv area img) (fun q => Some (Qfloor q)).

(* ---- judge for the direct-call stream *)
Definition q4c (a b : Q * Q * Q * Q) : bool :=
  let '(a1, a2, a3, a4) := a in let '(b1, b2, b3, b4) := b in
  Qeq_bool a1 b1 && Qeq_bool a2 b2 && Qeq_bool a3 b3 && Qeq_bool a4 b4.

Definition rep_of (n : nat) : rep :=
  match n with 0%nat => Repeat | 1%nat => NoRepeat | 2%nat => Space | _ => Round end.

(* out: 0 raise | 1 unused | 2 layer (w h x y) and, when drawn with a pattern, (step_x, step_y, off_x, off_y) *)
Inductive bgout := ORaise | OUnused | OLayer (l : Q * Q * Q * Q) (d : option (Q * Q * Q * Q)).

Definition bg_case : Type :=
  (oq * oq * oq) * bgsize * (Q * Q) * (bool * bool) * (lenpct * lenpct) * (nat * nat) * (Q * Q) * bgout.

Definition bg_spec_b (i : intr) (size : bgsize) (pw ph : Q) (rgt btm : bool) (px py : lenpct) (rx ry : rep)
           (paw pah : Q) (o : bgout) : bool :=
  match o with
  | OLayer (w, h, x, y) d =>
      let pos := Qltb 0 pw && Qltb 0 ph && Qltb 0 w && Qltb 0 h in
      (* contain / cover without round *)
      impl (negb (is_round rx) && negb (is_round ry))
        match size, ir i with
        | BContain, Some r => impl (Qltb 0 r) (Qle_bool w pw && Qle_bool h ph && (Qeq_bool w pw || Qeq_bool h ph) && Qeq_bool w (h * r))
        | BCover, Some r => impl (Qltb 0 r) (Qle_bool pw w && Qle_bool ph h && (Qeq_bool w pw || Qeq_bool h ph) && Qeq_bool w (h * r))
        | _, _ => true
        end &&
      (* round: a whole number of tiles fills the area, position ignored *)
      impl (is_round rx && pos)
        (Qeq_bool x 0 && let n := Qfloor (pw / w + (1 # 2)) in Qeq_bool (w * inject_Z n) pw && (1 <=? n)%Z) &&
      impl (is_round ry && pos)
        (Qeq_bool y 0 && let n := Qfloor (ph / h + (1 # 2)) in Qeq_bool (h * inject_Z n) ph && (1 <=? n)%Z) &&
      (* percentages align the same percentage points *)
      impl (negb (is_round rx))
        match px with
        | Pct p => let p := if rgt then 100 - p else p in Qeq_bool (x + w * p / 100) (pw * p / 100)
        | Px q => Qeq_bool x (if rgt then pw - w - q else q)
        end &&
      impl (negb (is_round ry))
        match py with
        | Pct p => let p := if btm then 100 - p else p in Qeq_bool (y + h * p / 100) (ph * p / 100)
        | Px q => Qeq_bool y (if btm then ph - h - q else q)
        end &&
      (* space: first tile at 0, last tile ends at the far edge, tiles do not overlap *)
      match d with
      | Some (sx, sy, ox, oy) =>
          match rx with
          | Space => impl pos (let n := Qfloor (pw / w) in
                        if (2 <=? n)%Z then Qeq_bool ox 0 && Qeq_bool (sx * inject_Z (n - 1) + w) pw && Qle_bool w sx
                        else Qeq_bool ox x)
          | _ => Qeq_bool ox x
          end &&
          match ry with
          | Space => impl pos (let n := Qfloor (ph / h) in
                        if (2 <=? n)%Z then Qeq_bool oy 0 && Qeq_bool (sy * inject_Z (n - 1) + h) ph && Qle_bool h sy
                        else Qeq_bool oy y)
          | _ => Qeq_bool oy y
          end
      | None => true
      end
  | _ => true
  end.

Definition bg_judge (c : bg_case) : nat :=
  let '(i3, size, (pw, ph), (rgt, btm), (px, py), (rx, ry), (paw, pah), out) := c in
  let i := Intr (fst (fst i3)) (snd (fst i3)) (snd i3) in
  let rx := rep_of rx in let ry := rep_of ry in
  let m := bg_layout i size pw ph rgt btm px py rx ry in
  let same :=
    match m, out with
    | BErr, ORaise => true
    | BUnused, OUnused => true
    | BLayer w h x y, OLayer l d =>
        q4c (w, h, x, y) l &&
        match d with
        | None => true
        | Some d =>
            match draw_axis rx pw paw w x, draw_axis ry ph pah h y with
            | Some (sx, ox), Some (sy, oy) => q4c (sx, sy, ox, oy) d
            | _, _ => false
            end
        end
    | _, _ => false
    end in
  (bit 1 same + bit 2 (bg_spec_b i size pw ph rgt btm px py rx ry paw pah out))%nat.
