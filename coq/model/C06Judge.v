(* C06 - judges evaluated by the correspondence / monitor streams (common.eval_cases, vm_compute).
   Masks: bit 0 = the model's output differs from the implementation's output; bit 1 = the implementation's output
   violates the specification side (written independently of the fold: maximum for a total key, CSS tables). *)
From Coq Require Import ZArith QArith Qabs List Bool String.
Require Import WV.model.C06Cascade WV.model.C06Inherit WV.model.C06Values WV.model.C06Imports.
Import ListNotations.

(* ================================================================== cascade + inheritance through renders *)
Open Scope Z_scope.

(* values are integers: >= 1 a declared value, 0 the initial value, -1 'inherit', -2 'initial' *)
Definition rd := rdecl Z.
Inductive ctree :=
  CNode (attrs : list (spec * list rd)) (sheets : list (sheet Z)) (has_before : bool) (kids : list ctree).

Definition to_cval (v : Z) : cval Z := if v =? -1 then CInherit else if v =? -2 then CInitial else CVal v.
Definition casc_of (st : list (Z * decl Z)) : list (Z * cval Z) :=
  map (fun nd => (fst nd, to_cval (d_val (snd nd)))) st.

(* ---- model side: the fold of C06Cascade, then C06Inherit *)
Fixpoint model_tree (t : ctree) : tree Z :=
  match t with
  | CNode attrs sheets hb kids =>
      Node (casc_of (element_cascade 0 attrs sheets))
           ((if hb then [Node (casc_of (element_cascade 1 attrs sheets)) []] else []) ++ map model_tree kids)
  end.
Definition model_styles (inh : Z -> bool) (t : ctree) : list (Z -> Z) :=
  styles Z (fun _ => 0) inh (fun _ => false) (fun _ _ v => v) (fun _ => None) None (model_tree t).

(* ---- specification side: the declaration that is maximal for
        (origin/importance, specificity, sheet, rule order, position in the rule); matches NOT sorted *)
Definition key_leb (d e : decl Z) : bool :=
  match lex (weight_compare (weight_of d) (weight_of e))
            (lex (d_sheet d ?= d_sheet e)
                 (lex (spec_compare (d_selspec d) (d_selspec e)) (lex (d_order d ?= d_order e) (d_idx d ?= d_idx e))))
  with Gt => false | _ => true end.
Definition all_decls (p : Z) (attrs : list (spec * list rd)) (sheets : list (sheet Z)) : list (decl Z) :=
  (if p =? 0 then attr_seq attrs else []) ++
  flat_map (fun ish => let '(i, (o, ss, ms)) := ish in
              flat_map (fun m => if m_pseudo m =? p
                                 then decls_of o (eff_spec ss (m_spec m)) (m_spec m) i (m_order m) (m_decls m)
                                 else []) ms)
           (number 0 sheets).
Definition key_max (n : Z) (ds : list (decl Z)) : option (decl Z) :=
  fold_right (fun d acc => if d_name d =? n
                           then match acc with None => Some d | Some a => if key_leb d a then Some a else Some d end
                           else acc) None ds.
Definition spec_value (inh : bool) (parent : option (Z -> Z)) (n : Z) (ds : list (decl Z)) : Z :=
  let from_parent := match parent with Some p => p n | None => 0 end in
  match key_max n ds with
  | None => if inh then from_parent else 0
  | Some d => if d_val d =? -1 then from_parent else if d_val d =? -2 then 0 else d_val d
  end.
Fixpoint spec_styles (inh : Z -> bool) (parent : option (Z -> Z)) (t : ctree) : list (Z -> Z) :=
  match t with
  | CNode attrs sheets hb kids =>
      let s := fun n => spec_value (inh n) parent n (all_decls 0 attrs sheets) in
      s :: (if hb then [fun n => spec_value (inh n) (Some s) n (all_decls 1 attrs sheets)] else [])
        ++ (fix go (l : list ctree) : list (Z -> Z) :=
              match l with [] => [] | c :: r => spec_styles inh (Some s) c ++ go r end) kids
  end.

Fixpoint forallb2eq (a b : list Z) : bool :=
  match a, b with
  | [], [] => true
  | x :: ar, y :: br => (x =? y) && forallb2eq ar br
  | _, _ => false
  end.
Fixpoint agree (props : list Z) (ss : list (Z -> Z)) (obs : list (list Z)) : bool :=
  match ss, obs with
  | [], [] => true
  | s :: sr, o :: or => (match o with [] => true | _ => forallb2eq (map s props) o end) && agree props sr or
  | _, _ => false
  end.

Definition mem (k : Z) (l : list Z) : bool := existsb (Z.eqb k) l.

(* case: (tracked properties, the inherited ones among them, the tree, per node in preorder - element, its ::before,
   children - the observed value ids of the tracked properties, [] when the node was not observed) *)
Definition judge_tree (c : list Z * list Z * ctree * list (list Z)) : nat :=
  let '(props, inhs, t, obs) := c in
  let inh := fun k => mem k inhs in
  ((if agree props (model_styles inh t) obs then 0 else 1) +
   (if agree props (spec_styles inh None t) obs then 0 else 2))%nat.

(* add_page_declarations: case = (pseudo, sheets, [(name, observed value id or 0)]) *)
Definition judge_page (c : Z * list (page_sheet Z) * list (Z * Z)) : nat :=
  let '(p, sheets, obs) := c in
  let st := page_cascade p sheets in
  if forallb (fun no => match cascaded_value st (fst no) with Some v => v =? snd no | None => snd no =? 0 end) obs
  then 0%nat else 1%nat.

(* ---- @import: the sheets are LOADED by the model (flat: the walk of preprocess_stylesheet, one matcher per
   top-level sheet) from the stylesheet texts and the served files, seen from one element.
   case = (files, top-level sheets in the order of `sheets`, the element's attribute declarations,
           [(non-inherited property, observed value id)]) *)
Definition IFUEL : nat := 400.
Definition icase := (list (Z * list (item Z)) * list (origin * list (item Z)) * list (spec * list rd) * list (Z * Z))%type.
Fixpoint spec_load (fs : list (Z * list (item Z))) (l : list (origin * list (item Z))) : option (list (sheet Z)) :=
  match l with
  | [] => Some []
  | (o, items) :: r =>
      bind (inline IFUEL fs true items) (fun its =>
      bind (spec_load fs r) (fun t => Some (sheet_of_rules o (text_rules its) :: t)))
  end.
Definition judge_imports (c : icase) : nat :=
  let '(fs, tops, attrs, obs) := c in
  let model_ok :=
    match load_sheets IFUEL fs tops with
    | Some sheets =>
        let st := element_cascade 0 attrs sheets in
        forallb (fun nv => match cascaded_value st (fst nv) with Some v => v =? snd nv | None => snd nv =? 0 end) obs
    | None => false
    end in
  let spec_ok :=
    match spec_load fs tops with
    | Some sheets =>
        let ds := all_decls 0 attrs sheets in
        forallb (fun nv => match key_max (fst nv) ds with Some d => d_val d =? snd nv | None => snd nv =? 0 end) obs
    | None => false
    end in
  ((if model_ok then 0 else 1) + (if spec_ok then 0 else 2))%nat.

(* ================================================================== direct calls *)
Open Scope Q_scope.

Inductive dcase :=
| DPrec (o : string) (imp : bool) (out : option Z)
| DMedia (ql : list string) (dev : string) (out : bool)
| DLen (e : env) (for_fs : bool) (fs : option Q) (v : lval) (out : option Q)   (* None = returned unchanged *)
| DFs (e : env) (parent : option Q) (v : fsval) (out : option Q)
| DFw (parent : option Z) (v : fwval) (out : option Z)              (* None = KeyError *)
| DLh (e : env) (v : lhval) (out : lhres).

Definition tol : Q := 1 # 1000000000.
Definition close (a b : Q) : bool := Qle_bool (Qabs (a - b)) (tol * (1 + Qabs b)).
Definition oclose (a b : option Q) : bool :=
  match a, b with Some x, Some y => close x y | None, None => true | _, _ => false end.
Definition ozeq (a b : option Z) : bool :=
  match a, b with Some x, Some y => Z.eqb x y | None, None => true | _, _ => false end.
Definition lres_opt (r : lres) : option Q := match r with LPx q => Some q | LSame => None end.
Definition lh_close (a b : lhres) : bool :=
  match a, b with
  | RNormal, RNormal => true | RBad, RBad => true
  | RNumber x, RNumber y => close x y | RPixels x, RPixels y => close x y
  | _, _ => false
  end.

(* specification side for the direct calls *)
Definition spec_prec (o : string) (imp : bool) : option Z :=
  (* cascading order of CSS 2.1 6.4.1, ascending: UA, user normal, author normal, author important, user important *)
  if String.eqb o "user agent" then Some 1%Z
  else if String.eqb o "user" then Some (if imp then 5 else 2)%Z
  else if String.eqb o "author" then Some (if imp then 4 else 3)%Z else None.
(* root_of_doc: the computed font size of the document's root element (= own_fs e on the root element) *)
Definition spec_length (e : env) (root_of_doc : Q) (fs : option Q) (v : lval) : option Q :=
  match v with
  | LKeyword => None
  | LDim x u =>
      let f := match fs with Some f => f | None => own_fs e end in
      match u with
      | Pct => None            (* percentages are kept, 0% included: they are resolved at layout time *)
      | Px => Some x | In_ => Some (x * 96) | Pt => Some (x * 96 / 72) | Pc => Some (x * 96 / 6)
      | Cm => Some (x * 96 / (254 # 100)) | Mm => Some (x * 96 / (254 # 10)) | Qu => Some (x * 96 / (1016 # 10))
      | Em => Some (x * f) | Ex => Some (x * f * ex_ratio e) | Ch => Some (x * f * ch_ratio e)
      | Rem => Some (x * root_of_doc)
      end
  end.
Definition spec_fs_ok (e : env) (parent : option Q) (v : fsval) (out : option Q) : bool :=
  let p := match parent with Some p => p | None => 16 end in
  match v, out with
  | FKeyword i, Some q => oclose (nth_error [48 # 5; 12; 128 # 9; 16; 96 # 5; 24; 32] i) (Some q)
  | FLarger, Some q => Qle_bool p 0 || Qltb p q
  | FSmaller, Some q => Qle_bool p 0 || (Qltb q p && Qltb 0 q)
  | FDim x Pct, Some q => close (x * p / 100) q
  | FDim x u, o => oclose (spec_length e (if is_root e then 16 else root_fs e) (Some p) (LDim x u)) o
  | _, None => false
  end.
Definition spec_fw (parent : option Z) (v : fwval) : option Z :=
  let p := match parent with Some p => p | None => 400%Z end in
  match v with
  | WNormal => Some 400%Z | WBold => Some 700%Z | WNum n => Some n
  | WBolder => Some (css_bolder p) | WLighter => Some (css_lighter p)
  end.

Definition judge_direct (c : dcase) : nat :=
  match c with
  | DPrec o imp out =>
      ((if ozeq (declaration_precedence_str o imp) out then 0 else 1) +
       (if ozeq (spec_prec o imp) out then 0 else 2))%nat
  | DMedia ql dev out =>
      ((if Bool.eqb (evaluate_media_query ql dev) out then 0 else 1) +
       (if Bool.eqb (existsb (fun m => String.eqb m "all" || String.eqb m dev) ql) out then 0 else 2))%nat
  | DLen e for_fs fs v out =>
      ((if oclose (lres_opt (length e for_fs fs v)) out then 0 else 1) +
       (if oclose (spec_length e (if is_root e then (if for_fs then 16 else own_fs e) else root_fs e) fs v) out
        then 0 else 2))%nat
  | DFs e parent v out =>
      ((if oclose (font_size e parent v) out then 0 else 1) + (if spec_fs_ok e parent v out then 0 else 2))%nat
  | DFw parent v out =>
      ((if ozeq (font_weight parent v) out then 0 else 1) +
       (match parent with
        | Some p => if valid_weight p then (if ozeq (spec_fw parent v) out then 0 else 2) else 0
        | None => if ozeq (spec_fw parent v) out then 0 else 2
        end))%nat
  | DLh e v out =>
      ((if lh_close (line_height e v) out then 0 else 1) +
       (match v, out with
        | HPct x, RPixels q => if close (x / 100 * own_fs e) q then 0 else 2
        | HNumber x, RNumber q => if close x q then 0 else 2
        | HNormal, RNormal => 0
        | HLen x u, RPixels q =>
            if oclose (spec_length e (if is_root e then own_fs e else root_fs e) None (LDim x u)) (Some q) then 0 else 2
        | _, _ => 2
        end))%nat
  end.
