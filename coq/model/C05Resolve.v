(* C05: resolve_one_percentage / resolve_percentages (layout/percent.py) - hand model and box layout.  Definitions only. *)
From Coq Require Import QArith Qminmax List String Bool.
Require Import WV.base.Py WV.model.C05BoxSizing.
Import ListNotations.
Open Scope string_scope.
Open Scope Q_scope.

(* computed values of the length properties: 'auto', Dimension(v, 'px'), Dimension(v, '%') *)
Inductive cval := CAuto | CPx (v : Q) | CPct (v : Q).
Definition dim (v : Q) (u : string) : val := VObj [("value", VNum v); ("unit", VStr u)].
Definition cv (c : cval) : val := match c with CAuto => VStr "auto" | CPx v => dim v "px" | CPct v => dim v "%" end.

(* percentage(value, refer_to): a percentage of something that is not a number raises TypeError *)
Definition pct (c : cval) (refer : val) : val :=
  match c with
  | CAuto => VStr "auto"
  | CPx v => VNum v
  | CPct v => match refer with VNum r => VNum (r * v / 100) | _ => VErr "TypeError" end
  end.
(* min_width / min_height: 'auto' becomes 0 *)
Definition min0c (c : cval) (refer : val) : val := match c with CAuto => VNum 0 | _ => pct c refer end.
Definition is_min (name : string) : bool := String.eqb name "min_width" || String.eqb name "min_height".
(* what resolve_one_percentage(box, name, refer_to) stores in box.<name> *)
Definition rop_val (name : string) (c : cval) (refer : val) : val := if is_min name then min0c c refer else pct c refer.

Definition rp_names : list string :=
  ["margin_left"; "margin_right"; "margin_top"; "margin_bottom"; "padding_left"; "padding_right"; "padding_top";
   "padding_bottom"; "width"; "min_width"; "max_width"; "height"; "min_height"; "max_height"].
Definition rp_name (name : string) : bool := existsb (String.eqb name) rp_names.

(* box.style[name] *)
Definition sty (b : val) (name : string) : val :=
  match b with
  | VObj f => match lookup "style" f with VObj st => lookup name st | _ => VErr "TypeError" end
  | _ => VErr "AttributeError"
  end.
Definition setf (k : string) (v : val) (o : val) : val := match o with VObj f => VObj (update k v f) | _ => o end.

(* the computed style of the fourteen lengths, and the eighteen used values resolve_percentages sets *)
Record cstyle := mkStyle { c_ml : cval; c_mr : cval; c_mt : cval; c_mb : cval; c_pl : cval; c_pr : cval; c_pt : cval;
                           c_pb : cval; c_w : cval; c_minw : cval; c_maxw : cval; c_h : cval; c_minh : cval;
                           c_maxh : cval }.
Record used := mkUsed { u_ml : val; u_mr : val; u_mt : val; u_mb : val; u_pl : val; u_pr : val; u_pt : val; u_pb : val;
                        u_bl : val; u_br : val; u_bt : val; u_bb : val;
                        u_w : val; u_minw : val; u_maxw : val; u_h : val; u_minh : val; u_maxh : val }.

(* the box: the layout of C05BoxSizing.bsbox, the style holding box_sizing, border_collapse, the fourteen computed
   lengths and the four computed border widths [sb*]; the margins come after the sizes; [srest], [rest]: anything else
   (objects are association lists in Py.v: the order of the entries cannot be observed by the translated code) *)
Definition rstyle (bc sbl sbr sbt sbb : val) (s : cstyle) (srest : list (string * val)) : list (string * val) :=
  ("border_collapse", bc) ::
  ("margin_left", cv (c_ml s)) :: ("margin_right", cv (c_mr s)) :: ("margin_top", cv (c_mt s)) :: ("margin_bottom", cv (c_mb s)) ::
  ("padding_left", cv (c_pl s)) :: ("padding_right", cv (c_pr s)) :: ("padding_top", cv (c_pt s)) :: ("padding_bottom", cv (c_pb s)) ::
  ("width", cv (c_w s)) :: ("min_width", cv (c_minw s)) :: ("max_width", cv (c_maxw s)) ::
  ("height", cv (c_h s)) :: ("min_height", cv (c_minh s)) :: ("max_height", cv (c_maxh s)) ::
  ("border_left_width", sbl) :: ("border_right_width", sbr) :: ("border_top_width", sbt) :: ("border_bottom_width", sbb) :: srest.
Definition rbox (kw bc sbl sbr sbt sbb : val) (s : cstyle) (u : used) (srest rest : list (string * val)) : val :=
  bsbox kw (rstyle bc sbl sbr sbt sbb s srest)
        (u_pl u) (u_pr u) (u_pt u) (u_pb u) (u_bl u) (u_br u) (u_bt u) (u_bb u)
        (u_w u) (u_minw u) (u_maxw u) (u_h u) (u_minh u) (u_maxh u)
        (("margin_left", u_ml u) :: ("margin_right", u_mr u) :: ("margin_top", u_mt u) :: ("margin_bottom", u_mb u) :: rest).

(* ---- model of resolve_percentages up to its two calls of adjust_box_sizing.
   cbw, cbh: width and height of the containing block (None: the height is 'auto'); mh: what the vertical margins
   and paddings refer to (the height for a page box, else the width); inf: the value of the name `inf`;
   keep x: border-collapse is 'collapse' and the box already has the attribute border_<x>_width *)
Definition resolve (s : cstyle) (sbl sbr sbt sbb : val) (keep : string -> bool) (cbw : Q) (cbh : option Q) (mh : Q)
           (inf : val) (u : used) : used :=
  let W := VNum cbw in let MH := VNum mh in
  mkUsed (pct (c_ml s) W) (pct (c_mr s) W) (pct (c_mt s) MH) (pct (c_mb s) MH)
         (pct (c_pl s) W) (pct (c_pr s) W) (pct (c_pt s) MH) (pct (c_pb s) MH)
         (if keep "border_left_width" then u_bl u else sbl) (if keep "border_right_width" then u_br u else sbr)
         (if keep "border_top_width" then u_bt u else sbt) (if keep "border_bottom_width" then u_bb u else sbb)
         (pct (c_w s) W) (min0c (c_minw s) W) (pct (c_maxw s) W)
         (match cbh with
          | None => match c_h s with CPx v => VNum v | _ => VStr "auto" end
          | Some h => pct (c_h s) (VNum h) end)
         (match cbh with None => min0c (c_minh s) (VNum 0) | Some h => min0c (c_minh s) (VNum h) end)
         (match cbh with None => pct (c_maxh s) inf | Some h => pct (c_maxh s) (VNum h) end).

(* the containing block: a box, or the pair (width, height) *)
Definition cbval (as_box : bool) (cbw : Q) (cbh : option Q) (cbrest : list (string * val)) : val :=
  if as_box then VObj (("width", VNum cbw) :: ("height", vo cbh) :: cbrest) else VList [VNum cbw; vo cbh].

(* the computed border-collapse *)
Definition bcv (collapse : bool) : val := VStr (if collapse then "collapse" else "separate").

(* helpers of the judges (model/C05ResolveSpec.v, model/C05ResolveLink.v) *)
Definition style_of_list (cs : list cval) : option cstyle :=
  match cs with
  | [a1; a2; a3; a4; a5; a6; a7; a8; a9; a10; a11; a12; a13; a14] => Some (mkStyle a1 a2 a3 a4 a5 a6 a7 a8 a9 a10 a11 a12 a13 a14)
  | _ => None
  end.
Definition ha_of (h4 : bool * bool * bool * bool) (name : string) : bool :=
  let '(hl, hr, ht, hb) := h4 in
  if String.eqb name "border_left_width" then hl else if String.eqb name "border_right_width" then hr
  else if String.eqb name "border_top_width" then ht else if String.eqb name "border_bottom_width" then hb else false.
(* the box before resolve_percentages in the direct stream: no used value yet, except the border widths (99) of a
   cell whose collapsed borders were resolved *)
Definition used0 : used :=
  mkUsed VNone VNone VNone VNone VNone VNone VNone VNone (VNum 99) (VNum 99) (VNum 99) (VNum 99) VNone VNone VNone VNone VNone VNone.
