(* C13 - SVG viewBox -> viewport mapping: hand model of preserve_ratio (weasyprint/svg/utils.py; the marker branch is
   out of scope) and the specification of SVG 1.1 7.8 preserveAspectRatio.  Definitions only. *)
From Coq Require Import QArith Qminmax List Bool.
Require Import WV.model.C13Replaced.
Import ListNotations.
Open Scope Q_scope.

Inductive align1 := AMin | AMid | AMax.
(* preserveAspectRatio: none | <align> [meet | slice] *)
Inductive par := PNone | PAlign (ax ay : align1) (slice : bool).

(* vb: the viewBox (min-x, min-y, width, height) if any; intrinsic: for the root element without viewBox, its
   intrinsic (width, height) when both are known (they play the viewBox size); w h: the viewport.
   Result: (scale_x, scale_y, translate_x, translate_y) *)
Definition preserve_ratio (vb : option (Q * Q * Q * Q)) (intrinsic : option (Q * Q)) (p : par) (w h : Q)
  : Q * Q * Q * Q :=
  match (match vb with
         | Some (_, _, vw, vh) => Some (vw, vh)
         | None => intrinsic
         end) with
  | None => (1, 1, 0, 0)
  | Some (vw, vh) =>
      let sx := if Qeq_bool vw 0 then 1 else w / vw in          (* width / viewbox_width if viewbox_width else 1 *)
      let sy := if Qeq_bool vh 0 then 1 else h / vh in
      let '(sx, sy, ax, ay) :=
        match p with
        | PNone => (sx, sy, AMin, AMin)
        | PAlign ax ay slice => let s := if slice then Qmax sx sy else Qmin sx sy in (s, s, ax, ay)
        end in
      let tx := match ax with AMin => 0 | AMid => (w - vw * sx) / 2 | AMax => w - vw * sx end in
      let ty := match ay with AMin => 0 | AMid => (h - vh * sy) / 2 | AMax => h - vh * sy end in
      match vb with
      | Some (vx, vy, _, _) => (sx, sy, tx - vx * sx, ty - vy * sy)
      | None => (sx, sy, tx, ty)
      end
  end.

(* where the user-space rectangle (x, y, rw, rh) lands in the viewport *)
Definition map_rect (m : Q * Q * Q * Q) (x y rw rh : Q) : Q * Q * Q * Q :=
  let '(sx, sy, tx, ty) := m in (sx * x + tx, sy * y + ty, sx * rw, sy * rh).

(* ---- specification (SVG 1.1 7.8): where the viewBox must land in a viewport of size w x h *)
Definition aligned1 (a : align1) (area pos len : Q) : Prop :=
  match a with AMin => pos == 0 | AMid => pos + len / 2 == area / 2 | AMax => pos + len == area end.

Definition viewbox_placed (p : par) (vw vh w h : Q) (r : Q * Q * Q * Q) : Prop :=
  let '(x, y, rw, rh) := r in
  match p with
  | PNone => x == 0 /\ y == 0 /\ rw == w /\ rh == h                (* stretched onto the whole viewport *)
  | PAlign ax ay slice =>
      rw * vh == rh * vw /\                                         (* uniform scale *)
      (if slice then w <= rw /\ h <= rh else rw <= w /\ rh <= h) /\ (* smallest covering / largest fitting ... *)
      (rw == w \/ rh == h) /\                                       (* ... rectangle *)
      aligned1 ax w x rw /\ aligned1 ay h y rh
  end.

(* ---- judges *)
Definition align_of (n : nat) : align1 := match n with 0%nat => AMin | 1%nat => AMid | _ => AMax end.
(* 0 = none; otherwise 1 + 3*ax + ay (+ 9 if slice) *)
Definition par_of (n : nat) : par :=
  match n with
  | O => PNone
  | S k => PAlign (align_of ((k mod 9) / 3)) (align_of (k mod 3)) (Nat.leb 9 k)
  end.

Definition aligned1_b (tol : Q) (a : align1) (area pos len : Q) : bool :=
  match a with
  | AMin => close tol pos 0
  | AMid => close tol (pos + len / 2) (area / 2)
  | AMax => close tol (pos + len) area
  end.
Definition cle' (tol a b : Q) : bool := Qle_bool a (b + tol * Qmax 1 (Qabs' b)).
Definition placed_b (tol : Q) (p : par) (vw vh w h : Q) (r : Q * Q * Q * Q) : bool :=
  let '(x, y, rw, rh) := r in
  match p with
  | PNone => close tol x 0 && close tol y 0 && close tol rw w && close tol rh h
  | PAlign ax ay slice =>
      close tol (rw * vh) (rh * vw) &&
      (if slice then cle' tol w rw && cle' tol h rh else cle' tol rw w && cle' tol rh h) &&
      (close tol rw w || close tol rh h) && aligned1_b tol ax w x rw && aligned1_b tol ay h y rh
  end.

Definition q4eq (a b : Q * Q * Q * Q) : bool :=
  let '(a1, a2, a3, a4) := a in let '(b1, b2, b3, b4) := b in
  Qeq_bool a1 b1 && Qeq_bool a2 b2 && Qeq_bool a3 b3 && Qeq_bool a4 b4.
Definition q4close (tol : Q) (a b : Q * Q * Q * Q) : bool :=
  let '(a1, a2, a3, a4) := a in let '(b1, b2, b3, b4) := b in
  close tol a1 b1 && close tol a2 b2 && close tol a3 b3 && close tol a4 b4.

(* direct calls: (viewBox, intrinsic, par, w, h, output) *)
Definition pr_case : Type := option (Q * Q * Q * Q) * option (Q * Q) * nat * Q * Q * (Q * Q * Q * Q).
Definition pr_judge (c : pr_case) : nat :=
  let '(vb, intr, p, w, h, out) := c in
  let p := par_of p in
  let same := q4eq (preserve_ratio vb intr p w h) out in
  let spec := match vb with
              | Some (vx, vy, vw, vh) =>
                  impl (Qltb 0 vw && Qltb 0 vh && Qle_bool 0 w && Qle_bool 0 h)
                       (placed_b 0 p vw vh w h (map_rect out vx vy vw vh))
              | None => true
              end in
  (bit 1 same + bit 2 spec)%nat.

(* render monitor: the viewport is given directly or is the painted rectangle of a replaced box (object-fit);
   obs: the viewBox-filling rectangle read from the content stream, in page px.
   ((vx, vy, vw, vh), par, viewport, obs) *)
Inductive vport :=
| VDirect (x y w h : Q)
| VFit (f : nat) (rgt btm : bool) (px py : lenpct) (bw bh : Q) (i : oq * oq * oq) (cx cy : Q).

Definition tol4' : Q := 1 # 10000.
Definition svgmon_case : Type := (Q * Q * Q * Q) * nat * vport * (Q * Q * Q * Q).
Definition fit_of' (n : nat) : fit :=
  match n with 0%nat => Fill | 1%nat => Contain | 2%nat => Cover | 3%nat => FitNone | _ => ScaleDown end.

Definition svgmon_judge (c : svgmon_case) : nat :=
  let '((vx, vy, vw, vh), p, vp, (ox, oy, ow, oh)) := c in
  let p := par_of p in
  match (match vp with
         | VDirect x y w h => Some (x, y, w, h)
         | VFit f rgt btm px py bw bh (a, b, r) cx cy =>
             match rb_layout (fit_of' f) rgt btm px py bw bh (Intr a b r) cx cy with
             | Some (dw, dh, x, y) => Some (x, y, dw, dh)
             | None => None
             end
         end) with
  | None => 1%nat
  | Some (x, y, w, h) =>
      let m := preserve_ratio (Some (vx, vy, vw, vh)) None p w h in
      let '(rx, ry, rw, rh) := map_rect m vx vy vw vh in
      let same := q4close tol4' (x + rx, y + ry, rw, rh) (ox, oy, ow, oh) in
      let spec := placed_b tol4' p vw vh w h (ox - x, oy - y, ow, oh) in
      (bit 1 same + bit 2 spec)%nat
  end.
