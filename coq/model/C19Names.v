(* C19 - resource naming: hand model of the key allocation of Stream.set_alpha / set_state / add_group / add_pattern /
   add_shading / add_image (weasyprint/pdf/stream.py), of the document-wide `images` table with its *set* of dpi
   ratios consumed by max() in _use_references, of the font naming of build_fonts_dictionary (weasyprint/pdf/fonts.py:
   pdf_fonts[font.hash], hash derived from md5 of the description string) and of the sorted() name tree of
   generate_pdf.  Definitions only.

   What could make two executions differ is carried by an explicit environment: the iteration order of a Python set
   (any permutation of its elements, depending on hash values / addresses) and the salted built-in hash().  The
   model follows the code: it iterates sets only under max() / sorted(), and names fonts with the digest, never with
   hash(). *)
From Coq Require Import ZArith List Bool Permutation.
Import ListNotations.
Open Scope Z_scope.

Inductive name :=
| NA (stroke : bool) (alpha : Z)     (* 'A<alpha>' / 'a<alpha>' *)
| NS (n : nat)                       (* 's<n>' in ExtGState *)
| NX (n : nat)                       (* 'x<n>' *)
| NI (id : Z) (interp : bool)        (* 'i<image.id><0|1>' *)
| NP (n : nat)                       (* 'p<n>' *)
| NSh (n : nat).                     (* 's<n>' in Shading *)

Definition name_eqb (a b : name) : bool :=
  match a, b with
  | NA s x, NA s' x' => Bool.eqb s s' && (x =? x')
  | NS n, NS n' | NX n, NX n' | NP n, NP n' | NSh n, NSh n' => Nat.eqb n n'
  | NI i b, NI i' b' => (i =? i') && Bool.eqb b b'
  | _, _ => false
  end.

Definition mem (n : name) (l : list name) : bool := existsb (name_eqb n) l.
(* d[key] = value on a dict kept as its list of keys in insertion order *)
Definition dict_set (n : name) (l : list name) : list name := if mem n l then l else l ++ [n].

Record res := rmk { r_gs : list name; r_xo : list name; r_pat : list name; r_sh : list name }.
Definition res0 := rmk [] [] [] [].

Record doc := dmk {
  d_res : list res;                     (* resource dictionaries in creation order *)
  d_str : list nat;                     (* Stream -> its resource dictionary *)
  d_img : list (name * list Z) }.       (* images: name -> the elements put into the set dpi_ratios, in call order *)
Definition doc0 := dmk [res0] [0%nat] [].

Inductive call :=
| CSetAlpha (sid : nat) (alpha : Z) (stroke : bool)
| CSetState (sid : nat)
| CAddGroup (sid : nat)
| CAddPattern (sid : nat)
| CAddShading (sid : nat)
| CAddImage (sid : nat) (id : Z) (interp : bool) (ratio : Z).

Fixpoint upd {A} (l : list A) (i : nat) (x : A) : list A :=
  match l, i with
  | [], _ => []
  | _ :: r, O => x :: r
  | a :: r, S j => a :: upd r j x
  end.

Fixpoint img_add (n : name) (ratio : Z) (l : list (name * list Z)) : list (name * list Z) :=
  match l with
  | [] => [(n, [ratio])]
  | (n', rs) :: t => if name_eqb n n' then (n', rs ++ [ratio]) :: t else (n', rs) :: img_add n ratio t
  end.

(* one call: None when the Stream does not exist; otherwise the new state and the name handed out *)
Definition step (d : doc) (c : call) : option (doc * name) :=
  let sid := match c with CSetAlpha s _ _ | CSetState s | CAddGroup s | CAddPattern s | CAddShading s | CAddImage s _ _ _ => s end in
  match nth_error (d_str d) sid with
  | None => None
  | Some rid =>
    match nth_error (d_res d) rid with
    | None => None
    | Some r =>
      match c with
      | CSetAlpha _ a stroke =>
          let k := NA stroke a in
          Some (dmk (upd (d_res d) rid (rmk (dict_set k (r_gs r)) (r_xo r) (r_pat r) (r_sh r))) (d_str d) (d_img d), k)
      | CSetState _ =>
          let k := NS (length (r_gs r)) in
          Some (dmk (upd (d_res d) rid (rmk (dict_set k (r_gs r)) (r_xo r) (r_pat r) (r_sh r))) (d_str d) (d_img d), k)
      | CAddGroup _ =>
          let k := NX (length (r_xo r)) in
          Some (dmk (upd (d_res d) rid (rmk (r_gs r) (dict_set k (r_xo r)) (r_pat r) (r_sh r)) ++ [res0])
                    (d_str d ++ [length (d_res d)]) (d_img d), k)
      | CAddPattern _ =>
          let k := NP (length (r_pat r)) in
          Some (dmk (upd (d_res d) rid (rmk (r_gs r) (r_xo r) (dict_set k (r_pat r)) (r_sh r)) ++ [res0])
                    (d_str d ++ [length (d_res d)]) (d_img d), k)
      | CAddShading _ =>
          let k := NSh (length (r_sh r)) in
          Some (dmk (upd (d_res d) rid (rmk (r_gs r) (r_xo r) (r_pat r) (dict_set k (r_sh r)))) (d_str d) (d_img d), k)
      | CAddImage _ id interp ratio =>
          let k := NI id interp in
          Some (dmk (upd (d_res d) rid (rmk (r_gs r) (dict_set k (r_xo r)) (r_pat r) (r_sh r))) (d_str d)
                    (img_add k ratio (d_img d)), k)
      end
    end
  end.

Fixpoint run (d : doc) (cs : list call) : option (doc * list name) :=
  match cs with
  | [] => Some (d, [])
  | c :: r =>
      match step d c with
      | None => None
      | Some (d1, n) => match run d1 r with None => None | Some (d2, ns) => Some (d2, n :: ns) end
      end
  end.

(* ---- the environment of an execution ---- *)
(* a Python set iterates in an order fixed by the hash values of its elements: any permutation *)
Definition maxl (l : list Z) : option Z :=
  match l with [] => None | x :: r => Some (fold_left Z.max r x) end.

(* _use_references: dpi_ratio = max(image_data['dpi_ratios']) for every image, in the order of the images dict *)
Definition image_ratios (order : list Z -> list Z) (d : doc) : list (name * option Z) :=
  map (fun p => (fst p, maxl (order (snd p)))) (d_img d).

(* everything that is named: the names handed out, every resource dictionary's keys, the images with their ratio *)
Definition outcome (order : list Z -> list Z) (cs : list call) :=
  match run doc0 cs with
  | None => None
  | Some (d, ns) => Some (ns, map (fun r => (r_gs r, r_xo r, r_pat r, r_sh r)) (d_res d), image_ratios order d)
  end.

(* ---- fonts: Document.fonts is a dict filled in first-use order; build_fonts_dictionary names each font by
   font.hash = digest(description), never by hash() ---- *)
Section Fonts.
  Variable Desc : Type.
  Variable desc_eqb : Desc -> Desc -> bool.
  Variable digest : Desc -> Z.               (* md5-derived: a function of the description alone *)
  Fixpoint first_use (seen : list Desc) (uses : list Desc) : list Desc :=
    match uses with
    | [] => []
    | x :: r => if existsb (desc_eqb x) seen then first_use seen r else x :: first_use (x :: seen) r
    end.
  (* keys of pdf_fonts in insertion order: a later font with the same hash overwrites the value, not the position *)
  Fixpoint dedup (seen : list Z) (l : list Z) : list Z :=
    match l with
    | [] => []
    | x :: r => if existsb (Z.eqb x) seen then dedup seen r else x :: dedup (x :: seen) r
    end.
  Definition font_names (salt : Z) (uses : list Desc) : list Z := dedup [] (map digest (first_use [] uses)).
End Fonts.

(* ---- sorted(): the name tree of the destinations ---- *)
Fixpoint insert (x : Z * Z) (l : list (Z * Z)) : list (Z * Z) :=
  match l with
  | [] => [x]
  | y :: r => if fst x <=? fst y then x :: l else y :: insert x r
  end.
Fixpoint isort (l : list (Z * Z)) : list (Z * Z) :=
  match l with [] => [] | x :: r => insert x (isort r) end.

(* ---- judge of the correspondence stream: the implementation's names, final dictionaries and image ratios ---- *)
Definition opt_z_eqb (a b : option Z) : bool :=
  match a, b with Some x, Some y => x =? y | None, None => true | _, _ => false end.
Fixpoint names_eqb (a b : list name) : bool :=
  match a, b with
  | [], [] => true
  | x :: r, y :: s => name_eqb x y && names_eqb r s
  | _, _ => false
  end.
Definition res_eqb (a b : list name * list name * list name * list name) : bool :=
  let '(g, x, p, s) := a in let '(g', x', p', s') := b in
  names_eqb g g' && names_eqb x x' && names_eqb p p' && names_eqb s s'.
Fixpoint all2 {A B} (f : A -> B -> bool) (a : list A) (b : list B) : bool :=
  match a, b with
  | [], [] => true
  | x :: r, y :: s => f x y && all2 f r s
  | _, _ => false
  end.

Definition ncase := (list call * list name * list (list name * list name * list name * list name) * list (name * option Z))%type.

Definition names_judge (c : ncase) : nat :=
  let '(cs, ns, rs, imgs) := c in
  match outcome (fun l => l) cs with
  | None => 1%nat
  | Some (ns', rs', imgs') =>
      let same := names_eqb ns ns' && all2 res_eqb rs rs' &&
                  all2 (fun a b => name_eqb (fst a) (fst b) && opt_z_eqb (snd a) (snd b)) imgs imgs' in
      (* spec: the outcome does not depend on the set order either: reversed iteration gives the same *)
      let spec := match outcome (@rev Z) cs with
                  | Some (_, _, imgs'') => all2 (fun a b => name_eqb (fst a) (fst b) && opt_z_eqb (snd a) (snd b)) imgs imgs''
                  | None => false end in
      ((if same then 0 else 1) + (if spec then 0 else 2))%nat
  end.
