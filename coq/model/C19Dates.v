(* C19 - the environment as an input: hand model of the dates WeasyPrint writes into a PDF.  Definitions only.
   Code modelled: Attachment.__init__ (weasyprint/__init__.py: the SOURCE_DATE_EPOCH test, created / modified defaults),
   the callers that build Attachment objects (html.py get_html_metadata for <link rel=attachment>, pdf/anchors.py
   add_annotations for <a rel=attachment>, pdf/__init__.py generate_pdf for the items of options['attachments']),
   write_pdf_attachment (the /Params dates of an /EmbeddedFile), generate_pdf (Info /CreationDate /ModDate: written from
   the document's <meta name=dcterms.created|modified> only), fontTools' timestampNow (head.modified of a font that is
   saved again: a subset).
   Dates are seconds since 1970-01-01T00:00:00Z (Z).  THE CLOCK IS AN INPUT OF THE MODEL: `clock k` is what the k-th read
   of the system clock gives; the theorems of proofs/C19_dates.v say that with SOURCE_DATE_EPOCH set nothing written
   depends on it. *)
From Coq Require Import ZArith List Bool.
Import ListNotations.
Local Open Scope Z_scope.

(* which argument of Attachment(...) names the source; the items of options['attachments'] that are not Attachment
   objects are wrapped as Attachment(item): Guess, whatever they are (file name, pathlib path, URL, file object) *)
Inductive source := Guess | Filename | Url | FileObj | Str.

(* one construction Attachment(..., created=, modified=): None = argument not given; ctime / mtime of the named file are
   read for Filename only *)
Record attachment := amk { a_source : source; a_created : option Z; a_modified : option Z; a_ctime : Z; a_mtime : Z }.

(* os.environ: SOURCE_DATE_EPOCH = Some e (int() of the value), None when the variable is not there *)
Definition environment := option Z.

(* `now` of Attachment.__init__:
     if 'SOURCE_DATE_EPOCH' in os.environ: now = datetime.fromtimestamp(int(os.environ[...]), timezone.utc)
     else: now = datetime.now()
   fontTools.misc.timeTools.timestampNow has the same shape (os.environ.get(...) is not None) *)
Definition now_date (epoch : environment) (clock : Z) : Z :=
  match epoch with Some e => e | None => clock end.

Definition from_file (s : source) : bool := match s with Filename => true | _ => false end.

(* if created is None: created = fromtimestamp(getctime(filename)) if filename else now; same for modified / getmtime *)
Definition attachment_dates (epoch : environment) (clock : Z) (a : attachment) : Z * Z :=
  let n := now_date epoch clock in
  (match a_created a with Some d => d | None => if from_file (a_source a) then a_ctime a else n end,
   match a_modified a with Some d => d | None => if from_file (a_source a) then a_mtime a else n end).

(* every construction reads the clock anew: the k-th attachment sees the k-th reading *)
Fixpoint attachments_dates (epoch : environment) (clock : nat -> Z) (k : nat) (l : list attachment) : list (Z * Z) :=
  match l with
  | [] => []
  | a :: r => attachment_dates epoch (clock k) a :: attachments_dates epoch clock (S k) r
  end.

(* a font program of the PDF: saved again by fontTools (head.modified = timestampNow()) or embedded as it is (the
   date of the font file) *)
Record font := fmk { f_saved : bool; f_file_modified : Z }.
Definition font_date (epoch : environment) (clock : Z) (f : font) : Z :=
  if f_saved f then now_date epoch clock else f_file_modified f.

(* the time-stamped part of a document: the dates of <meta name=dcterms.created|modified> (None: no such element), the
   attachments in the order they are written, the fonts *)
Record dated := dated_mk { d_created : option Z; d_modified : option Z; d_attachments : list attachment; d_font_programs : list font }.

(* what is written: Info /CreationDate /ModDate (and xmp:CreateDate / xmp:ModifyDate), the /Params dates of every
   /EmbeddedFile, head.modified of every font program *)
Record dates_written := wmk { w_info : option Z * option Z; w_files : list (Z * Z); w_fonts : list Z }.

Definition write (epoch : environment) (clock : nat -> Z) (d : dated) : dates_written :=
  wmk (d_created d, d_modified d)
      (attachments_dates epoch clock 0 (d_attachments d))
      (map (fun kf => font_date epoch (clock (length (d_attachments d) + fst kf)%nat) (snd kf))
           (combine (seq 0 (length (d_font_programs d))) (d_font_programs d))).

(* ---- the specification, from the property text: with SOURCE_DATE_EPOCH = e every date that the document does not
   give (explicit argument, <meta>, the times of a file that is an input) is e ---- *)
Definition date_ok (e : Z) (a : attachment) (w : Z * Z) : bool :=
  (match a_created a with Some d => fst w =? d | None => from_file (a_source a) || (fst w =? e) end) &&
  (match a_modified a with Some d => snd w =? d | None => from_file (a_source a) || (snd w =? e) end).

Definition font_ok (e : Z) (file_dates : list Z) (w : Z) : bool := (w =? e) || existsb (Z.eqb w) file_dates.

(* ---- the variant that tests the VALUE of the variable for truth (`int(os.environ.get(...) or 0)` then `if epoch:`):
   0 - 1970-01-01T00:00:00Z, a legal value - is taken for "not set" ---- *)
Definition now_truthy (epoch : environment) (clock : Z) : Z :=
  match epoch with Some e => if e =? 0 then clock else e | None => clock end.
Definition attachment_dates_truthy (epoch : environment) (clock : Z) (a : attachment) : Z * Z :=
  let n := now_truthy epoch clock in
  (match a_created a with Some d => d | None => if from_file (a_source a) then a_ctime a else n end,
   match a_modified a with Some d => d | None => if from_file (a_source a) then a_mtime a else n end).
Fixpoint attachments_dates_truthy (epoch : environment) (clock : nat -> Z) (k : nat) (l : list attachment) : list (Z * Z) :=
  match l with
  | [] => []
  | a :: r => attachment_dates_truthy epoch (clock k) a :: attachments_dates_truthy epoch clock (S k) r
  end.

(* ---- judge of the epoch stream ----
   case: SOURCE_DATE_EPOCH, the (frozen) clock of the render, the document's <meta> dates, every (created, modified)
   pair read from the PDF outside the embedded files (Info dictionary, XMP packet), per /EmbeddedFile the construction
   it comes from and the dates read from its /Params, the head.modified dates of the font files given as input, the
   head.modified of every font program read from the PDF, and every other date string found anywhere in the PDF.
   bit 0: the model's dates differ from the implementation's; bit 1: SOURCE_DATE_EPOCH is set and a date that the
   document does not give is not the epoch (decided on ONE render: no second render, no real clock needed) *)
Definition oz_eqb (a b : option Z) : bool :=
  match a, b with Some x, Some y => x =? y | None, None => true | _, _ => false end.
Definition pair_eqb (a b : Z * Z) : bool := (fst a =? fst b) && (snd a =? snd b).
Fixpoint list_eqb {A} (eqb : A -> A -> bool) (a b : list A) : bool :=
  match a, b with
  | [], [] => true
  | x :: r, y :: s => eqb x y && list_eqb eqb r s
  | _, _ => false
  end.

Definition dcase :=
  (environment * Z * (option Z * option Z) * list (option Z * option Z) * list (attachment * (Z * Z)) * list Z * list Z * list Z)%type.

Definition date_judge (c : dcase) : nat :=
  let '(epoch, t, meta, infos, files, font_files, fonts, others) := c in
  let d := dated_mk (fst meta) (snd meta) (map fst files) [] in
  let w := write epoch (fun _ => t) d in
  let info_same := forallb (fun i => oz_eqb (fst i) (fst (w_info w)) && oz_eqb (snd i) (snd (w_info w))) infos in
  let same := info_same && list_eqb pair_eqb (map snd files) (w_files w) &&
              forallb (fun f => (f =? now_date epoch t) || existsb (Z.eqb f) font_files) fonts in
  let spec := match epoch with
              | None => true
              | Some e => info_same && forallb (fun aw => date_ok e (fst aw) (snd aw)) files &&
                          forallb (font_ok e font_files) fonts && forallb (Z.eqb e) others
              end in
  ((if same then 0 else 1) + (if spec then 0 else 2))%nat.
