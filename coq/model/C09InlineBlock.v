(* C09 - width of an inline-block box (CSS 2.1 10.3.9 "'Inline-block', non-replaced elements in normal flow"):
   "If 'width' is 'auto', the used value is the shrink-to-fit width as for floating elements"; a computed 'auto' for
   margin-left / margin-right is a used 0 (done by the caller before).  Shrink-to-fit (10.3.5):
   min(max(preferred minimum width, available width), preferred width), the available width being the width of the
   containing block minus the used margins, borders and paddings of the box.
   Model of inline_block_width(box, context, containing_block) of weasyprint/layout/inline.py (the function under
   @handle_min_max_width): tied to the source by proofs/C09_gen_inline_block.v. *)
From Coq Require Import QArith Qminmax Lqa.
Open Scope Q_scope.

(* the horizontal spacing of the box: margins, border widths, paddings (used values: numbers) *)
Record hspace := mk_hspace { ml : Q; mr : Q; bl : Q; br : Q; pl : Q; pr : Q }.
Definition hsum (s : hspace) : Q := ml s + mr s + bl s + br s + pl s + pr s.

(* the width available to the content of the box in a containing block cbw wide *)
Definition ib_available (cbw : Q) (s : hspace) : Q := cbw - hsum s.

(* the used width: w = None is 'auto'; stf a = shrink_to_fit(context, box, a) *)
Definition ib_width (stf : Q -> Q) (w : option Q) (cbw : Q) (s : hspace) : Q :=
  match w with Some x => x | None => stf (ib_available cbw s) end.

(* shrink-to-fit of CSS 2.1 10.3.5 from the preferred minimum width and the preferred width of the content *)
Definition shrink (pmin pref : Q) (a : Q) : Q := Qmin (Qmax pmin a) pref.

(* an auto width is the shrink-to-fit width *)
Lemma ib_auto_is_shrink_to_fit stf cbw s : ib_width stf None cbw s = stf (ib_available cbw s).
Proof. reflexivity. Qed.
(* a given width is kept *)
Lemma ib_given_width_kept stf x cbw s : ib_width stf (Some x) cbw s = x.
Proof. reflexivity. Qed.

(* with the shrink-to-fit of 10.3.5: the margin box of an auto-width inline-block is no wider than its containing
   block as soon as the preferred minimum width of its content fits there, ... *)
Lemma ib_auto_fits pmin pref cbw s :
  pmin <= ib_available cbw s -> ib_width (shrink pmin pref) None cbw s + hsum s <= cbw.
Proof.
  unfold ib_width, shrink, ib_available. intros H.
  assert (Qmin (Qmax pmin (cbw - hsum s)) pref <= Qmax pmin (cbw - hsum s)) by apply Q.le_min_l.
  assert (Qmax pmin (cbw - hsum s) == cbw - hsum s) by (apply Q.max_r; exact H).
  lra.
Qed.
(* ... it is never wider than the preferred width, never narrower than the preferred minimum width (when
   pmin <= pref), and it is exactly the preferred width when that fits *)
Lemma ib_auto_bounds pmin pref cbw s :
  pmin <= pref ->
  pmin <= ib_width (shrink pmin pref) None cbw s <= pref.
Proof.
  unfold ib_width, shrink. intros H. split.
  - apply Q.min_glb; [apply Q.le_max_l|exact H].
  - apply Q.le_min_r.
Qed.
Lemma ib_auto_preferred_when_fits pmin pref cbw s :
  pref <= ib_available cbw s -> ib_width (shrink pmin pref) None cbw s == pref.
Proof.
  unfold ib_width, shrink. intros H. apply Q.min_r.
  eapply Qle_trans; [exact H|apply Q.le_max_r].
Qed.
(* overflow only when the content cannot be narrower: if the margin box is wider than the containing block, the
   width is the preferred minimum width *)
Lemma ib_auto_overflow_only_at_minimum pmin pref cbw s :
  pmin <= pref -> cbw < ib_width (shrink pmin pref) None cbw s + hsum s ->
  ib_width (shrink pmin pref) None cbw s == pmin.
Proof.
  unfold ib_width, shrink, ib_available. intros Hp H.
  destruct (Qlt_le_dec (cbw - hsum s) pmin) as [L|L].
  - rewrite (Q.max_l pmin (cbw - hsum s)) by (apply Qlt_le_weak; exact L). apply Q.min_l. exact Hp.
  - exfalso.
    assert (Qmin (Qmax pmin (cbw - hsum s)) pref <= Qmax pmin (cbw - hsum s)) by apply Q.le_min_l.
    assert (Qmax pmin (cbw - hsum s) == cbw - hsum s) by (apply Q.max_r; exact L).
    lra.
Qed.

(* ---- judge of the direct stream ibw-direct (harness/p_c09.py): one call of the real inline_block_width on a stub box
   with rational fields, shrink_to_fit answering shrink pmin pref.  case = (width (None = auto), containing-block
   width, spacings, preferred minimum, preferred, the width the implementation left in the box).
   bit 0: the width is not the model's; bit 1: auto width, the preferred minimum fits, the margin box does not *)
Definition ib_case := (option Q * Q * hspace * Q * Q * Q)%type.
Definition ib_judge (c : ib_case) : nat :=
  let '(w, cbw, s, pmin, pref, out) := c in
  ((if Qeq_bool out (ib_width (shrink pmin pref) w cbw s) then 0 else 1) +
   match w with
   | None => if andb (Qle_bool pmin (ib_available cbw s)) (negb (Qle_bool (out + hsum s) cbw)) then 2 else 0
   | Some _ => 0
   end)%nat.
