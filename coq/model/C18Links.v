(* C18 - links and anchors: hand models of gather_anchors (weasyprint/anchors.py, the parts feeding
   Page.anchors / Page.links) and resolve_links (weasyprint/pdf/anchors.py).  Definitions only.

   Names, targets and boxes are integers (ids).  A box carries: its id (the stub's hit_area starts at x = id, so
   the id is what ends up as the anchor point / link rectangle), style['anchor'] (None = ''), style['link']
   (None, or (internal?, target)), whether it is a TextBox/LineBox (has_link is false for those), and
   is_attachment(). *)
From Coq Require Import ZArith List Bool.
Import ListNotations.
Open Scope Z_scope.

Inductive ltype := Internal | External | Attachment.
Definition ltype_eqb (a b : ltype) : bool :=
  match a, b with Internal, Internal | External, External | Attachment, Attachment => true | _, _ => false end.

Definition link := (ltype * Z * Z)%type.          (* (link_type, target, box id) *)
Definition l_type (l : link) : ltype := fst (fst l).
Definition l_target (l : link) : Z := snd (fst l).
Definition anchor := (Z * Z)%type.                (* (name, box id) *)

Inductive box := Box (id : Z) (anch : option Z) (lnk : option (bool * Z)) (textlike attach : bool) (kids : list box).

Definition mem (n : Z) (l : list Z) : bool := existsb (Z.eqb n) l.

(* dict lookup on a list of items in insertion order: first item with that key *)
Fixpoint assoc (n : Z) (l : list anchor) : option Z :=
  match l with [] => None | (m, p) :: r => if n =? m then Some p else assoc n r end.

(* ---- gather_anchors: preorder walk; anchors is a dict (first insertion wins), links a list ---- *)
Definition gather_here (id : Z) (anch : option Z) (lnk : option (bool * Z)) (textlike attach : bool)
           (st : list anchor * list link) : list anchor * list link :=
  let '(anchors, links) := st in
  let links' :=
    match lnk with
    | Some (internal, target) =>
        if textlike then links
        else links ++ [((if internal then Internal else if attach then Attachment else External), target, id)]
    | None => links
    end in
  let anchors' :=
    match anch with
    | Some name => if mem name (map fst anchors) then anchors else anchors ++ [(name, id)]
    | None => anchors
    end in
  (anchors', links').

Fixpoint gather (b : box) (st : list anchor * list link) : list anchor * list link :=
  match b with
  | Box id anch lnk textlike attach kids =>
      (fix go (l : list box) (st : list anchor * list link) : list anchor * list link :=
         match l with [] => st | k :: r => go r (gather k st) end) kids (gather_here id anch lnk textlike attach st)
  end.

(* Page(page_box): anchors = {} ; links = [] ; gather_anchors(page_box, ...) *)
Definition page_of (b : box) : list anchor * list link := gather b ([], []).

(* ---- resolve_links ---- *)
(* first loop: per page, the anchors whose name was not seen on an earlier page (or earlier in the loop) *)
Fixpoint page_anchors (seen : list Z) (items : list anchor) : list anchor * list Z :=
  match items with
  | [] => ([], seen)
  | (n, p) :: r =>
      if mem n seen then page_anchors seen r
      else let '(o, s') := page_anchors (n :: seen) r in ((n, p) :: o, s')
  end.
Fixpoint all_anchors (seen : list Z) (pages : list (list anchor)) : list (list anchor) * list Z :=
  match pages with
  | [] => ([], seen)
  | p :: ps => let '(o, s1) := page_anchors seen p in
               let '(os, s2) := all_anchors s1 ps in (o :: os, s2)
  end.

Definition keep (seen : list Z) (l : link) : bool :=
  match l_type l with Internal => mem (l_target l) seen | _ => true end.
Definition is_internal (l : link) : bool := ltype_eqb (l_type l) Internal.

(* result: per page (page_links, paged_anchors), and the targets of the LOGGER.error calls in order *)
Definition resolve_links (pages : list (list anchor * list link)) : list (list link * list anchor) * list Z :=
  let '(pa, seen) := all_anchors [] (map fst pages) in
  (combine (map (fun p => filter (keep seen) (snd p)) pages) pa,
   flat_map (fun p => map l_target (filter (fun l => is_internal l && negb (mem (l_target l) seen)) (snd p))) pages).

(* the whole path: page boxes -> Page objects -> resolve_links *)
Definition doc_links (page_boxes : list box) := resolve_links (map page_of page_boxes).

(* ---- what the document contains, read off the box trees (specification side) ---- *)
Fixpoint occs (b : box) : list anchor :=      (* anchor-carrying boxes in document (pre)order *)
  match b with
  | Box id anch _ _ _ kids =>
      (match anch with Some n => [(n, id)] | None => [] end) ++
      (fix go (l : list box) : list anchor := match l with [] => [] | k :: r => occs k ++ go r end) kids
  end.
Fixpoint hrefs (b : box) : list link :=       (* link-carrying, non-text boxes in document order *)
  match b with
  | Box id _ lnk textlike attach kids =>
      (match lnk with
       | Some (internal, t) =>
           if textlike then [] else [((if internal then Internal else if attach then Attachment else External), t, id)]
       | None => []
       end) ++
      (fix go (l : list box) : list link := match l with [] => [] | k :: r => hrefs k ++ go r end) kids
  end.
Definition occurs (n : Z) (l : list anchor) : bool := mem n (map fst l).

(* ---- judge ---- *)
Definition link_eqb (a b : link) : bool :=
  ltype_eqb (l_type a) (l_type b) && (l_target a =? l_target b) && (snd a =? snd b).
Definition anchor_eqb (a b : anchor) : bool := (fst a =? fst b) && (snd a =? snd b).
Fixpoint list_eqb {X} (e : X -> X -> bool) (a b : list X) : bool :=
  match a, b with [] , [] => true | x :: a', y :: b' => e x y && list_eqb e a' b' | _, _ => false end.
Definition pageout_eqb (a b : list link * list anchor) : bool :=
  list_eqb link_eqb (fst a) (fst b) && list_eqb anchor_eqb (snd a) (snd b).

(* decidable rendition of the property on the implementation's output, from the box trees only *)
Fixpoint links_spec_pages (earlier : list anchor) (all : list anchor) (boxes : list box)
         (out : list (list link * list anchor)) : bool :=
  match boxes, out with
  | [], [] => true
  | b :: bs, (ls, an) :: os =>
      (* links: exactly the page's links minus the internal ones whose target is carried by no element *)
      list_eqb link_eqb ls (filter (fun l => negb (is_internal l) || occurs (l_target l) all) (hrefs b)) &&
      (* anchors: names new on this page, each at the first element of this page carrying it, once *)
      forallb (fun a => negb (occurs (fst a) earlier) &&
                        match assoc (fst a) (occs b) with Some p => p =? snd a | None => false end) an &&
      forallb (fun o => occurs (fst o) earlier || occurs (fst o) an) (occs b) &&
      Nat.eqb (length an) (length (nodup Z.eq_dec (map fst an))) &&
      links_spec_pages (earlier ++ occs b) all bs os
  | _, _ => false
  end.
Definition links_spec_b (boxes : list box) (out : list (list link * list anchor)) (errs : list Z) : bool :=
  let all := flat_map occs boxes in
  links_spec_pages [] all boxes out &&
  list_eqb Z.eqb errs
    (flat_map (fun b => map l_target (filter (fun l => is_internal l && negb (occurs (l_target l) all)) (hrefs b))) boxes).

(* case: (page box trees, implementation output per page, logged missing targets) *)
Definition links_judge (c : list box * list (list link * list anchor) * list Z) : nat :=
  let '(boxes, out, errs) := c in
  let '(mo, me) := doc_links boxes in
  ((if list_eqb pageout_eqb mo out && list_eqb Z.eqb me errs then 0 else 1) +
   (if links_spec_b boxes out errs then 0 else 2))%nat.
