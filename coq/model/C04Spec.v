(* C04: judges for the direct-call correspondence of the break-value resolution (independent of coq/gen). *)
From Coq Require Import QArith List String Bool.
Require Import WV.model.Frag2.
Import ListNotations.
Open Scope string_scope.
Open Scope nat_scope.

Definition bname (b : brk) : string :=
  match b with
  | BAuto => "auto" | BAvoid => "avoid" | BAvoidPage => "avoid-page" | BAvoidColumn => "avoid-column"
  | BPage => "page" | BColumn => "column" | BLeft => "left" | BRight => "right" | BRecto => "recto" | BVerso => "verso"
  end.
Definition brk_rank (v : brk) : nat :=
  match v with
  | BAuto => 0 | BAvoid | BAvoidPage | BAvoidColumn => 1 | BColumn => 2 | BPage => 3
  | BLeft | BRight | BRecto | BVerso => 4
  end.
(* specification from the property text: the strongest value wins; among equals of the top rank the LAST
   left/right/recto/verso, otherwise the FIRST page / column; avoid values combine *)
Definition spec_ok (l : list brk) (out : brk) : bool :=
  let m := fold_right Nat.max 0 (map brk_rank l) in
  Nat.eqb (brk_rank out) m &&
  match m with
  | 4%nat => match filter (fun v => Nat.eqb (brk_rank v) 4) (rev l) with v :: _ => brk_eqb v out | [] => false end
  | 1%nat => if existsb (fun v => avoid v) l then avoid out else true
  | _ => true
  end.
(* bit 0: Frag2.fold_breaks <> implementation; bit 1: spec fails on the implementation's answer *)
Definition fold_judge (c : list brk * brk) : nat :=
  let '(l, out) := c in
  ((if brk_eqb (fold_breaks l) out then 0 else 1) + (if spec_ok l out then 0 else 2))%nat.
(* force/avoid predicates: (value, in_column, force answer, avoid answer) *)
Definition pred_judge (c : brk * bool * bool * bool) : nat :=
  let '(v, incol, f, a) := c in
  let mf := if incol then (force v || match v with BColumn => true | _ => false end) else force v in
  let ma := if incol then (avoid v || match v with BAvoidColumn => true | _ => false end) else avoid v in
  ((if Bool.eqb mf f then 0 else 1) + (if Bool.eqb ma a then 0 else 1))%nat.
