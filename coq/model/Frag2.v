(* Layer 2 of the fragmentation model: transliteration of ref2.py (integer geometry). *)
From Coq Require Import ZArith List Bool Lia.
Import ListNotations.
Open Scope Z_scope.

Inductive brk := BAuto | BAvoid | BAvoidPage | BAvoidColumn | BPage | BColumn | BLeft | BRight | BRecto | BVerso.
Record style := mkStyle {
  s_mt : Z; s_mb : Z; s_pt : Z; s_pb : Z; s_bt : Z; s_bb : Z;
  s_bf : brk; s_ba : brk; s_bi : brk; s_orphans : nat; s_widows : nat; s_clone : bool }.

Inductive box := Lines (ids : list Z) | Blk (st : style) (kids : list box) (is_root : bool).
Inductive skip := SLine (k : nat) | SChild (i : nat) (sub : option skip).

Inductive frag :=
| FLine (wid : Z) (y h : Z) (resume : option nat) (orphans widows : nat)
| FBlk (st : style) (index : nat) (y mt mb pt pb bt bb height : Z) (kids : list frag).

Record ctx := mkCtx { LH : Z; page_bottom : Z; current_page : nat; forced_break : bool }.

(* y > bottom*(1+1e-9) on integers *)
Definition overflows (bottom y : Z) : bool := if 0 <=? bottom then bottom <? y else bottom <=? y.
Definition collapse (ms : list Z) : Z :=
  fold_right Z.max 0 (filter (fun m => 0 <=? m) ms) + fold_right Z.min 0 (filter (fun m => m <=? 0) ms).
Definition avoid (v : brk) : bool := match v with BAvoid | BAvoidPage => true | _ => false end.
Definition force (v : brk) : bool := match v with BPage | BLeft | BRight | BRecto | BVerso => true | _ => false end.
Definition is_avoid_any (v : brk) : bool := match v with BAvoid | BAvoidPage | BAvoidColumn => true | _ => false end.
Definition brk_eqb (a b : brk) : bool :=
  match a, b with
  | BAuto, BAuto | BAvoid, BAvoid | BAvoidPage, BAvoidPage | BAvoidColumn, BAvoidColumn | BPage, BPage
  | BColumn, BColumn | BLeft, BLeft | BRight, BRight | BRecto, BRecto | BVerso, BVerso => true
  | _, _ => false
  end.
(* one step of the loop of block_level_page_break *)
Definition fold_step (result value : brk) : brk :=
  match value, result with
  | (BLeft | BRight | BRecto | BVerso), _ => value
  | BPage, (BAuto | BAvoid | BAvoidPage | BAvoidColumn | BColumn) => value
  | BColumn, (BAuto | BAvoid | BAvoidPage | BAvoidColumn) => value
  | (BAvoid | BAvoidPage | BAvoidColumn), BAuto => value
  | _, _ => if negb (brk_eqb value result) && is_avoid_any value && is_avoid_any result then BAvoid else result
  end.
Definition fold_breaks (values : list brk) : brk := fold_left fold_step values BAuto.

Fixpoint before_chain_rev (f : frag) : list brk :=      (* outermost first *)
  match f with
  | FLine _ _ _ _ _ _ => []
  | FBlk st _ _ _ _ _ _ _ _ _ kids =>
      s_ba st :: (fix last (l : list frag) : list brk :=
                    match l with [] => [] | [x] => before_chain_rev x | _ :: l' => last l' end) kids
  end.
Definition before_chain (f : option frag) : list brk := match f with None => [] | Some f => rev (before_chain_rev f) end.
Fixpoint after_chain_box (b : box) : list brk :=
  match b with
  | Lines _ => []
  | Blk st kids _ => s_bf st :: match kids with [] => [] | k :: _ => after_chain_box k end
  end.
Fixpoint after_chain_frag (f : frag) : list brk :=
  match f with
  | FLine _ _ _ _ _ _ => []
  | FBlk st _ _ _ _ _ _ _ _ _ kids => s_bf st :: match kids with [] => [] | k :: _ => after_chain_frag k end
  end.
Definition after_chain_frag_o (f : option frag) := match f with None => [] | Some f => after_chain_frag f end.

(* None = abort, Some drop = number of placed lines to give back *)
Definition break_line (st : style) (nplaced remaining_after : nat) (pie : bool) : option nat :=
  let over_orphans := (Z.of_nat nplaced - Z.of_nat (s_orphans st)) in
  if (over_orphans <? 0) && negb pie then None else
  let needed0 := (s_widows st - 1)%nat in
  let needed := (needed0 - Nat.min needed0 remaining_after)%nat in
  if (over_orphans <? Z.of_nat needed) && negb pie then None else
  if negb (Nat.eqb needed 0) && (Z.of_nat needed <=? over_orphans) then Some needed else Some 0%nat.

Definition removelast_n {A} (n : nat) (l : list A) : list A := firstn (length l - n) l.
Definition last_resume (placed : list frag) : option nat :=
  match last placed (FLine 0 0 0 None 0 0) with FLine _ _ _ r _ _ => r | _ => None end.

Record line_res := mkLR { lr_abort : bool; lr_stop : bool; lr_resume : option skip; lr_y : Z; lr_placed : list frag; lr_mt : Z }.

(* the loop over the lines k.. of a paragraph *)
Fixpoint lines_loop (c : ctx) (st : style) (pb bb : Z) (index : nat) (pie : bool) (bottom_space : Z)
         (ids : list Z) (k : nat) (gen_y y : Z) (placed : list frag) (mt : Z) (dbd : bool) (cur_skip : option skip)
  : line_res :=
  match ids with
  | [] => mkLR false false None y placed mt
  | id :: rest =>
      let nxt := match rest with [] => None | _ => Some (S k) end in
      let new_y := gen_y + LH c in
      let dbd := dbd || match nxt with None => true | _ => false end in
      let offset := if dbd then bb + pb else 0 in
      if (negb (Nat.eqb (length placed) 0) || negb pie) && overflows (page_bottom c - bottom_space) (new_y + offset) then
        match break_line st (length placed) (length rest) pie with
        | None => mkLR true false None y placed mt
        | Some drop => mkLR false true (Some (SChild index cur_skip)) y (removelast_n drop placed) mt
        end
      else
        let shift := pie && overflows (page_bottom c - bottom_space) new_y in
        let new_y' := if shift then new_y - mt else new_y in
        let line_y := if shift then gen_y - mt else gen_y in
        let mt' := if shift then 0 else mt in
        lines_loop c st pb bb index pie bottom_space rest (S k) (gen_y + LH c) new_y'
                   (placed ++ [FLine id line_y (LH c) nxt (s_orphans st) (s_widows st)]) mt' dbd
                   (match nxt with Some n => Some (SLine n) | None => None end)
  end.

Definition linebox_layout (c : ctx) (st : style) (mt pb bb : Z) (ids : list Z) (index : nat) (pie : bool)
           (adj : list Z) (bottom_space position_y : Z) (sub : option skip) (dbd : bool) : line_res :=
  let position_y := match adj with [] => position_y | _ => position_y + collapse adj end in
  let k := match sub with Some (SLine k) => k | _ => 0%nat end in
  let r := lines_loop c st pb bb index pie bottom_space (skipn k ids) k position_y position_y [] mt dbd sub in
  match lr_placed r with
  | [] => r
  | _ => mkLR (lr_abort r) (lr_stop r)
              (Some (SChild index (match last_resume (lr_placed r) with Some n => Some (SLine n) | None => None end)))
              (lr_y r) (lr_placed r) (lr_mt r)
  end.

Definition frag_index (f : frag) : nat := match f with FBlk _ i _ _ _ _ _ _ _ _ _ => i | _ => 0%nat end.
Definition frag_st_bi (f : frag) : brk := match f with FBlk st _ _ _ _ _ _ _ _ _ _ => s_bi st | _ => BAuto end.

Definition set_kids (f : frag) (k : list frag) : frag :=
  match f with FBlk st i y mt mb pt pb bt bb h _ => FBlk st i y mt mb pt pb bt bb h k | _ => f end.

(* find_earlier_page_break on the children of a fragment *)
Section FeGo.
Variable fe : frag -> option (list frag * skip).
(* scan the block children right to left for the last allowed break *)
Fixpoint fe_go (l : list frag) : option (list frag * skip) :=
  match l with
  | [] => None
  | ch :: rest =>
      match fe_go rest with
      | Some (kept, res) => Some (ch :: kept, res)
      | None =>
          let inside :=
            if negb (avoid (frag_st_bi ch)) then
              match fe ch with
              | Some (ngc, res) => Some ([set_kids ch ngc], SChild (frag_index ch) (Some res))
              | None => None end
            else None in
          match rest with
          | p :: _ =>
              let pbv := fold_breaks (before_chain (Some ch) ++ after_chain_frag p) in
              if negb (avoid pbv) then Some ([ch], SChild (frag_index p) None) else inside
          | [] => inside
          end
      end
  end.
End FeGo.
Fixpoint find_earlier_f (f : frag) : option (list frag * skip) :=
  match f with
  | FLine _ _ _ _ _ _ => None
  | FBlk _ _ _ _ _ _ _ _ _ _ kids => 
      match kids with
      | FLine _ _ _ _ o w :: _ =>
          let index := (length kids - w)%nat in
          if (length kids <? w)%nat || (index <? o)%nat then None else
          let newc := firstn index kids in
          Some (newc, SChild 0 (match last_resume newc with Some n => Some (SLine n) | None => None end))
      | _ => fe_go find_earlier_f kids
      end
  end.
Definition find_earlier (children : list frag) : option (list frag * skip) :=
  find_earlier_f (FBlk (mkStyle 0 0 0 0 0 0 BAuto BAuto BAuto 1 1 false) 0 0 0 0 0 0 0 0 0 children).

(* ---------- block layout ---------- *)
Record bres := mkB { b_frag : frag; b_resume : option skip; b_np : option brk; b_ct : bool }.
Definition lret := (option bres * list Z * list Z * bool)%type.   (* result, adj_fin, out, same *)

Definition child_mt (c : ctx) (cst : style) (cb_is_root pie : bool) (adj : list Z) : Z :=
  if (1 <? current_page c)%nat && pie && (cb_is_root || negb (Nat.eqb (length adj) 0)) && negb (forced_break c)
  then 0 else s_mt cst.

Definition frag_geom (f : frag) : Z * Z * Z * Z * Z * Z * Z * Z :=   (* y mt mb pt pb bt bb h *)
  match f with FBlk _ _ y mt mb pt pb bt bb h _ => (y, mt, mb, pt, pb, bt, bb, h) | _ => (0,0,0,0,0,0,0,0) end.
Definition set_index (f : frag) (i : nat) : frag :=
  match f with FBlk st _ y mt mb pt pb bt bb h k => FBlk st i y mt mb pt pb bt bb h k | _ => f end.

(* state of the children loop *)
Record lstate := mkLS { ls_pos : Z; ls_cur : list Z; ls_cur_is_O : bool; ls_O : list Z; ls_np : option brk;
                        ls_newc : list frag; ls_mt : Z; ls_dbd : bool }.
Inductive lout := LAbort (O : list Z) | LDone (broke : bool) (resume : option skip) (s : lstate).
(* outcome of laying out one child inside the loop *)
Inductive sout := SAbort (O : list Z) | SStop (resume : option skip) (s : lstate) | SCont (s : lstate).

(* the recursive call on one child, as a function of (pos_y, mt, bottom_space, skip, page_is_empty, adj) *)
Definition rec_t := Z -> Z -> Z -> option skip -> bool -> list Z -> lret.

(* a LineBox child: _linebox_layout *)
Definition lines_step (c : ctx) (st : style) (pb bb : Z) (pie : bool) (bottom_space : Z)
           (ids : list Z) (index : nat) (sub : option skip) (s : lstate) : sout :=
  let r := linebox_layout c st (ls_mt s) pb bb ids index pie (ls_cur s) bottom_space (ls_pos s) sub (ls_dbd s) in
  let s' := mkLS (lr_y r) [] false (ls_O s) (ls_np s) (ls_newc s ++ lr_placed r) (lr_mt r)
                 (ls_dbd s || match lr_resume r with None => true | _ => false end) in
  if lr_abort r then SAbort (ls_O s)
  else if lr_stop r then SStop (lr_resume r) s'
  else SCont s'.

(* a block child: _in_flow_layout *)
Definition blk_step (c : ctx) (rec : rec_t) (child : box) (cst : style) (is_root pie : bool) (bottom_space : Z)
           (index : nat) (sub : option skip) (s : lstate) : sout :=
  let newc := ls_newc s in
  let lastf := match newc with [] => None | _ => Some (last newc (FLine 0 0 0 None 0 0)) end in
  let page_break := match lastf with
                    | Some lf => fold_breaks (before_chain (Some lf) ++ after_chain_box child)
                    | None => BAuto end in
  if match lastf with Some _ => force page_break | None => false end then
    SStop (Some (SChild index None))
          (mkLS (ls_pos s) [] false (ls_O s) (Some page_break) newc (ls_mt s) (ls_dbd s))
  else
  let pie_nc := pie && Nat.eqb (length newc) 0 in
  let cur := ls_cur s in
  let '(res, cur_fin, out, same) := rec (ls_pos s) (child_mt c cst is_root pie_nc cur) bottom_space sub pie_nc cur in
  let O1 := if ls_cur_is_O s then cur_fin else ls_O s in
  let '(new_child, resume, np, position_y, O2, cur2, cur_is_O2) :=
    match res with
    | None => (None, None, None, ls_pos s, O1, cur_fin, ls_cur_is_O s)
    | Some r =>
        let '(cy, cmt, cmb, cpt, cpb, cbt, cbb, ch) := frag_geom (b_frag r) in
        let content_bottom := cy + cmt + cbt + cpt + ch in
        let border_bottom := cy + cmt + (ch + cpt + cpb + cbt + cbb) in
        let can_break := negb pie_nc in
        let lim := page_bottom c - bottom_space in
        let '(nc, rs, np', py, O', out', same') :=
          if b_ct r then (Some (b_frag r), b_resume r, b_np r, ls_pos s, O1, out, same)
          (* the child is discarded: so is the break found inside it (the incoming next_page is kept) *)
          else if can_break && overflows lim content_bottom then (None, b_resume r, ls_np s, ls_pos s, O1, out, same)
          else if can_break && overflows lim border_bottom then
            let '(res2, cur_fin2, out2, same2) :=
              rec (ls_pos s) (child_mt c cst is_root pie_nc cur_fin) (bottom_space + cpb + cbb) sub pie_nc cur_fin in
            let O1' := if ls_cur_is_O s then cur_fin2 else O1 in
            match res2 with
            | Some r2 =>
                let '(cy2, cmt2, _, cpt2, cpb2, cbt2, cbb2, ch2) := frag_geom (b_frag r2) in
                (Some (b_frag r2), b_resume r2, b_np r2, cy2 + cmt2 + (ch2 + cpt2 + cpb2 + cbt2 + cbb2), O1', out2, same2)
            | None => (None, None, None, ls_pos s, O1', out2, same2)
            end
          else (Some (b_frag r), b_resume r, b_np r, border_bottom, O1, out, same) in
        let cur_is_O' := ls_cur_is_O s && same' in
        let cur' := match nc with
                    | Some f => out' ++ [let '(_, _, fmb, _, _, _, _, _) := frag_geom f in fmb]
                    | None => out' end in
        let O'' := if cur_is_O' then cur' else O' in
        (nc, rs, np', py, O'', cur', cur_is_O')
    end in
  match new_child with
  | None =>
      let s_fail := mkLS position_y cur2 cur_is_O2 O2 np newc (ls_mt s) (ls_dbd s) in
      let plain :=
        match newc with
        | [] => SAbort O2
        | _ => SStop (Some (SChild index None)) s_fail
        end in
      if avoid page_break then
        match find_earlier newc with
        | Some (newc', res') => SStop (Some res') (mkLS position_y cur2 cur_is_O2 O2 np newc' (ls_mt s) (ls_dbd s))
        | None => if negb pie then SAbort O2 else plain
        end
      else plain
  | Some f =>
      let s' := mkLS position_y cur2 cur_is_O2 O2 np (newc ++ [set_index f index]) (ls_mt s) (ls_dbd s) in
      match resume with
      | Some rs => SStop (Some (SChild index (Some rs))) s'
      | None => SCont s'
      end
  end.

(* the loop of block_container_layout over the children, from child number [toskip] on *)
Section KidsLoop.
Variable stepf : box -> nat -> option skip -> lstate -> sout.
Fixpoint kids_loop (kids : list box) (index toskip : nat) (sub : option skip) (s : lstate) {struct kids} : lout :=
  match kids with
  | [] => LDone false None s
  | child :: rest =>
      match toskip with
      | S n => kids_loop rest (S index) n sub s
      | O =>
        match stepf child index sub s with
        | SAbort Ofin => LAbort Ofin
        | SStop r s' => LDone true r s'
        | SCont s' => kids_loop rest (S index) O None s'
        end
      end
  end.
End KidsLoop.

(* what block_container_layout does after its loop over the children *)
Definition finish_blk (c : ctx) (st : style) (is_root pie cwc : bool) (pos_y1 mt0 pt bt bottom_space : Z) (lo : lout) : lret :=
  let mb := s_mb st in let pb := s_pb st in let bb := s_bb st in
  let clone := s_clone st in
  match lo with
  | LAbort Ofin => (None, Ofin, [], false)
  | LDone broke resume0 s =>
      let resume := if broke then resume0 else None in
      let fragmented := match resume with Some _ => true | None => false end in
      let O := ls_O s in
      let mt := ls_mt s in
      if fragmented && avoid (s_bi st) && negb pie then (None, O, [], false) else
      let cur := if broke then [] else ls_cur s in
      let cur_is_O := if broke then false else ls_cur_is_O s in
      let pos_y2 := if cwc then pos_y1 + collapse O - mt else pos_y1 in
      let no_kids := Nat.eqb (length (ls_newc s)) 0 in
      let ct := no_kids && (bt =? 0) && (pt =? 0) && (bb =? 0) && (pb =? 0) in
      let position_y := if no_kids && negb ct then ls_pos s + collapse cur else ls_pos s in
      let '(cur, cur_is_O) := if no_kids && negb ct then ([], false) else (cur, cur_is_O) in
      let closeb := negb (bb =? 0) || negb (pb =? 0) || is_root in
      let position_y := if closeb then position_y + collapse cur else position_y in
      let '(cur, cur_is_O) := if closeb then ([], false) else (cur, cur_is_O) in
      let cut := negb clone && fragmented in
      let nmb := if cut then 0 else mb in let npb := if cut then 0 else pb in let nbb := if cut then 0 else bb in
      let h0 := position_y - (pos_y2 + mt + bt + pt) in
      let height :=
        if negb fragmented then Z.max h0 0
        else let nh := page_bottom c - bottom_space - pos_y2 - (mt + bt + pt + npb + nbb + nmb) in
             if h0 <? nh then (if ls_dbd s then nh + pb + bb + mb else nh) else h0 in
      (Some (mkB (FBlk st 0 pos_y2 mt nmb pt npb bt nbb height (ls_newc s)) resume (ls_np s) ct), O, cur, cur_is_O)
  end.

Fixpoint bcl (c : ctx) (b : box) (pos_y mt bottom_space : Z) (sk : option skip) (pie : bool) (adj : list Z) {struct b} : lret :=
  match b with
  | Lines _ => (None, adj, [], false)
  | Blk st kids is_root =>
      let mb := s_mb st in let pb := s_pb st in let bb := s_bb st in
      let is_start := match sk with None => true | _ => false end in
      let clone := s_clone st in
      let reset := negb clone && negb is_start in
      let mt := if reset then 0 else mt in
      let pt := if reset then 0 else s_pt st in
      let bt := if reset then 0 else s_bt st in
      let dbd0 := clone in
      let bottom_space := if dbd0 then bottom_space + pb + bb + Z.max 0 mb else bottom_space in
      let O0 := adj ++ [mt] in
      let cwc := negb (negb (bt =? 0) || negb (pt =? 0) || is_root) in
      let pos_y1 := if cwc then pos_y else pos_y + collapse O0 - mt in
      let cur0 := if cwc then O0 else [] in
      let position_y0 := if cwc then pos_y else pos_y1 + mt + bt + pt in
      let skn := match sk with Some (SChild i _) => i | _ => 0%nat end in
      let sub0 := match sk with Some (SChild _ s) => s | _ => None end in
      finish_blk c st is_root pie cwc pos_y1 mt pt bt bottom_space
                 (kids_loop (fun (child : box) (index : nat) (sub : option skip) (s : lstate) =>
                     match child with
                     | Lines ids => lines_step c st pb bb pie bottom_space ids index sub s
                     | Blk cst _ _ => blk_step c (bcl c child) child cst is_root pie bottom_space index sub s
                     end) kids 0%nat skn sub0 (mkLS position_y0 cur0 cwc O0 None [] mt dbd0))
  end.

(* ---------- page loop (remake_page / make_all_pages, without re-pagination) ---------- *)
Inductive side := SRight | SLeft | SBlank.
Fixpoint frag_lines (f : frag) : list (Z * Z) :=
  match f with
  | FLine w y _ _ _ _ => [(w, y)]
  | FBlk _ _ _ _ _ _ _ _ _ _ kids => flat_map frag_lines kids
  end.
(* outcome of the page loop: all pages / ran out of fuel with content left / the root box aborted *)
Inductive pres := PDone (pages : list (side * list (Z * Z)))
                | PFuel (pages : list (side * list (Z * Z))) (left : option skip)
                | PStuck (pages : list (side * list (Z * Z))).
Definition pcons (p : side * list (Z * Z)) (r : pres) : pres :=
  match r with PDone l => PDone (p :: l) | PFuel l x => PFuel (p :: l) x | PStuck l => PStuck (p :: l) end.
Definition want_side (ltr : bool) (np : option brk) : option bool :=      (* Some true = right page wanted *)
  match np with
  | Some BLeft => Some false | Some BRight => Some true
  | Some BRecto => Some ltr | Some BVerso => Some (negb ltr)
  | _ => None end.
Definition is_blank (ltr : bool) (np : option brk) (right : bool) : bool :=
  match want_side ltr np with Some w => negb (Bool.eqb w right) | None => false end.
Fixpoint paginate_loop (fuel : nat) (root : box) (H lh : Z) (ltr : bool) (i : nat)
         (resume : option skip) (np : option brk) (right : bool) : pres :=
  match fuel with
  | O => PFuel [] resume
  | S fuel' =>
      let c := mkCtx lh H (S i) (match np with Some _ => true | None => false end) in
      if is_blank ltr np right then
        pcons (SBlank, []) (paginate_loop fuel' root H lh ltr (S i) resume np (negb right))
      else
        match root with
        | Blk rst _ _ =>
            match bcl c root 0 (child_mt c rst false true []) 0 resume true [] with
            | (Some r, _, _, _) =>
                let page := ((if right then SRight else SLeft), frag_lines (b_frag r)) in
                match b_resume r with
                | None => PDone [page]
                | Some s => pcons page (paginate_loop fuel' root H lh ltr (S i) (Some s) (b_np r) (negb right))
                end
            | _ => PStuck []     (* root aborted: cannot happen when the page is empty *)
            end
        | _ => PStuck []
        end
  end.
Definition page_fuel : nat := 500.
Definition paginate_res (root : box) (H lh : Z) : pres :=
  paginate_loop page_fuel root H lh true 0 None None true.
Definition paginate (root : box) (H lh : Z) : list (side * list (Z * Z)) :=
  match paginate_res root H lh with PDone l => l | _ => [] end.
