(* C07 - weasyprint/css/validation/__init__.py: preprocess_declarations (style-attribute / declaration-block
   path, prelude = None), and weasyprint/css/validation/properties.py: validate_non_shorthand.
   Definitions only. *)
From Coq Require Import ZArith List Bool String Ascii.
Require Import WV.model.C07Tok.
Import ListNotations.
Open Scope string_scope.

(* What a validator / expander call can do: return its (name, value) pairs, raise InvalidValues, or raise
   something else. *)
Inductive res (A : Type) : Type :=
| Ok (a : A)
| Invalid
| Crash.
Arguments Ok {A} a.
Arguments Invalid {A}.
Arguments Crash {A}.

Definition bind {A B} (r : res A) (f : A -> res B) : res B :=
  match r with Ok a => f a | Invalid => Invalid | Crash => Crash end.

(* ------------------------------------------------------------------ 1. the loop of preprocess_declarations *)
Section Preprocess.
  Variable T0 : Type.                       (* declaration.value: component values as parsed *)
  Variable T : Type.                        (* remove_whitespace(declaration.value) *)
  Variable V : Type.                        (* validated values *)
  Variable strip : T0 -> T.
  Variable is_empty : T -> bool.
  (* EXPANDERS.get(name, validate_non_shorthand)(tokens, name, base_url), consumed by list().
     Invalid = `raise InvalidValues` (caught, logged); Crash = any other exception (not caught: it aborts
     the generator and the stylesheet with it). *)
  Variable validator : string -> T -> res (list (string * V)).
  Variable not_print proprietary unstable : string -> bool.   (* NOT_PRINT_MEDIA, PROPRIETARY, UNSTABLE *)

  (* one node of parse_blocks_contents *)
  Inductive item : Type :=
  | IDecl (name lname : string) (value : T0) (important : bool)
  | IError            (* ParseError: logged *)
  | IQRule            (* nested qualified rule: skipped, prelude is None *)
  | IAtRule
  | IOther.           (* whitespace, comment *)

  Definition PREFIX := "-weasy-".

  (* the name the validator is looked up with; None = `continue` *)
  Definition resolve_name (name lname : string) : option string :=
    let n := if prefix "--" name then name else lname in
    if not_print n then None
    else
      let after_prefix :=
        if prefix PREFIX n then
          let u := drop 7 n in
          if proprietary u then Some u
          else if unstable u then Some u
          else None
        else Some n in
      match after_prefix with
      | None => None
      | Some n' => if prefix "-" n' && negb (prefix "--" n') then None else Some n'
      end.

  Definition out := (string * V * bool)%type.

  (* the key of a longhand in the styles: "-" becomes "_" ; a custom property keeps its exact name, only its "--"
     prefix becomes "__" *)
  Definition style_key (long_name : string) : string :=
    if prefix "--" long_name then ("__" ++ drop 2 long_name)%string else underscore long_name.

  (* what one iteration yields *)
  Definition pp1 (it : item) : res (list out) :=
    match it with
    | IDecl name lname value important =>
        match resolve_name name lname with
        | None => Ok []
        | Some n =>
            let tokens := strip value in
            if is_empty tokens then Ok []                      (* InvalidValues('no value') *)
            else match validator n tokens with
                 | Invalid => Ok []                            (* except InvalidValues: warning, continue *)
                 | Crash => Crash
                 | Ok result => Ok (map (fun nv => (style_key (fst nv), snd nv, important)) result)
                 end
        end
    | _ => Ok []
    end.

  (* the generator, as the loop it is; an uncaught exception ends it *)
  Definition pp (ds : list item) : res (list out) :=
    fold_left (fun acc d => bind acc (fun a => bind (pp1 d) (fun o => Ok (a ++ o)%list))) ds (Ok []).

  Definition is_decl (it : item) : bool := match it with IDecl _ _ _ _ => true | _ => false end.
End Preprocess.

Arguments IDecl {T0} name lname value important.
Arguments IError {T0}.
Arguments IQRule {T0}.
Arguments IAtRule {T0}.
Arguments IOther {T0}.

(* ------------------------------------------------------------------ 2. validate_non_shorthand *)
Section Longhand.
  Variable V0 : Type.                       (* what the ~200 individual validators return *)
  Variable known supported : string -> bool.            (* KNOWN_PROPERTIES, PROPERTIES *)
  (* PROPERTIES[name](tokens[, base_url]): None = invalid, Some v; they are exercised, not modelled *)
  Variable prop_validator : string -> list tok -> option V0.

  Inductive value : Type :=
  | VRaw (ts : list tok)                       (* custom property: the tokens themselves *)
  | VKeyword (k : string)                      (* 'initial' | 'inherit' *)
  | VPendingProp (ts : list tok) (name : string)        (* PendingProperty(tokens, name) *)
  | VPendingExp (ts : list tok) (shorthand : string)    (* PendingExpander(tokens, partial(expander, name=shorthand)) *)
  | VVal (v : V0).

  Definition validate_non_shorthand (tokens : list tok) (name : string) (required : bool)
    : res (list (string * value)) :=
    if prefix "--" name then Ok [(name, VRaw tokens)]
    else if negb required && negb (known name) then Invalid            (* 'unknown property' *)
    else if negb required && negb (supported name) then Invalid        (* 'property not supported yet' *)
    else if negb (supported name) then Crash                           (* PROPERTIES[name]: KeyError *)
    else if any_var tokens then Ok [(name, VPendingProp tokens name)]
    else match single_kw_in tokens ["initial"; "inherit"] with
         | Some k => Ok [(name, VKeyword k)]
         | None => match prop_validator name tokens with
                   | Some v => Ok [(name, VVal v)]
                   | None => Invalid
                   end
         end.

  (* `(name, value), = validate_non_shorthand(...)` / `result, = ...` *)
  Definition vns1 (tokens : list tok) (name : string) : res (string * value) :=
    bind (validate_non_shorthand tokens name true)
         (fun l => match l with [nv] => Ok nv | _ => Crash end).
End Longhand.

Arguments VRaw {V0} ts.
Arguments VKeyword {V0} k.
Arguments VPendingProp {V0} ts name.
Arguments VPendingExp {V0} ts shorthand.
Arguments VVal {V0} v.
