(* C06 - relative computed values: hand models of weasyprint/css/computed_values.py
     length, font_size, font_weight, line_height   and of   media_queries.evaluate_media_query.
   Lengths are rationals (Q); the float constants of the source (3/5, 1.2, 96/2.54 ...) are the rationals they
   denote - the correspondence runs compare with a relative tolerance of 1e-9.  Definitions only. *)
From Coq Require Import ZArith QArith List Bool String.
Import ListNotations.
Open Scope Q_scope.

Inductive unit := Px | Pt | Pc | In_ | Cm | Mm | Qu | Em | Ex | Ch | Rem | Pct.

(* a specified length: one of the keywords length() passes through, or Dimension(value, unit) *)
Inductive lval := LKeyword | LDim (v : Q) (u : unit).
(* result of length(): the value unchanged (keywords, percentages) or a number of pixels
   (Dimension(result, 'px') or the bare number when pixels_only) *)
Inductive lres := LSame | LPx (q : Q).

(* LENGTHS_TO_PIXELS *)
Definition to_pixels (u : unit) : option Q :=
  match u with
  | Px => Some 1 | Pt => Some (4 # 3) | Pc => Some 16 | In_ => Some 96
  | Cm => Some (9600 # 254) | Mm => Some (960 # 254) | Qu => Some (240 # 254)
  | _ => None
  end.

(* what length() reads from `style`: style['font_size'], style.root_style['font_size'], character_ratio(style, 'x'|'0'),
   style.is_root_element *)
Record env := { own_fs : Q; root_fs : Q; ex_ratio : Q; ch_ratio : Q; is_root : bool }.

Definition Qzero (q : Q) : bool := Qeq_bool q 0.
Definition is_pct (u : unit) : bool := match u with Pct => true | _ => false end.

(* length(style, name, value, font_size=None, pixels_only=...); for_font_size: name == 'font_size' *)
Definition length (e : env) (for_font_size : bool) (font_size : option Q) (value : lval) : lres :=
  match value with
  | LKeyword => LSame
  | LDim v u =>
      if Qzero v && negb (is_pct u) then LPx 0      (* a zero length is 0px; 0% stays a percentage (repair fbc7bb3) *)
      else match u with
           | Px => LPx v
           | Pct => LSame
           | Em | Ex | Ch | Rem =>
               let fs := match font_size with Some f => f | None => own_fs e end in
               match u with
               | Ex => LPx (v * fs * ex_ratio e)
               | Ch => LPx (v * fs * ch_ratio e)
               | Em => LPx (v * fs)
               | _ => if is_root e && negb for_font_size
                      then LPx (v * own_fs e)        (* rem on the root element: its own font size ... *)
                      else LPx (v * root_fs e)       (* ... except in font-size; elsewhere root_style *)
               end
           | _ => match to_pixels u with Some f => LPx (v * f) | None => LSame end
           end
  end.

(* ---- font-size *)
Definition initial_font_size : Q := 16.
(* FONT_SIZE_KEYWORDS in insertion order: xx-small x-small small medium large x-large xx-large *)
Definition keyword_factors : list Q := [3 # 5; 3 # 4; 8 # 9; 1; 6 # 5; 3 # 2; 2].
Definition keyword_values : list Q := map (fun f => initial_font_size * f) keyword_factors.

Inductive fsval := FKeyword (i : nat) | FLarger | FSmaller | FDim (v : Q) (u : unit).

Definition Qltb (a b : Q) : bool := negb (Qle_bool b a).

Fixpoint first_gt (l : list Q) (p : Q) : option Q :=       (* for ...: if keyword_value > parent_font_size *)
  match l with [] => None | k :: r => if Qltb p k then Some k else first_gt r p end.
Fixpoint first_lt (l : list Q) (p : Q) : option Q :=       (* on keyword_values[::-1] *)
  match l with [] => None | k :: r => if Qltb k p then Some k else first_lt r p end.

Definition larger (p : Q) : Q :=
  match first_gt keyword_values p with Some k => k | None => p * (6 # 5) end.
Definition smaller (p : Q) : Q :=
  match first_lt (rev keyword_values) p with Some k => k | None => p * (4 # 5) end.

(* font_size(style, name, value); parent = style.parent_style['font_size'] (None on the root element);
   None = the keyword index is out of range (cannot happen for validated values) *)
Definition font_size (e : env) (parent : option Q) (value : fsval) : option Q :=
  let parent_fs := match parent with Some p => p | None => initial_font_size end in
  match value with
  | FKeyword i => nth_error keyword_values i
  | FLarger => Some (larger parent_fs)
  | FSmaller => Some (smaller parent_fs)
  | FDim v Pct => Some (v * parent_fs / 100)
  | FDim v u => match length e true (Some parent_fs) (LDim v u) with LPx q => Some q | LSame => None end
  end.

(* set_computed_styles: root_style is {'font_size': INITIAL_VALUES['font_size']} for the root element itself,
   the root element's computed style otherwise *)
Definition root_font_size_for (is_root : bool) (document_root_fs : Q) : Q :=
  if is_root then initial_font_size else document_root_fs.

(* the env set_computed_styles + ComputedStyle give to the computer functions of an element *)
Definition element_env (root : bool) (own document_root_fs exr chr : Q) : env :=
  {| own_fs := own; root_fs := root_font_size_for root document_root_fs; ex_ratio := exr; ch_ratio := chr;
     is_root := root |}.

(* ---- font-weight *)
Open Scope Z_scope.
Inductive fwval := WNormal | WBold | WBolder | WLighter | WNum (n : Z).
Definition bolder_table : list (Z * Z) :=
  [(100, 400); (200, 400); (300, 400); (400, 700); (500, 700); (600, 900); (700, 900); (800, 900); (900, 900)].
Definition lighter_table : list (Z * Z) :=
  [(100, 100); (200, 100); (300, 100); (400, 100); (500, 100); (600, 400); (700, 400); (800, 700); (900, 700)].
Fixpoint zassoc (l : list (Z * Z)) (k : Z) : option Z :=
  match l with [] => None | (a, b) :: r => if a =? k then Some b else zassoc r k end.
(* None = KeyError *)
Definition font_weight (parent : option Z) (value : fwval) : option Z :=
  let parent_value := match parent with Some p => p | None => 400 end in
  match value with
  | WNormal => Some 400 | WBold => Some 700
  | WBolder => zassoc bolder_table parent_value
  | WLighter => zassoc lighter_table parent_value
  | WNum n => Some n
  end.
(* the specification: CSS 2.1 15.6 / CSS Fonts 4 "Relative weights" table, by ranges *)
Definition css_bolder (w : Z) : Z :=
  if w <? 350 then 400 else if w <? 550 then 700 else if w <? 900 then 900 else w.
Definition css_lighter (w : Z) : Z :=
  if w <? 100 then w else if w <? 550 then 100 else if w <? 750 then 400 else 700.
(* what css/validation accepts for font-weight numbers *)
Definition valid_weight (w : Z) : bool := (100 <=? w) && (w <=? 900) && (w mod 100 =? 0).
Close Scope Z_scope.

(* ---- line-height *)
Inductive lhval := HNormal | HNumber (v : Q) | HPct (v : Q) | HLen (v : Q) (u : unit).
Inductive lhres := RNormal | RNumber (v : Q) | RPixels (q : Q) | RBad.
Definition line_height (e : env) (value : lhval) : lhres :=
  match value with
  | HNormal => RNormal
  | HNumber v => RNumber v
  | HPct v => RPixels (v / 100 * own_fs e)
  | HLen v u => match length e false None (LDim v u) with LPx q => RPixels q | LSame => RBad end
  end.

(* ---- media_queries.evaluate_media_query(query_list, device_media_type) *)
Definition evaluate_media_query (query_list : list string) (device : string) : bool :=
  existsb (String.eqb "all") query_list || existsb (String.eqb device) query_list.
