(* C05: hand model of the functions that a call of a @handle_min_max_width / @handle_min_max_height function executes
   (the inner `wrapper` of the two decorators of weasyprint/layout/min_max.py), for an ARBITRARY decorated function.
   Independent of coq/gen.  The decorated function is an oracle: given the state of the box (its attributes) and the
   tuple of the other arguments it raises, or answers the returned value, the state of the box after the call and
   the state of the other arguments after the call (a tuple: a list of values).  The model also records the inputs of the successive calls. *)
From Coq Require Import QArith List String Bool.
Require Import WV.base.Py.
Import ListNotations.
Open Scope string_scope.
Open Scope list_scope.

Definition fields := list (string * val).
Definition answer := (val * fields * list val)%type.       (* returned value, box after the call, args after the call *)
Definition oracle := fields -> list val -> string + answer. (* inl m: the call raises m *)
Definition calls := list (fields * list val).                  (* the inputs of the successive calls *)

(* Python's a > b / a < b on the values of the embedding: numbers are compared, anything else raises *)
Definition vgt (a b : val) : string + bool :=
  match a, b with
  | VNum x, VNum y => inr (negb (Qle_bool x y))
  | VErr m, _ => inl m | _, VErr m => inl m
  | _, _ => inl "TypeError"
  end.
Definition vlt (a b : val) : string + bool :=
  match a, b with
  | VNum x, VNum y => inr (negb (Qle_bool y x))
  | VErr m, _ => inl m | _, VErr m => inl m
  | _, _ => inl "TypeError"
  end.
(* x == 'auto' *)
Definition is_auto_kw (v : val) : string + bool :=
  match v with VStr s => inr (String.eqb s "auto") | VErr m => inl m | _ => inr false end.
(* getattr(obj, name, default) *)
Definition getattr_sem (f : fields) (name : string) (default : val) : val :=
  match lookup name f with VErr _ => default | v => v end.

(* box.margin_a, box.margin_b = computed_margins ; if position is not None: box.position = position *)
Definition restore (ma mb : string) (pos : option string) (f0 f : fields) : fields :=
  let f1 := update mb (lookup mb f0) (update ma (lookup ma f0) f) in
  match pos with
  | None => f1
  | Some p => match getattr_sem f0 p VNone with VNone => f1 | px => update p px f1 end
  end.

(* if box.size > box.max_size (resp. < box.min_size): box.size = that bound; restore; call the function again *)
Definition reenter (F : oracle) (prep : fields -> fields) (size bound : string) (above : bool)
           (cur : answer) (tr : calls) : calls * (string + answer) :=
  let '(r, f, a) := cur in
  match (if above then vgt (lookup size f) (lookup bound f) else vlt (lookup size f) (lookup bound f)) with
  | inl m => (tr, inl m)
  | inr false => (tr, inr cur)
  | inr true => let fin := prep (update size (lookup bound f) f) in (tr ++ [(fin, a)], F fin a)
  end.

Definition clamp (F : oracle) (prep : fields -> fields) (size mx mn : string) (c1 : answer) (tr : calls)
  : calls * (string + answer) :=
  match reenter F prep size mx true c1 tr with
  | (tr', inl m) => (tr', inl m)
  | (tr', inr c2) => reenter F prep size mn false c2 tr'
  end.

(* handle_min_max_width(function)(box, *args) *)
Definition wrap_width_full (F : oracle) (f0 : fields) (a0 : list val) : calls * (string + answer) :=
  match F f0 a0 with
  | inl m => ([(f0, a0)], inl m)
  | inr c1 => clamp F (restore "margin_left" "margin_right" (Some "position_x") f0) "width" "max_width" "min_width"
                    c1 [(f0, a0)]
  end.
(* handle_min_max_height(function)(box, *args): nothing is clamped while the height is 'auto' *)
Definition wrap_height_full (F : oracle) (f0 : fields) (a0 : list val) : calls * (string + answer) :=
  match F f0 a0 with
  | inl m => ([(f0, a0)], inl m)
  | inr (r1, f1, a1) =>
      match is_auto_kw (lookup "height" f1) with
      | inl m => ([(f0, a0)], inl m)
      | inr true => ([(f0, a0)], inr (r1, f1, a1))
      | inr false => clamp F (restore "margin_top" "margin_bottom" None f0) "height" "max_height" "min_height"
                           (r1, f1, a1) [(f0, a0)]
      end
  end.
Definition wrap_width (F : oracle) (f0 : fields) (a0 : list val) : string + answer := snd (wrap_width_full F f0 a0).
Definition wrap_height (F : oracle) (f0 : fields) (a0 : list val) : string + answer := snd (wrap_height_full F f0 a0).

(* how an oracle appears to the interpreter: the value of the call `function(box, args)` *)
Definition enc (r : string + answer) : val :=
  match r with inl m => VErr m | inr (r, f, a) => VList [r; VObj f; VList a] end.
(* the calls of a wrapper body: the decorated function and the builtin getattr *)
Definition wrap_calls (F : oracle) (name : string) (args : list val) : val :=
  if String.eqb name "function" then
    match args with [VObj f; VList a] => enc (F f a) | _ => VErr "TypeError" end
  else if String.eqb name "%getattr" then
    match args with [VObj f; VStr n; d] => getattr_sem f n d | _ => VErr "TypeError" end
  else VErr "NameError".
