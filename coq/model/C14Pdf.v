(* C14 - PDF page boxes.  Hand model of the arithmetic of weasyprint/pdf/__init__.py generate_pdf
   (MediaBox, TrimBox, BleedBox of every page).  Tied to /repo by the stream pdf-render (renders with zoom and
   bleed, page dictionaries read before and after serialisation). *)
From Coq Require Import QArith Qminmax Qabs List Bool.
Import ListNotations.
Open Scope Q_scope.

Definition rect := (Q * Q * Q * Q)%type.     (* the four numbers of a PDF rectangle array, in order *)

(* page = (width, height) in CSS px, bleed = (left, top, right, bottom) in CSS px *)
Definition pdf_boxes (w h bl bt br bb zoom : Q) : rect * rect * rect :=
  let scale := zoom * (3 # 4) in
  let page_width := scale * (w + bl + br) in
  let page_height := scale * (h + bt + bb) in
  let left := - scale * bl in
  let top := - scale * bt in
  let right := left + page_width in
  let bottom := top + page_height in
  let bleed_l := bl * scale in let bleed_t := bt * scale in
  let bleed_r := br * scale in let bleed_b := bb * scale in
  let trim_left := left + bleed_l in
  let trim_top := top + bleed_t in
  let trim_right := right - bleed_r in
  let trim_bottom := bottom - bleed_b in
  ((left, top, right, bottom),
   (trim_left, trim_top, trim_right, trim_bottom),
   (trim_left - Qmin 10 bleed_l, trim_top - Qmin 10 bleed_t,
    trim_right + Qmin 10 bleed_r, trim_bottom + Qmin 10 bleed_b)).

(* where the page and its bleed area are painted, in PDF user space: the content stream starts with
   `1 0 0 -1 0 h*scale cm` (y flipped), so CSS y maps to scale*(h - y): the top bleed lies ABOVE the page *)
Definition painted_bleed_area (w h bl bt br bb zoom : Q) : rect :=
  let scale := zoom * (3 # 4) in
  (- scale * bl, - scale * bb, scale * (w + br), scale * (h + bt)).

Definition rect_near (tol : Q) (x y : rect) : bool :=
  let '(a, b, c, d) := x in let '(a', b', c', d') := y in
  Qle_bool (Qabs (a - a')) tol && Qle_bool (Qabs (b - b')) tol && Qle_bool (Qabs (c - c')) tol
  && Qle_bool (Qabs (d - d')) tol.
Definition rect_inside (tol : Q) (x y : rect) : bool :=      (* x inside y *)
  let '(a, b, c, d) := x in let '(a', b', c', d') := y in
  Qle_bool (a' - tol) a && Qle_bool (b' - tol) b && Qle_bool c (c' + tol) && Qle_bool d (d' + tol).

(* pdf-render: page size, bleeds, zoom, and the implementation's (MediaBox, TrimBox, BleedBox).
   bit 0: model <> implementation; bit 1: the boxes are not what the property demands for left/right/sizes
   (TrimBox = page at scale, nested, BleedBox within 10pt); bit 2: the MediaBox does not cover the painted
   bleed area (top/bottom swapped: known finding pdf-bleed-top-bottom-swapped) *)
Definition pdf_judge (c : (Q * Q) * (Q * Q * Q * Q) * Q * (rect * rect * rect)) : nat :=
  let '((w, h), (bl, bt, br, bb), zoom, (media, trim, bleedbox)) := c in
  let tol := (1 # 100000)%Q in
  let '(m_media, m_trim, m_bleed) := pdf_boxes w h bl bt br bb zoom in
  let scale := (zoom * (3 # 4))%Q in
  let '(ml, mlo, mr, mhi) := media in
  ((if rect_near tol m_media media && rect_near tol m_trim trim && rect_near tol m_bleed bleedbox then 0 else 1) +
   (if rect_near tol trim (0, 0, w * scale, h * scale)%Q
       && rect_inside tol trim bleedbox && rect_inside tol bleedbox media
       && rect_inside tol bleedbox (-10, -10, w * scale + 10, h * scale + 10)%Q
       && Qle_bool (Qabs (ml + bl * scale)) tol && Qle_bool (Qabs (mr - (w + br) * scale)) tol
       && Qle_bool (Qabs ((mhi - mlo) - (h + bt + bb) * scale)) tol
    then 0 else 2) +
   (if rect_inside tol (painted_bleed_area w h bl bt br bb zoom) media then 0 else 4))%nat.
