(* C18 - outline objects: hand model of weasyprint/pdf/anchors.py add_outlines.  Definitions only.

   add_outlines(pdf, bookmarks, parent) walks the bookmark forest; pdf.add_object(outline) is called when an
   item is entered, before its children, so object numbers are handed out in preorder starting at
   len(pdf.objects); the outlines dictionary is added last.  The model first numbers the forest that way
   ([number]) and then builds, for every item, the dictionary the Python code ends up with:
     Prev   = outlines[-1].reference            (previous sibling, if any)
     Next   = set by the following sibling      (outlines[-1]['Next'] = outline.reference)
     First/Last = children_outlines[0] / [-1]   (only when there are children)
     Parent = parent.reference, or the outlines dictionary for top-level items
     Count  = children_count, times -1 when state == 'closed'; children_count = len(children) + the counts of
              the open children (closed children do not add theirs). *)
From Coq Require Import ZArith List Bool.
Import ListNotations.
Open Scope Z_scope.

Inductive otree := ONode (title : Z) (page : nat) (closed : bool) (kids : list otree).
Inductive ntree := NNode (ref : Z) (title : Z) (page : nat) (closed : bool) (kids : list ntree).

Definition nref (t : ntree) : Z := match t with NNode r _ _ _ _ => r end.
Definition nclosed (t : ntree) : bool := match t with NNode _ _ _ c _ => c end.
Definition nkids (t : ntree) : list ntree := match t with NNode _ _ _ _ k => k end.

(* allocation order of pdf.add_object: preorder *)
Fixpoint num_tree (n : Z) (t : otree) : ntree * Z :=
  match t with
  | ONode ti pg cl kids =>
      let '(ks, n') :=
        (fix go (m : Z) (l : list otree) : list ntree * Z :=
           match l with
           | [] => ([], m)
           | k :: r => let '(k', m1) := num_tree m k in let '(r', m2) := go m1 r in (k' :: r', m2)
           end) (n + 1) kids in
      (NNode n ti pg cl ks, n')
  end.
Fixpoint number (n : Z) (f : list otree) : list ntree * Z :=
  match f with
  | [] => ([], n)
  | k :: r => let '(k', m1) := num_tree n k in let '(r', m2) := number m1 r in (k' :: r', m2)
  end.

Record oobj := mkobj { o_num : Z; o_title : Z; o_dest : Z; o_count : Z;
                       o_parent : option Z; o_prev : option Z; o_next : option Z;
                       o_first : option Z; o_last : option Z }.

Definition hd_ref (l : list ntree) : option Z := match l with [] => None | t :: _ => Some (nref t) end.
Fixpoint last_ref (l : list ntree) : option Z :=
  match l with [] => None | [t] => Some (nref t) | _ :: r => last_ref r end.

(* the `count` returned by add_outlines for a list of bookmarks *)
Fixpoint ncount_tree (t : ntree) : Z :=   (* = children_count of t *)
  match t with
  | NNode _ _ _ _ ks =>
      (fix go (l : list ntree) : Z :=
         match l with
         | [] => 0
         | k :: r => 1 + (if nclosed k then 0 else ncount_tree k) + go r
         end) ks
  end.
Fixpoint ncount (f : list ntree) : Z :=
  match f with [] => 0 | k :: r => 1 + (if nclosed k then 0 else ncount_tree k) + ncount r end.

Section Objs.
Variable pages : list Z.     (* pdf.page_references: object numbers of the pages *)

Fixpoint objs_tree (parent : Z) (prev next : option Z) (t : ntree) : list oobj :=
  match t with
  | NNode r ti pg cl ks =>
      let c := ncount_tree t in
      mkobj r ti (nth pg pages (-1)) (if cl then c * -1 else c) (Some parent) prev next (hd_ref ks) (last_ref ks)
      :: (fix go (pv : option Z) (l : list ntree) : list oobj :=
            match l with
            | [] => []
            | k :: rest => objs_tree r pv (hd_ref rest) k ++ go (Some (nref k)) rest
            end) None ks
  end.
Fixpoint objs_forest (parent : Z) (pv : option Z) (l : list ntree) : list oobj :=
  match l with
  | [] => []
  | k :: rest => objs_tree parent pv (hd_ref rest) k ++ objs_forest parent (Some (nref k)) rest
  end.
End Objs.

Fixpoint pages_ok (npages : nat) (t : otree) : bool :=
  match t with
  | ONode _ pg _ kids => Nat.ltb pg npages && forallb (pages_ok npages) kids
  end.

(* root dictionary: (number, Count, First, Last) *)
Definition rootdict := (Z * Z * option Z * option Z)%type.

(* add_outlines(pdf, bookmarks) with len(pdf.objects) = n0: the outline objects in allocation order and the
   outlines dictionary (None when there is no bookmark: the catalog then gets no /Outlines).
   Outer None: pdf.page_references[page] raises IndexError. *)
Definition add_outlines_model (pages : list Z) (n0 : Z) (f : list otree) : option (list oobj * option rootdict) :=
  if forallb (pages_ok (length pages)) f then
    let '(nf, n1) := number n0 f in
    match nf with
    | [] => Some ([], None)
    | _ => Some (objs_forest pages n1 None nf, Some (n1, ncount nf, hd_ref nf, last_ref nf))
    end
  else None.

(* ---- specification ---- *)
(* ISO 32000-1 12.3.3, Table 153: Count of an open item = number of its visible descendants; of a closed item =
   minus the number of descendants that would be visible if it were reopened.  A descendant is visible (once
   the item itself is open) iff every item strictly between them is open. *)
Fixpoint between_flags (t : ntree) : list (list bool) :=   (* per proper descendant: closed flags in between *)
  match t with
  | NNode _ _ _ _ ks =>
      (fix go (l : list ntree) : list (list bool) :=
         match l with
         | [] => []
         | k :: r => ([] :: map (cons (nclosed k)) (between_flags k)) ++ go r
         end) ks
  end.
Definition visible_desc (t : ntree) : Z :=
  Z.of_nat (length (filter (forallb negb) (between_flags t))).
Definition count_spec (t : ntree) : Z := if nclosed t then - visible_desc t else visible_desc t.
(* outlines dictionary: total number of visible items at all levels *)
Fixpoint between_flags_forest (f : list ntree) : list (list bool) :=
  match f with [] => [] | k :: r => ([] :: map (cons (nclosed k)) (between_flags k)) ++ between_flags_forest r end.
Definition visible_total (f : list ntree) : Z :=
  Z.of_nat (length (filter (forallb negb) (between_flags_forest f))).

Definition lookup (objs : list oobj) (r : Z) : option oobj := find (fun o => o_num o =? r) objs.

(* every item's dictionary points to the objects of its parent, neighbouring siblings, first and last child *)
Fixpoint tree_ok (L : Z -> option oobj) (parent : Z) (prev next : option Z) (t : ntree) : Prop :=
  match t with
  | NNode r ti pg cl ks =>
      (exists o, L r = Some o /\ o_num o = r /\ o_title o = ti /\
                 o_parent o = Some parent /\ o_prev o = prev /\ o_next o = next /\
                 o_first o = hd_ref ks /\ o_last o = last_ref ks /\ o_count o = count_spec t) /\
      (fix go (pv : option Z) (l : list ntree) : Prop :=
         match l with
         | [] => True
         | k :: rest => tree_ok L r pv (hd_ref rest) k /\ go (Some (nref k)) rest
         end) None ks
  end.
Fixpoint forest_ok (L : Z -> option oobj) (parent : Z) (pv : option Z) (l : list ntree) : Prop :=
  match l with
  | [] => True
  | k :: rest => tree_ok L parent pv (hd_ref rest) k /\ forest_ok L parent (Some (nref k)) rest
  end.

(* ---- judge: the implementation's objects are read back as records; spec evaluated by following the
   implementation's own First/Next pointers (fuel = number of objects + 1) ---- *)
Definition oz_eqb (a b : option Z) : bool :=
  match a, b with None, None => true | Some x, Some y => x =? y | _, _ => false end.
Definition oobj_eqb (a b : oobj) : bool :=
  (o_num a =? o_num b) && (o_title a =? o_title b) && (o_dest a =? o_dest b) && (o_count a =? o_count b) &&
  oz_eqb (o_parent a) (o_parent b) && oz_eqb (o_prev a) (o_prev b) && oz_eqb (o_next a) (o_next b) &&
  oz_eqb (o_first a) (o_first b) && oz_eqb (o_last a) (o_last b).
Fixpoint objs_eqb (a b : list oobj) : bool :=
  match a, b with
  | [], [] => true
  | x :: a', y :: b' => oobj_eqb x y && objs_eqb a' b'
  | _, _ => false
  end.

(* read the sibling list starting at object r (following Next), checking it against the expected items *)
Fixpoint chain_ok (fuel : nat) (pages : list Z) (L : Z -> option oobj) (parent : Z) (prev : option Z)
         (cur : option Z) (f : list otree) : option (Z * option Z) :=
  (* returns Some (visible count of the list, ref of its last item) when consistent *)
  match fuel with
  | O => None
  | S fuel' =>
      match f, cur with
      | [], None => Some (0, prev)
      | ONode ti pg cl kids :: rest, Some r =>
          match L r with
          | None => None
          | Some o =>
              match chain_ok fuel' pages L r None (o_first o) kids with
              | None => None
              | Some (kc, klast) =>
                  if (o_title o =? ti) && (o_dest o =? nth pg pages (-1)) &&
                     oz_eqb (o_parent o) (Some parent) && oz_eqb (o_prev o) prev &&
                     oz_eqb (o_last o) klast &&
                     (o_count o =? (if cl then - kc else kc))
                  then match chain_ok fuel' pages L parent (Some r) (o_next o) rest with
                       | None => None
                       | Some (rc, rlast) => Some (1 + (if cl then 0 else kc) + rc, rlast)
                       end
                  else None
              end
          end
      | _, _ => None
      end
  end.

Fixpoint osize (t : otree) : nat :=
  match t with ONode _ _ _ kids => S (fold_right (fun k a => (osize k + a)%nat) 0%nat kids) end.

Definition outline_spec_b (pages : list Z) (f : list otree) (objs : list oobj) (root : option rootdict) : bool :=
  match f, root with
  | [], None => match objs with [] => true | _ => false end
  | _ :: _, Some (rn, rc, rf, rl) =>
      let fuel := S (S (fold_right (fun k a => (osize k + a)%nat) 0%nat f)) in
      match chain_ok fuel pages (lookup objs) rn None rf f with
      | Some (c, last) => (c =? rc) && oz_eqb rl last && Nat.eqb (length objs) (fold_right (fun k a => (osize k + a)%nat) 0%nat f)
      | None => false
      end
  | _, _ => false
  end.

(* case: (page refs, n0, forest, implementation objects sorted by number, root dict)
   bit 0: model <> implementation ; bit 1: implementation objects violate the specification *)
Definition outline_judge (c : list Z * Z * list otree * list oobj * option rootdict) : nat :=
  let '(pages, n0, f, objs, root) := c in
  ((match add_outlines_model pages n0 f with
    | Some (mo, mr) =>
        if objs_eqb mo objs &&
           match mr, root with
           | None, None => true
           | Some (a, b, c1, d), Some (a', b', c', d') => ((a =? a') && (b =? b'))%Z && oz_eqb c1 c' && oz_eqb d d'
           | _, _ => false
           end then 0 else 1
    | None => 1
    end) +
   (if outline_spec_b pages f objs root then 0 else 2))%nat.
