(* C10 - model of the column part of weasyprint/layout/preferred.py: table_and_columns_preferred_widths
   (hand model, tied by correspondence): intermediate widths for span 1, constrainedness, the clamp of the
   intrinsic percentages, and the loop "Max- and min-content widths for span > 1" which calls
   distribute_excess_width with column_slice = slice(grid_x, grid_x + colspan).
   Inputs (oracles): the min/max-content widths of the individual cells, columns and column groups.
   Not modelled: percentage widths on cells with colspan > 1 (the harness does not send such tables here). *)
From Coq Require Import QArith Qminmax List Bool Arith.
Require Import WV.model.C10Distribute WV.model.C10Layout.
Import ListNotations.
Open Scope Q_scope.

(* what a column group, a column or a cell of span 1 contributes to its column *)
Record contrib := mkcontrib { k_min : Q; k_max : Q; k_pct : Q; k_cons : bool }.
(* a cell with colspan > 1: grid_x, colspan, min-content and max-content widths (outer) *)
Record scell := mkscell { s_gx : nat; s_span : nat; s_min : Q; s_max : Q }.
(* state of one column *)
Record pcol := mkpcol { p_cons : bool; p_pct : Q; p_min : Q; p_max : Q }.

(* "Intermediate content widths for span 1" + "Define constrainedness": max(...) starting from 0, any(...) *)
Definition base_col (cs : list contrib) : pcol :=
  mkpcol (existsb k_cons cs)
         (fold_left (fun a c => Qmax a (k_pct c)) cs 0)
         (fold_left (fun a c => Qmax a (k_min c)) cs 0)
         (fold_left (fun a c => Qmax a (k_max c)) cs 0).

(* intrinsic_percentages = [min(p, 100 - sum(intrinsic_percentages[:i])) for i, p in enumerate(...)]:
   the sum is over the list BEFORE the clamp (the comprehension reads the old list) *)
Fixpoint clamp_pcts (before : Q) (st : list pcol) : list pcol :=
  match st with
  | [] => []
  | p :: r => mkpcol (p_cons p) (Qmin (p_pct p) (100 - before)) (p_min p) (p_max p) :: clamp_pcts (before + p_pct p) r
  end.

Definition qslice (a b : nat) (l : list Q) : list Q := firstn (b - a) (skipn a l).

Definition set_mins (st : list pcol) (ws : list Q) : list pcol :=
  map (fun pw => mkpcol (p_cons (fst pw)) (p_pct (fst pw)) (snd pw) (p_max (fst pw))) (combine st ws).
Definition set_maxs (st : list pcol) (ws : list Q) : list pcol :=
  map (fun pw => mkpcol (p_cons (fst pw)) (p_pct (fst pw)) (p_min (fst pw)) (snd pw)) (combine st ws).
(* the arguments of the two calls: widths = min-content list, then widths = max-content list (aliased) *)
Definition cols_for_min (st : list pcol) : list col :=
  map (fun p => mkcol true (p_cons p) (p_pct p) (p_max p) (p_min p)) st.
Definition cols_for_max (st : list pcol) : list col :=
  map (fun p => mkcol true (p_cons p) (p_pct p) (p_max p) (p_max p)) st.

(* one iteration of `for cell in colspan_cells`; h = horizontal border spacing (0 in the collapsing model) *)
Definition colspan_step (h : Q) (c : scell) (st : list pcol) : option (list pcol) :=
  let a := s_gx c in
  let b := (s_gx c + s_span c)%nat in
  let spacing := (qnat (s_span c) - 1) * h in
  let smin := qsum (qslice a b (map p_min st)) in
  let smax := qsum (qslice a b (map p_max st)) in
  let st1 :=
    if Qlt_bool (smin + spacing) (s_min c)
    then match dist_slice a b (s_min c - (smin + spacing)) (cols_for_min st) with
         | Some ws => Some (set_mins st ws)
         | None => None
         end
    else Some st in
  match st1 with
  | None => None
  | Some st1 =>
    if Qlt_bool (smax + spacing) (s_max c)
    then match dist_slice a b (s_max c - (smax + spacing)) (cols_for_max st1) with
         | Some ws => Some (set_maxs st1 ws)
         | None => None
         end
    else Some st1
  end.

Fixpoint colspan_loop (h : Q) (cells : list scell) (st : list pcol) : option (list pcol) :=
  match cells with
  | [] => Some st
  | c :: r => match colspan_step h c st with Some st1 => colspan_loop h r st1 | None => None end
  end.

(* after the loop: max_content_widths = [max(max_content, min_content) for ... in zip(...)] *)
Definition order_min_max (st : list pcol) : list pcol :=
  map (fun p => mkpcol (p_cons p) (p_pct p) (p_min p) (Qmax (p_max p) (p_min p))) st.

(* columns: contributions per column (grid order); cells: the colspan cells in the order of the source
   (by originating column, then by row) *)
Definition preferred_columns (h : Q) (columns : list (list contrib)) (cells : list scell) : option (list pcol) :=
  match colspan_loop h cells (clamp_pcts 0 (map base_col columns)) with
  | Some st => Some (order_min_max st)
  | None => None
  end.

(* ---- judge ----
   case: h, columns, cells, implementation's (min, max, pct, constrained) lists.
   bit 0: model <> implementation; bit 1: the spec fails on the implementation's lists: every colspan cell that
   lies inside the grid fits in the columns it spans plus the spacings between them (min and max), every column has
   min <= max, nothing is negative. *)
Definition cell_fits_b (tol h : Q) (mins maxs : list Q) (c : scell) : bool :=
  let a := s_gx c in
  let b := (s_gx c + s_span c)%nat in
  let spacing := (qnat (s_span c) - 1) * h in
  negb ((1 <=? s_span c)%nat && (b <=? length mins)%nat) ||
  (leq tol (s_min c) (qsum (qslice a b mins) + spacing) && leq tol (s_max c) (qsum (qslice a b maxs) + spacing)).

Definition pref_spec_b (tol h : Q) (cells : list scell) (mins maxs : list Q) : bool :=
  forallb (cell_fits_b tol h mins maxs) cells &&
  forallb (fun w => leq tol 0 w) mins && forallb (fun w => leq tol 0 w) maxs &&
  Nat.eqb (length mins) (length maxs) && forallb (fun p => leq tol (fst p) (snd p)) (combine mins maxs).

Fixpoint blist_eqb (a b : list bool) : bool :=
  match a, b with
  | [], [] => true
  | x :: a', y :: b' => Bool.eqb x y && blist_eqb a' b'
  | _, _ => false
  end.

Definition pref_case := (Q * list (list contrib) * list scell * (list Q * list Q * list Q * list bool))%type.
Definition pref_judge_tol (tol : Q) (c : pref_case) : nat :=
  let '(h, columns, cells, (mins, maxs, pcts, consl)) := c in
  ((match preferred_columns h columns cells with
    | Some st => if qlist_close tol (map p_min st) mins && qlist_close tol (map p_max st) maxs &&
                    qlist_close tol (map p_pct st) pcts && blist_eqb (map p_cons st) consl then 0 else 1
    | None => 1
    end) +
   (if pref_spec_b tol h cells mins maxs then 0 else 2))%nat.
Definition pref_judge := pref_judge_tol 0.
Definition pref_judge_r := pref_judge_tol tolr.
