(* C14 - page selectors, their specificity and the @page cascade.
   Hand model of weasyprint/css/__init__.py: StyleFor._page_type_match, parse_page_selectors (after
   tokenisation), declaration_precedence, StyleFor.add_page_declarations.  Definitions only; the proofs are in
   proofs/C14_page.v.  Tied to /repo by the streams nth-direct, match-direct, parse-direct, cascade-direct and
   pages-render of harness/p_c14.py. *)
From Coq Require Import ZArith QArith List String Bool.
Import ListNotations.
Open Scope string_scope.
Open Scope Z_scope.

(* ------------------------------------------------------------------------------------------ page types *)
Inductive side := SLeft | SRight.
Definition side_eqb (a b : side) : bool :=
  match a, b with SLeft, SLeft | SRight, SRight => true | _, _ => false end.

(* PageType(side, blank, name, index, groups) of layout/page.py *)
Record page_type := mkPT {
  pt_side : side; pt_blank : bool; pt_name : string; pt_index : Z; pt_groups : list (string * Z) }.

(* PageSelectorType(side, blank, first, index, name); None = Python None *)
Record selector := mkSel {
  s_side : option side; s_blank : option bool; s_first : option bool;
  s_index : option (Z * Z * option string); s_name : option string }.

(* Python: `offset == 0 if a == 0 else (offset / a >= 0 and not offset % a)`.
   `/` is true division (modelled on Q), `%` is floor-mod (sign of the divisor) = Z.modulo. *)
Definition nth_test (a b index : Z) : bool :=
  let offset := index + 1 - b in
  if a =? 0 then offset =? 0
  else Qle_bool 0 (inject_Z offset / inject_Z a) && (offset mod a =? 0).

(* `x not in (None, v)` is false iff x is None or x == v *)
Definition opt_in {A} (eqb : A -> A -> bool) (x : option A) (v : A) : bool :=
  match x with None => true | Some y => eqb y v end.

Definition page_type_match (sel : selector) (pt : page_type) : bool :=
  if negb (opt_in side_eqb (s_side sel) (pt_side pt)) then false else
  if negb (opt_in Bool.eqb (s_blank sel) (pt_blank pt)) then false else
  if negb (opt_in Bool.eqb (s_first sel) (pt_index pt =? 0)) then false else
  if negb (opt_in String.eqb (s_name sel) (pt_name pt)) then false else
  match s_index sel with
  | None => true
  | Some (a, b, None) => nth_test a b (pt_index pt)
  | Some (a, b, Some g) =>
      if negb (String.eqb g (pt_name pt)) then false
      else existsb (fun gi => String.eqb g (fst gi) && nth_test a b (snd gi)) (pt_groups pt)
  end.

(* ------------------------------------------------------------------------- specification of matching *)
(* css-page-3 / css-gcpm-3: :nth(an+b) matches the page whose 1-based number is a*n+b for some n >= 0 *)
Definition nth_spec (a b index : Z) : Prop := exists n, 0 <= n /\ index + 1 = a * n + b.

Definition match_spec (sel : selector) (pt : page_type) : Prop :=
  (forall s, s_side sel = Some s -> s = pt_side pt) /\
  (forall bl, s_blank sel = Some bl -> bl = pt_blank pt) /\
  (forall f, s_first sel = Some f -> (f = true <-> pt_index pt = 0)) /\
  (forall n, s_name sel = Some n -> n = pt_name pt) /\
  (forall a b, s_index sel = Some (a, b, None) -> nth_spec a b (pt_index pt)) /\
  (forall a b g, s_index sel = Some (a, b, Some g) ->
     g = pt_name pt /\ exists gi, In (g, gi) (pt_groups pt) /\ nth_spec a b gi).

(* --------------------------------------------------------------- parse_page_selectors after tokenising *)
Inductive pseudo := PLeft | PRight | PBlank | PFirst | PNth (a b : Z) (g : option string).

Definition spec3 := (Z * Z * Z)%type.

Definition empty_sel : selector := mkSel None None None None None.

(* one iteration of the inner `while tokens:` loop for a ":xxx" item; None = `return None` *)
Definition parse_pseudo (acc : selector * spec3) (p : pseudo) : option (selector * spec3) :=
  let '(sel, (f, g, h)) := acc in
  match p with
  | PLeft | PRight =>
      let sd := match p with PLeft => SLeft | _ => SRight end in
      match s_side sel with
      | Some old => if side_eqb old sd
                    then Some (mkSel (Some sd) (s_blank sel) (s_first sel) (s_index sel) (s_name sel), (f, g, h + 1))
                    else None
      | None => Some (mkSel (Some sd) (s_blank sel) (s_first sel) (s_index sel) (s_name sel), (f, g, h + 1))
      end
  | PBlank => Some (mkSel (s_side sel) (Some true) (s_first sel) (s_index sel) (s_name sel), (f, g + 1, h))
  | PFirst => Some (mkSel (s_side sel) (s_blank sel) (Some true) (s_index sel) (s_name sel), (f, g + 1, h))
  | PNth a b grp =>
      Some (mkSel (s_side sel) (s_blank sel) (s_first sel) (Some (a, b, grp)) (s_name sel),
            (match grp with Some _ => f + 1 | None => f end, g + 1, h))
  end.

Fixpoint parse_pseudos (acc : selector * spec3) (ps : list pseudo) : option (selector * spec3) :=
  match ps with
  | [] => Some acc
  | p :: rest => match parse_pseudo acc p with None => None | Some acc' => parse_pseudos acc' rest end
  end.

(* one comma-separated page selector: optional name then pseudo-classes *)
Definition parse_selector (name : option string) (ps : list pseudo) : option (selector * spec3) :=
  parse_pseudos (mkSel None None None None name, (match name with Some _ => 1 | None => 0 end, 0, 0)) ps.

(* what css-page-3 (page selector specificity) counts *)
Definition count_named (name : option string) (ps : list pseudo) : Z :=
  (match name with Some _ => 1 | None => 0 end) +
  Z.of_nat (List.length (filter (fun p => match p with PNth _ _ (Some _) => true | _ => false end) ps)).
Definition count_first_blank_nth (ps : list pseudo) : Z :=
  Z.of_nat (List.length (filter (fun p => match p with PBlank | PFirst | PNth _ _ _ => true | _ => false end) ps)).
Definition count_left_right (ps : list pseudo) : Z :=
  Z.of_nat (List.length (filter (fun p => match p with PLeft | PRight => true | _ => false end) ps)).

(* ---------------------------------------------------------------------------------------- the cascade *)
Inductive origin := UA | User | Author.

(* declaration_precedence(origin, importance) *)
Definition precedence (o : origin) (important : bool) : Z :=
  match o, important with
  | UA, _ => 1
  | User, false => 2
  | Author, false => 3
  | Author, true => 4
  | User, true => 5
  end.

Definition weight := (Z * spec3)%type.

(* Python tuple / list comparison: lexicographic *)
Definition spec_leb (x y : spec3) : bool :=
  let '(a1, b1, c1) := x in let '(a2, b2, c2) := y in
  if a1 <? a2 then true else if a2 <? a1 then false else
  if b1 <? b2 then true else if b2 <? b1 then false else c1 <=? c2.
Definition weight_leb (x y : weight) : bool :=
  if fst x <? fst y then true else if fst y <? fst x then false else spec_leb (snd x) (snd y).

(* `if old_weight is None or old_weight <= weight: style[name] = values, weight` for one property *)
Definition cascade_step {V W} (leb : W -> W -> bool) (acc : option (V * W)) (d : V * W) : option (V * W) :=
  match acc with
  | None => Some d
  | Some (_, ow) => if leb ow (snd d) then Some d else acc
  end.
Definition cascade_from {V W} (leb : W -> W -> bool) (init : option (V * W)) (l : list (V * W)) : option (V * W) :=
  fold_left (cascade_step leb) l init.
Definition cascade {V W} (leb : W -> W -> bool) (l : list (V * W)) : option (V * W) := cascade_from leb None l.

(* the dictionary self._cascaded_styles[(page_type, pseudo_type)][name] = (values, weight), for one page type:
   key = (pseudo_type, property name) *)
Definition key := (option string * string)%type.
Definition key_eqb (x y : key) : bool :=
  (match fst x, fst y with None, None => true | Some a, Some b => String.eqb a b | _, _ => false end)
  && String.eqb (snd x) (snd y).
Definition store := list (key * (Z * weight)).
Fixpoint lookup_key (k : key) (st : store) : option (Z * weight) :=
  match st with [] => None | (k', v) :: r => if key_eqb k k' then Some v else lookup_key k r end.
Fixpoint set_key (k : key) (v : Z * weight) (st : store) : store :=
  match st with
  | [] => [(k, v)]
  | (k', v') :: r => if key_eqb k k' then (k', v) :: r else (k', v') :: set_key k v r
  end.

Definition store_step (st : store) (e : key * (Z * weight)) : store :=
  let '(k, d) := e in
  match cascade_step weight_leb (lookup_key k st) d with
  | Some w => set_key k w st
  | None => st
  end.

(* a declaration: property name, value (an identifier of the parsed value), importance *)
Definition decl := (string * Z * bool)%type.
(* sheet.page_rules entry: (rule, selector_list, declarations); selector = (specificity, pseudo_type, selector) *)
Definition prule := (list (spec3 * option string * selector) * list decl)%type.
(* (sheet, origin, sheet_specificity) *)
Definition sheet := (list prule * origin * option spec3)%type.

(* the stream of (key, value, weight) updates that add_page_declarations performs, in order *)
Definition decl_updates (o : origin) (sp : spec3) (pseudo_type : option string) (ds : list decl)
  : list (key * (Z * weight)) :=
  map (fun d : decl => let '(name, v, imp) := d in ((pseudo_type, name), (v, (precedence o imp, sp)))) ds.
Definition rule_updates (o : origin) (ss : option spec3) (pt : page_type) (r : prule) : list (key * (Z * weight)) :=
  flat_map (fun s : spec3 * option string * selector =>
              let '(sp, pseudo_type, sel) := s in
              if page_type_match sel pt
              then decl_updates o (match ss with Some x => x | None => sp end) pseudo_type (snd r)
              else []) (fst r).
Definition sheet_updates (pt : page_type) (sh : sheet) : list (key * (Z * weight)) :=
  let '(rules, o, ss) := sh in flat_map (rule_updates o ss pt) rules.
Definition page_updates (sheets : list sheet) (pt : page_type) : list (key * (Z * weight)) :=
  flat_map (sheet_updates pt) sheets.

(* add_page_declarations(page_type) starting from the store `st` (nested loops, as the code) *)
Definition add_page_declarations (sheets : list sheet) (pt : page_type) (st : store) : store :=
  fold_left (fun st1 (sh : sheet) =>
    let '(rules, o, ss) := sh in
    fold_left (fun st2 (r : prule) =>
      fold_left (fun st3 (s : spec3 * option string * selector) =>
        let '(sp, pseudo_type, sel) := s in
        if page_type_match sel pt
        then fold_left store_step (decl_updates o (match ss with Some x => x | None => sp end) pseudo_type (snd r)) st3
        else st3) (fst r) st2) rules st1) sheets st.

(* the updates that concern one key *)
Definition for_key (k : key) (ups : list (key * (Z * weight))) : list (Z * weight) :=
  map snd (filter (fun e => key_eqb k (fst e)) ups).

(* ------------------------------------------------------------------------------------------- judges *)
(* bit 0: model <> implementation *)
Definition nth_judge (c : Z * Z * Z * bool) : nat :=
  let '(a, b, i, out) := c in if Bool.eqb (nth_test a b i) out then 0%nat else 1%nat.

(* bit 1: the implementation's answer contradicts the specification, decided by bounded search:
   index+1 = a*n+b with n >= 0 has a solution iff one exists with n <= |index+1-b| *)
Definition nth_spec_b (a b i : Z) : bool :=
  let off := i + 1 - b in
  existsb (fun n => a * Z.of_nat n + b =? i + 1) (seq 0 (S (Z.abs_nat off))).
Definition nth_judge2 (c : Z * Z * Z * bool) : nat :=
  let '(a, b, i, out) := c in
  ((if Bool.eqb (nth_test a b i) out then 0 else 1) + (if Bool.eqb (nth_spec_b a b i) out then 0 else 2))%nat.

(* decidable rendition of match_spec, written from the selector's meaning (bounded search for the :nth clause,
   never calling nth_test); proofs/C14_page.v: match_spec_b_correct *)
Definition match_spec_b (sel : selector) (pt : page_type) : bool :=
  match s_side sel with Some s => side_eqb s (pt_side pt) | None => true end &&
  match s_blank sel with Some b => Bool.eqb b (pt_blank pt) | None => true end &&
  match s_first sel with Some f => Bool.eqb f (pt_index pt =? 0) | None => true end &&
  match s_name sel with Some n => String.eqb n (pt_name pt) | None => true end &&
  match s_index sel with
  | None => true
  | Some (a, b, None) => nth_spec_b a b (pt_index pt)
  | Some (a, b, Some g) =>
      String.eqb g (pt_name pt) &&
      existsb (fun gi => String.eqb g (fst gi) && nth_spec_b a b (snd gi)) (pt_groups pt)
  end.

(* bit 0: model <> implementation; bit 1: the implementation's answer contradicts the specification *)
Definition match_judge (c : selector * page_type * bool) : nat :=
  let '(sel, pt, out) := c in
  ((if Bool.eqb (page_type_match sel pt) out then 0 else 1) + (if Bool.eqb (match_spec_b sel pt) out then 0 else 2))%nat.

(* groups-render: the @page :nth(a n + b of name) rules of the document in source order with the margin-top
   each one sets, the margin-top of `@page name` rules (name, value), the default; for one page: its name and its
   1-based position in its page group as css-gcpm defines it (computed by the harness from the document, not
   from the implementation's page type), the page type the implementation built, and the used margin-top.
   bit 0: cascade model on the implementation's page type <> used value; bit 1: used value <> what the
   selectors' meaning gives (last matching :nth rule, else the named rule, else the default) *)
Definition group_rule := (Z * Z * string * Z)%type.
Fixpoint last_match (rules : list group_rule) (name : string) (pos : option Z) (acc : option Z) : option Z :=
  match rules with
  | [] => acc
  | (a, b, g, v) :: r =>
      let m := match pos with
               | Some p => String.eqb g name && nth_spec_b a b (p - 1)
               | None => false
               end in
      last_match r name pos (if m then Some v else acc)
  end.
Definition groups_expected (rules : list group_rule) (named : list (string * Z)) (default : Z)
           (name : string) (pos : option Z) : Z :=
  match last_match rules name pos None with
  | Some v => v
  | None => match find (fun nv => String.eqb (fst nv) name) named with Some (_, v) => v | None => default end
  end.
Fixpoint last_match_model (rules : list group_rule) (pt : page_type) (acc : option Z) : option Z :=
  match rules with
  | [] => acc
  | (a, b, g, v) :: r =>
      last_match_model r pt (if page_type_match (mkSel None None None (Some (a, b, Some g)) None) pt then Some v else acc)
  end.
Definition groups_judge
  (c : list group_rule * list (string * Z) * Z * (string * option Z) * page_type * Z) : nat :=
  let '(rules, named, default, (name, pos), pt, out) := c in
  let m := match last_match_model rules pt None with
           | Some v => v
           | None => match find (fun nv => String.eqb (fst nv) (pt_name pt)) named with Some (_, v) => v | None => default end
           end in
  ((if Z.eqb m out then 0 else 1) + (if Z.eqb (groups_expected rules named default name pos) out then 0 else 2))%nat.

Definition osel_eqb (x y : option side) : bool :=
  match x, y with None, None => true | Some a, Some b => side_eqb a b | _, _ => false end.
Definition obool_eqb (x y : option bool) : bool :=
  match x, y with None, None => true | Some a, Some b => Bool.eqb a b | _, _ => false end.
Definition ostr_eqb (x y : option string) : bool :=
  match x, y with None, None => true | Some a, Some b => String.eqb a b | _, _ => false end.
Definition oidx_eqb (x y : option (Z * Z * option string)) : bool :=
  match x, y with
  | None, None => true
  | Some (a, b, g), Some (a', b', g') => (a =? a') && (b =? b') && ostr_eqb g g'
  | _, _ => false
  end.
Definition sel_eqb (x y : selector) : bool :=
  osel_eqb (s_side x) (s_side y) && obool_eqb (s_blank x) (s_blank y) && obool_eqb (s_first x) (s_first y)
  && oidx_eqb (s_index x) (s_index y) && ostr_eqb (s_name x) (s_name y).
Definition spec_eqb (x y : spec3) : bool :=
  let '(a, b, c) := x in let '(a', b', c') := y in (a =? a') && (b =? b') && (c =? c').

(* parse-direct: abstract selector, and what parse_page_selectors returned for its text (None = rejected) *)
Definition parse_judge (c : option string * list pseudo * option (selector * spec3)) : nat :=
  let '(name, ps, out) := c in
  let m := parse_selector name ps in
  ((match m, out with
    | None, None => 0
    | Some (s, sp), Some (s', sp') => if sel_eqb s s' && spec_eqb sp sp' then 0 else 1
    | _, _ => 1
    end) +
   (match out with
    | Some (_, sp') =>
        if spec_eqb sp' (count_named name ps, count_first_blank_nth ps, count_left_right ps) then 0 else 2
    | None => 0
    end))%nat.

Definition weight_eqb (x y : weight) : bool := (fst x =? fst y) && spec_eqb (snd x) (snd y).
Definition entry_eqb (x y : option (Z * weight)) : bool :=
  match x, y with
  | None, None => true
  | Some (v, w), Some (v', w') => (v =? v') && weight_eqb w w'
  | _, _ => false
  end.

(* the winner demanded by the cascade (css-cascade: origin and importance, then specificity, then order),
   computed independently of the fold: the last element whose weight is maximal *)
Fixpoint max_weight (l : list (Z * weight)) : option weight :=
  match l with
  | [] => None
  | (_, w) :: r => match max_weight r with
                   | None => Some w
                   | Some m => if weight_leb m w then Some w else Some m
                   end
  end.
Fixpoint last_with (w : weight) (l : list (Z * weight)) : option (Z * weight) :=
  match l with
  | [] => None
  | (v, w') :: r => match last_with w r with
                    | Some x => Some x
                    | None => if weight_leb w w' && weight_leb w' w then Some (v, w') else None
                    end
  end.
Definition winner_spec (l : list (Z * weight)) : option (Z * weight) :=
  match max_weight l with None => None | Some w => last_with w l end.

(* cascade-direct: sheets, page type, the dictionary the real add_page_declarations built from an empty one *)
Definition cascade_judge (c : list sheet * page_type * list (key * (Z * weight))) : nat :=
  let '(sheets, pt, out) := c in
  let st := add_page_declarations sheets pt [] in
  let ups := page_updates sheets pt in
  ((if Nat.eqb (List.length st) (List.length out)
       && forallb (fun e => entry_eqb (lookup_key (fst e) st) (Some (snd e))) out then 0 else 1) +
   (if forallb (fun e => entry_eqb (winner_spec (for_key (fst e) ups)) (Some (snd e))) out
       && forallb (fun e => match lookup_key (fst e) out with Some _ => true | None => false end) ups
    then 0 else 2))%nat.
