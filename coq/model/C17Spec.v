(* C17 - the specification side: CSS 2.1 Appendix E (elaborate description of stacking contexts) written over the
   *input* box tree, without any of the bookkeeping of stacking.py.  Definitions only.

   Which boxes form a stacking context (CSS 2.1 9.9.1 + css-color opacity + css-transforms; WeasyPrint also
   lets overflow != visible form one, which is kept here and reported as a deviation):
     positioned with z-index != auto | grid item with z-index != auto | opacity < 1 | transform | overflow.
   z-index applies to positioned boxes, grid items and flex items only (9.9.1 "Applies to: positioned elements",
   css-grid 6.4, css-flexbox 4.3).

   Appendix E, for a box that forms (or is treated as forming) a stacking context:
     1-2  its own background and borders
     3    child stacking contexts with negative z-index, most negative first, then tree order
     4    in-flow, non-inline-level, non-positioned descendants: backgrounds and borders in tree order
          (a table paints table, row group, row, cell backgrounds, then the borders)
     5    non-positioned floats in tree order, each painted as if it formed a context of its own, except that
          positioned descendants and real child contexts take part in the parent context
     6-7  inline content: for an inline root its own boxes; then the line boxes of the block containers of
          step 4 (and cells) in tree order; inline-blocks are painted atomically in place like floats
     8    positioned descendants and child contexts with z-index auto / 0 in tree order
     9    child stacking contexts with positive z-index, smallest first, then tree order
     10   outlines. *)
From Coq Require Import ZArith List Bool.
Require Import WV.model.C17Stacking.
Import ListNotations.
Open Scope Z_scope.

Definition positioned (i : info) : bool := negb (static i).
Definition creates_ctx (i : info) : bool :=
  (positioned i && has_z i) || (git i && has_z i) || opa i || trf i || ovf i.
Definition z_applies (i : info) : bool := positioned i || git i || fit i.   (* positioned boxes, grid and flex items *)
Definition zkey (b : box) : Z := if z_applies (binfo b) then z_of (binfo b) else 0.

(* how a box takes part in the painting of the context it lives in *)
Definition out_of_flow (i : info) : bool := creates_ctx i || positioned i || flt i.
Definition is_float (i : info) : bool := negb (creates_ctx i) && negb (positioned i) && flt i.
Definition atomic (i : info) : bool := negb (out_of_flow i) && stacking_class (knd i).   (* inline-block &c. *)
Definition in_flow (i : info) : bool := negb (out_of_flow i) && negb (stacking_class (knd i)).

Fixpoint height (b : box) : nat :=
  match b with Box _ kids => S (fold_right (fun k m => Nat.max (height k) m) O kids) end.
Fixpoint preorder (b : box) : list box :=
  match b with Box _ kids => b :: flat_map preorder kids end.
Definition ids (b : box) : list Z := map (fun x => bid (binfo x)) (preorder b).

Definition kids_of (b : box) : list box := if is_parent (knd (binfo b)) then bkids b else [].

(* the child contexts a subtree hands to the enclosing stacking context, in tree order: a context-forming box
   is one (and hides its descendants); a positioned box is one, followed by what its descendants hand up *)
Fixpoint parts (b : box) : list box :=
  match b with
  | Box i kids =>
      if creates_ctx i then [b]
      else (if positioned i then [b] else []) ++ (if is_parent (knd i) then flat_map parts kids else [])
  end.
(* in-flow block-level descendants (step 4), floats (step 5), block containers with line boxes (step 7):
   not looking inside out-of-flow boxes and inline-blocks *)
Fixpoint flow_blocks (b : box) : list box :=
  match b with
  | Box i kids =>
      if in_flow i then (if block_level (knd i) then [b] else []) ++
                        (if is_parent (knd i) then flat_map flow_blocks kids else [])
      else []
  end.
Fixpoint flow_floats (b : box) : list box :=
  match b with
  | Box i kids =>
      if in_flow i then (if is_parent (knd i) then flat_map flow_floats kids else [])
      else if is_float i then [b] else []
  end.
Fixpoint flow_containers (b : box) : list box :=
  match b with
  | Box i kids =>
      if in_flow i then (if block_level (knd i) || is_cell (knd i) then [b] else []) ++
                        (if is_parent (knd i) then flat_map flow_containers kids else [])
      else []
  end.

(* children that stay where they are for the painting of their parent *)
Definition stays (b : box) : bool := in_flow (binfo b) || atomic (binfo b).
Definition all_lines (l : list box) : bool :=
  match l with [] => false | _ => forallb (fun k => is_line (knd (binfo k))) l end.

Inductive smode := SPage | SRoot | SCtx | SInline | SBlock | SLines | SOutline.

(* backgrounds (then borders) of the parts of a table, for the in-flow row groups / rows / cells *)
Definition cell_bg (collapse : bool) (c : box) : list event :=
  if negb collapse && hid (binfo c) then [] else [EPaint (bid (binfo c)) LBg].
Definition row_bgs (collapse : bool) (r : box) : list event :=
  EPaint (bid (binfo r)) LBg :: flat_map (cell_bg collapse) (filter stays (kids_of r)).
Definition group_bgs (collapse : bool) (g : box) : list event :=
  EPaint (bid (binfo g)) LBg :: flat_map (row_bgs collapse) (filter stays (kids_of g)).
Definition cell_border (c : box) : list event :=
  if hid (binfo c) then [] else [EPaint (bid (binfo c)) LBorder].
Definition group_borders (g : box) : list event :=
  flat_map (fun r => flat_map cell_border (filter stays (kids_of r))) (filter stays (kids_of g)).

(* a row group or row that is itself painted as a context: its own background comes first (steps 1-2), then what
   the table would have painted for it: its rows' and cells' backgrounds, then the cells' borders *)
Definition table_part_bgs (b : box) : list event :=
  let st := filter stays (kids_of b) in
  match knd (binfo b) with
  | KRowGroup => flat_map (row_bgs false) st ++
                 flat_map (fun r => flat_map cell_border (filter stays (kids_of r))) st
  | KRow => flat_map (cell_bg false) st ++ flat_map cell_border st
  | _ => []
  end.

(* in the collapsing border model (CSS 2.1 17.6.2) the borders around a cell belong to the table's border phase:
   a cell painted as a context paints its background but no border of its own *)
Definition css_own_border (i : info) : list event :=
  if is_cell (knd i) && col i then [] else [EPaint (bid i) LBorder].

Fixpoint appendix_E (f : nat) (m : smode) (b : box) {struct f} : list event :=
  match f with
  | O => []
  | S f' =>
    let i := binfo b in
    let id := bid i in
    let kids := kids_of b in
    let inline_kids := flat_map (appendix_E f' SInline) (filter stays kids) in
    let lines := if is_replaced (knd i) then [EPaint id LContent]
                 else if all_lines (filter stays kids) then inline_kids else [] in
    match m with
    | SPage | SRoot | SCtx =>
        (* the page box: every child (root element, margin boxes) is a context, nothing else hangs below it *)
        let cm := match m with SPage => SRoot | _ => SCtx end in
        let cs := match m with
                  | SPage => kids
                  | SRoot => flat_map parts kids
                  | _ => if creates_ctx i then flat_map parts kids else []
                  end in
        let kids := match m with SPage => [] | _ => kids end in
        let inline_kids := match m with SPage => [] | _ => inline_kids end in
        let lines := match m with SPage => [] | _ => lines end in
        EOpen id BStack ::
        (if rcl i then [ESet id GRootClip] else []) ++
        (if abspos i && clp i then [ESet id GClipProp] else []) ++
        match tm i with
        | TSingular => [EClose id BStack]
        | _ =>
          (if opa i then [EOpen id BGroup] else []) ++
          (match tm i with TRegular => [ESet id GTransform] | _ => [] end) ++
          (if is_inline (knd i) || is_page (knd i) then [] else EPaint id LBg :: css_own_border i) ++
          table_part_bgs b ++
          EOpen id BInner ::
          (if ovf i && negb (is_page (knd i)) then [ESet id GClip] else []) ++
          flat_map (appendix_E f' cm) (sort_z zkey (filter (fun c => zkey c <? 0) cs)) ++
          flat_map (appendix_E f' SBlock) (flat_map flow_blocks kids) ++
          flat_map (appendix_E f' SCtx) (flat_map flow_floats kids) ++
          (if is_inline (knd i) then EPaint id LBg :: EPaint id LBorder :: inline_kids else []) ++
          lines ++
          flat_map (appendix_E f' SLines) (flat_map flow_containers kids) ++
          flat_map (appendix_E f' cm) (filter (fun c => zkey c =? 0) cs) ++
          flat_map (appendix_E f' cm)
                   (sort_z zkey (filter (fun c => negb (zkey c <? 0) && negb (zkey c =? 0)) cs)) ++
          EClose id BInner ::
          EPaint id LOutline :: flat_map (appendix_E f' SOutline) kids ++
          (if opa i then [EClose id BGroup] else []) ++
          [EClose id BStack]
        end
    | SInline =>
        if atomic i then appendix_E f' SCtx b
        else if in_flow i then
          EPaint id LBg :: EPaint id LBorder ::
          (if is_inline (knd i) || is_line (knd i) then inline_kids else [EPaint id LContent])
        else []
    | SBlock =>
        if is_table (knd i) then
          EPaint id LBg :: flat_map (group_bgs (col i)) (filter stays kids) ++
          (if col i then [EPaint id LBorder]
           else EPaint id LBorder :: flat_map group_borders (filter stays kids))
        else [EPaint id LBg; EPaint id LBorder]
    | SLines => lines
    | SOutline =>
        if in_flow i then EPaint id LOutline :: flat_map (appendix_E f' SOutline) kids else []
    end
  end.

Definition fuel_for (t : box) : nat := 2 * S (height t).
Definition appendix_E_paint (t : box) : list event := appendix_E (fuel_for t) SRoot t.
Definition appendix_E_page (page : box) : list event := appendix_E (fuel_for page) SPage page.

(* ------------------------------------------------------------------------------ well-formed layout trees *)

(* the shape of the trees layout produces, as far as painting depends on it *)
Definition inline_level_kind (k : kind) : bool :=
  match k with KInline | KText | KInlineReplaced => true | _ => false end.
Definition ctx_root_kind (k : kind) : bool := point2_class k || is_inline k || is_page k.

(* boxes painted as contexts are of the classes draw_stacking_context paints *)
Definition wf_ctx_kind (root : bool) (i : info) : bool :=
  negb (root || negb (in_flow i)) || ctx_root_kind (knd i).
(* children that stay in place *)
Definition wf_kids (b : box) : bool :=
  let st := filter stays (kids_of b) in
  match knd (binfo b) with
  | KLine | KInline => forallb (fun c => atomic (binfo c) || inline_level_kind (knd (binfo c))) st
  | KTable => forallb (fun c => match knd (binfo c) with KRowGroup => true | _ => false end) st
  | KRowGroup => forallb (fun c => match knd (binfo c) with KRow => true | _ => false end) st
  | KRow => forallb (fun c => match knd (binfo c) with KCell => true | _ => false end) st
  | KText | KBlockReplaced | KInlineReplaced => match bkids b with [] => true | _ => false end
  | _ => (* block containers: all lines, or no line (and nothing inline-level) *)
      all_lines st ||
      forallb (fun c => negb (is_line (knd (binfo c))) && negb (atomic (binfo c)) &&
                        negb (inline_level_kind (knd (binfo c)))) st
  end.
Definition wf_node (root : bool) (b : box) : bool :=
  wf_ctx_kind root (binfo b) && wf_kids b.

Fixpoint wf_from (root : bool) (b : box) : bool :=
  match b with Box i kids => wf_node root b && forallb (wf_from false) kids end.
Definition wf (b : box) : bool := wf_from true b.
Definition wf_page (page : box) : bool :=
  is_page (knd (binfo page)) &&
  forallb wf (bkids page).

(* no transform with determinant 0 (such a subtree is legitimately not painted at all) *)
Fixpoint regular (b : box) : bool :=
  match b with Box i kids => match tm i with TSingular => false | _ => true end && forallb regular kids end.

(* --------------------------------------------------------------- reading a StackingContext structure *)

(* boxes a node owns: through children, child contexts and float contexts; block_level_boxes and
   blocks_and_cells are aliases of boxes of the tree and are not followed *)
Fixpoint owned (n : pnode) : list Z :=
  match n with
  | PB i kids => bid i :: flat_map owned kids
  | PC i kids neg zero pos_ _ floats _ _ =>
      bid i :: flat_map owned kids ++ flat_map owned neg ++ flat_map owned zero ++ flat_map owned pos_ ++
      flat_map owned floats
  end.
(* the boxes of the "normal" tree below a node, in tree order, not entering nested contexts *)
Fixpoint tree_nodes (n : pnode) : list pnode :=
  match n with
  | PB i kids => n :: (if is_parent (knd i) then flat_map tree_nodes kids else [])
  | PC _ _ _ _ _ _ _ _ _ => []
  end.
(* every StackingContext object of a structure *)
Fixpoint all_ctxs (n : pnode) : list pnode :=
  match n with
  | PB i kids => flat_map all_ctxs kids
  | PC i kids neg zero pos_ _ floats _ _ =>
      n :: flat_map all_ctxs kids ++ flat_map all_ctxs neg ++ flat_map all_ctxs zero ++
      flat_map all_ctxs pos_ ++ flat_map all_ctxs floats
  end.
Definition ctx_children (c : pnode) : list pnode :=
  match c with PC _ _ neg zero pos_ _ _ _ _ => neg ++ zero ++ pos_ | PB _ _ => [] end.
Definition ctx_blocks (c : pnode) : list pnode := match c with PC _ _ _ _ _ b _ _ _ => b | PB _ _ => [] end.
Definition ctx_floats (c : pnode) : list pnode := match c with PC _ _ _ _ _ _ f _ _ => f | PB _ _ => [] end.
Definition ctx_bcs (c : pnode) : list pnode := match c with PC _ _ _ _ _ _ _ b _ => b | PB _ _ => [] end.
Definition ctx_neg (c : pnode) : list pnode := match c with PC _ _ n _ _ _ _ _ _ => n | PB _ _ => [] end.
Definition ctx_zero (c : pnode) : list pnode := match c with PC _ _ _ z _ _ _ _ _ => z | PB _ _ => [] end.
Definition ctx_pos (c : pnode) : list pnode := match c with PC _ _ _ _ p _ _ _ _ => p | PB _ _ => [] end.
Definition ctx_tree (c : pnode) : list pnode :=
  if is_parent (knd (pinfo c)) then flat_map tree_nodes (pkids c) else [].

(* ------------------------------------------------------------ brackets: opacity group, transform, clip *)

Definition event_id (e : event) : Z :=
  match e with EPaint i _ | EOpen i _ | EClose i _ | ESet i _ | EAssert i => i end.

(* q/Q and group brackets are well nested: [bal st l] runs l over a stack of open brackets *)
Fixpoint bal (st : list (Z * bracket)) (l : list event) : option (list (Z * bracket)) :=
  match l with
  | [] => Some st
  | EOpen i b :: r => bal ((i, b) :: st) r
  | EClose i b :: r =>
      match st with
      | (j, c) :: st' => if (i =? j) && bracket_eqb b c then bal st' r else None
      | [] => None
      end
  | _ :: r => bal st r
  end.
Definition balanced (l : list event) : Prop := forall st, bal st l = Some st.

(* every box id that occurs anywhere in a structure (aliases included) *)
Fixpoint mentioned (n : pnode) : list Z :=
  match n with
  | PB i kids => bid i :: flat_map mentioned kids
  | PC i kids neg zero pos_ blocks floats bcs _ =>
      bid i :: flat_map mentioned kids ++ flat_map mentioned neg ++ flat_map mentioned zero ++
      flat_map mentioned pos_ ++ flat_map mentioned blocks ++ flat_map mentioned floats ++
      flat_map mentioned bcs
  end.

(* the pieces of draw_stacking_context(c) for a context whose transform is not singular:
   paint_ctx c = EOpen BStack :: clips ++ group_open ++ transform ++ ctx_inner c ++ group_close ++ [EClose BStack]
   ctx_inner c = own background/border ++ EOpen BInner :: overflow clip ++ ctx_body c ++ EClose BInner :: outlines *)
Definition ctx_body (c : pnode) : list event :=
  match c with
  | PC i kids neg zero pos_ blocks floats bcs _ =>
      let id := bid i in
      flat_map (paint MCtx) neg ++ flat_map (paint MBlock) blocks ++ flat_map (paint MCtx) floats ++
      (if is_inline (knd i) then EPaint id LBg :: EPaint id LBorder :: flat_map (paint MInline) kids else []) ++
      (if is_replaced (knd i) then [EPaint id LContent]
       else if last_is_line kids then flat_map (paint MInline) kids else []) ++
      flat_map (paint MLines) bcs ++ flat_map (paint MCtx) zero ++ flat_map (paint MCtx) pos_
  | PB _ _ => []
  end.
Definition ctx_own_bg (c : pnode) : list event :=
  if point2_class (knd (pinfo c)) then EPaint (pid c) LBg :: own_border (pinfo c) else [].
Definition ctx_clip (c : pnode) : list event :=
  if ovf (pinfo c) && negb (is_page (knd (pinfo c))) then [ESet (pid c) GClip] else [].
Definition ctx_outlines (c : pnode) : list event :=
  EPaint (pid c) LOutline :: flat_map (paint MOutline) (pkids c).
Definition ctx_inner (c : pnode) : list event :=
  ctx_own_bg c ++ EOpen (pid c) BInner :: ctx_clip c ++ ctx_body c ++ EClose (pid c) BInner :: ctx_outlines c.
Definition ctx_pre (c : pnode) : list event :=
  (if rcl (pinfo c) then [ESet (pid c) GRootClip] else []) ++
  (if abspos (pinfo c) && clp (pinfo c) then [ESet (pid c) GClipProp] else []).
Definition group_open (c : pnode) : list event := if opa (pinfo c) then [EOpen (pid c) BGroup] else [].
Definition group_close (c : pnode) : list event := if opa (pinfo c) then [EClose (pid c) BGroup] else [].
Definition transform_set (c : pnode) : list event :=
  match tm (pinfo c) with TRegular => [ESet (pid c) GTransform] | _ => [] end.

(* subsequence (tree order is the order of [preorder]) *)
Inductive subseq {A} : list A -> list A -> Prop :=
| subseq_nil l : subseq [] l
| subseq_skip x l1 l2 : subseq l1 l2 -> subseq l1 (x :: l2)
| subseq_take x l1 l2 : subseq l1 l2 -> subseq (x :: l1) (x :: l2).
