(* C09 - decoding of the cases written by harness/p_c09.py and judges (evaluated by vm_compute). Definitions only. *)
From Coq Require Import ZArith QArith List Bool String Ascii.
Require Import WV.model.C09Line WV.model.C09Spec.
Import ListNotations.
Open Scope Z_scope.

(* texts are written as strings: a-h letters, ' ' space, '/' newline, '-' soft hyphen, '=' hyphen U+2010 *)
Definition ch_of_ascii (a : ascii) : ch :=
  let n := nat_of_ascii a in
  if Nat.eqb n 32 then Sp else if Nat.eqb n 47 then Nl else if Nat.eqb n 45 then Shy
  else if Nat.eqb n 61 then Hy else L (n - 97).
Fixpoint tx (s : string) : text :=
  match s with EmptyString => [] | String a s' => ch_of_ascii a :: tx s' end.

Definition opt_eqb {A} (e : A -> A -> bool) (a b : option A) : bool :=
  match a, b with Some x, Some y => e x y | None, None => true | _, _ => false end.
Definition outcome_eqb (a b : outcome) : bool :=
  match a, b with
  | Out t1 l1 r1 w1, Out t2 l2 r2 w2 => text_eqb t1 t2 && (l1 =? l2) && opt_eqb Z.eqb r1 r2 && Qeq_bool w1 w2
  | Raise _, Raise _ => true
  | _, _ => false
  end.

(* ((white-space 0..4, overflow-wrap 0..2, break-all, hyphens manual, font size), text, max_width, is_line_start,
    minimum, implementation outcome) *)
Definition ws_of (n : nat) : white_space :=
  match n with 0%nat => WsNormal | 1%nat => WsNowrap | 2%nat => WsPre | 3%nat => WsPreWrap | _ => WsPreLine end.
Definition ow_of (n : nat) : overflow_wrap :=
  match n with 0%nat => OwNormal | 1%nat => OwAnywhere | _ => OwBreakWord end.
Definition sfl_case := ((nat * nat * bool * bool * Q) * string * option Q * bool * bool * outcome)%type.
Definition style_of (s : nat * nat * bool * bool * Q) : style :=
  let '(ws, ow, ba, hm, fs) := s in
  {| st_ws := ws_of ws; st_ow := ow_of ow; st_break_all := ba; st_hyph_manual := hm; st_fs := fs |}.

Definition sfl_judge0 (c : sfl_case) : nat :=
  let '(s, t, mw, ils, mini, impl) := c in
  if outcome_eqb (sfl_model (style_of s) (tx t) mw ils mini) impl then 0%nat else 1%nat.

(* bit 0: model differs from the implementation; bits 1-4: spec_mask of the implementation's outcome *)
Definition sfl_judge (c : sfl_case) : nat :=
  let '(s, t, mw, ils, mini, impl) := c in
  (sfl_judge0 c + spec_mask (style_of s) (tx t) mw ils mini impl)%nat.

(* hypothesis G against the raw library: (overflow-wrap normal?, font size, text (already truncated), width,
   wrap-char, (chars, resume, width), attrs as a string of 0/1) *)
Definition bits_of (s : string) : list bool :=
  map (fun a => Nat.eqb (nat_of_ascii a) 49) (list_ascii_of_string s).
Fixpoint bools_eqb (a b : list bool) : bool :=
  match a, b with [], [] => true | x :: a', y :: b' => Bool.eqb x y && bools_eqb a' b' | _, _ => false end.
Definition raw_case := (bool * Q * string * option Q * bool * (nat * option nat * Q) * string)%type.
Definition raw_judge (c : raw_case) : nat :=
  let '(ins, fs, t, w, wc, (l, r, wd), at_) := c in
  let '(l', r', wd') := G fs ins (tx t) w wc in
  ((if Nat.eqb l l' && opt_eqb Nat.eqb r r' && Qeq_bool wd wd' then 0 else 1) +
   (if bools_eqb (Gattrs (tx t)) (bits_of at_) then 0 else 2))%nat.

(* ---------------------------------------------------------------- text_align / justify_line on stub trees *)
Require Import WV.model.C09Align.
Open Scope Q_scope.
Definition align_of (n : nat) : align :=
  match n with 0%nat => AStart | 1%nat => AEnd | 2%nat => ALeft | 3%nat => ARight | 4%nat => ACenter | _ => AJustify end.
Definition align_last_of (n : nat) : align_last := match n with O => LAuto | S k => LSome (align_of k) end.

Fixpoint ibox_eqb (a b : ibox) : bool :=
  match a, b with
  | T n x w j, T n' x' w' j' => Nat.eqb n n' && Qeq_bool x x' && Qeq_bool w w' && Qeq_bool j j'
  | I r x w k, I r' x' w' k' =>
      Bool.eqb r r' && Qeq_bool x x' && Qeq_bool w w' &&
      (fix go (l l' : list ibox) : bool :=
         match l, l' with
         | [], [] => true
         | p :: l1, q :: l2 => ibox_eqb p q && go l1 l2
         | _, _ => false
         end) k k'
  | A x w k, A x' w' k' =>
      Qeq_bool x x' && Qeq_bool w w' &&
      (fix go (l l' : list ibox) : bool :=
         match l, l' with
         | [], [] => true
         | p :: l1, q :: l2 => ibox_eqb p q && go l1 l2
         | _, _ => false
         end) k k'
  | F x w, F x' w' => Qeq_bool x x' && Qeq_bool w w'
  | _, _ => false
  end.

Definition align_case := (nat * nat * bool * bool * bool * Q * ibox * Q * ibox)%type.
Definition align_judge (c : align_case) : nat :=
  let '(a, al, rtl, col, last, avail, line, o_impl, line_impl) := c in
  let w := box_w line in
  let '(o, ex) := text_align w avail (align_of a) (align_last_of al) rtl col last in
  let line' := match ex with Some e => justify_line line e | None => line end in
  let b0 := if Qeq_bool o o_impl && ibox_eqb line' line_impl then 0%nat else 1%nat in
  let b1 := if Qle_bool 0 o_impl && (Qle_bool avail w || Qle_bool (o_impl + w) avail) then 0%nat else 2%nat in
  let justified := match effective_b (align_of a) (align_last_of al) last with AJustify => true | _ => false end
                   && col && negb (Qle_bool avail w) && (0 <? count_spaces line)%nat in
  let b2 := if negb justified || Qeq_bool (box_w line_impl) avail then 0%nat else 4%nat in
  (* bit 3: a box laid out inside an atomic box of the line is no longer inside it after the call *)
  let b3 := if negb (well_nested_b line) || well_nested_b line_impl then 0%nat else 8%nat in
  (b0 + b1 + b2 + b3)%nat.

(* ------------------------------------------------- avoid_collisions on a line box stub between float stubs *)
Require Import WV.model.C09Float.
Definition avoid_case := (list (bool * Q * Q * Q * Q) * Q * Q * bool * Q * Q * Q * (Q * Q * Q))%type.
Definition shape_of (p : bool * Q * Q * Q * Q) : shape :=
  let '(lf, x, y, mw, mh) := p in {| s_left := lf; s_x := x; s_y := y; s_mw := mw; s_mh := mh |}.
(* bit 0: model differs from the implementation; bit 1: (positive heights) the returned interval is not the one
   left by the floats sharing vertical extent with the box at the returned position; bit 2: moved upwards *)
Definition avoid_judge (c : avoid_case) : nat :=
  let '(sh, cbx, cbw, rtl, bw, bh, y, (xi, yi, avi)) := c in
  let shapes := map shape_of sh in
  let b0 := match avoid (S (List.length shapes)) shapes cbx cbw rtl bw bh y with
            | Placed x y' av => if Qeq_bool x xi && Qeq_bool y' yi && Qeq_bool av avi then 0%nat else 1%nat
            | NoFuel => 1%nat
            end in
  let pos := Qlt_bool 0 bh && forallb (fun s => Qlt_bool 0 (s_mh s)) shapes in
  let '(l, r) := spec_interval shapes cbx cbw yi bh in
  let b1 := if negb pos || (Qeq_bool avi (r - l) && Qeq_bool xi (if rtl then r else l)) then 0%nat else 2%nat in
  let b2 := if Qle_bool y yi then 0%nat else 4%nat in
  (b0 + b1 + b2)%nat.
