(* C14 - what a margin box shows: counters, quotes.  Hand model of the part of weasyprint/layout/page.py
   make_margin_boxes / make_box that prepares the content of a generated margin box:
     margin_state = copy.deepcopy(state); counter_scopes.append(set());
     _standardize_page_based_counters(style, at_keyword); build.update_counters(margin_state, box.style);
     build.content_to_boxes(box.style, box, quote_depth, counter_values, ...)
   with build.update_counters generalised from `page` (model/C14Pages.v) to any counter name and the quote part
   of build.compute_content_list.  Every margin box works on ITS OWN COPY of the page's state.  Definitions only;
   proofs in proofs/C14_margin.v; tied to /repo by the stream marginstate-render. *)
From Coq Require Import ZArith List String Bool.
Require Import WV.model.C14Page WV.model.C14Pages.
Import ListNotations.
Open Scope string_scope.
Open Scope list_scope.
Open Scope Z_scope.

(* update_counters for one counter name: resets, then increments, then sets *)
Definition apply_reset_n (name : string) (v : option Z) (nv : string * Z) : option Z :=
  if String.eqb (fst nv) name then Some (snd nv) else v.
Definition apply_set_n (name : string) (v : option Z) (nv : string * Z) : option Z :=
  if String.eqb (fst nv) name then Some (snd nv) else v.
Definition apply_incr_n (name : string) (v : option Z) (nv : string * Z) : option Z :=
  if String.eqb (fst nv) name then Some (match v with Some x => x | None => 0 end + snd nv) else v.
Definition update_counter_n (name : string) (v : option Z) (s : ops * ops * ops) : option Z :=
  let '(sets, resets, incrs) := s in
  fold_left (apply_set_n name) sets (fold_left (apply_incr_n name) incrs (fold_left (apply_reset_n name) resets v)).

(* the page context: value of every counter that exists there, after make_page's update for this page *)
Definition counters := list (string * Z).
Fixpoint lookup_counter (name : string) (cs : counters) : option Z :=
  match cs with [] => None | (n, v) :: r => if String.eqb n name then Some v else lookup_counter name r end.

(* page state handed to make_margin_boxes: (quote depth, counter values), and the number of pages *)
Record pstate := mkPS { ps_depth : Z; ps_counters : counters; ps_pages : Z }.

(* items of the `content` property of a margin box *)
Inductive item :=
  | IText (code : Z) | ICounter (name : string) | IPages
  | IOpen | IClose | INoOpen | INoClose.

(* a margin box: its counter-* declarations and its content *)
Record mdecl := mkMD { md_style : cstyle; md_content : list item }.

(* what one item prints: (kind, value); kind 0 nothing, 1 number, 2 text, 3 opening quote of that level,
   4 closing quote of that level; `quotes` has two levels *)
Definition out := (Z * Z)%type.

Fixpoint eval_items (depth : Z) (value : string -> Z) (npages : Z) (items : list item) : list out :=
  match items with
  | [] => []
  | IText c :: r => (2, c) :: eval_items depth value npages r
  | ICounter n :: r => (1, value n) :: eval_items depth value npages r
  | IPages :: r => (1, npages) :: eval_items depth value npages r
  | IOpen :: r => (3, Z.min depth 1) :: eval_items (depth + 1) value npages r
  | INoOpen :: r => (0, 0) :: eval_items (depth + 1) value npages r
  | IClose :: r => let d := Z.max 0 (depth - 1) in (4, Z.min d 1) :: eval_items d value npages r
  | INoClose :: r => (0, 0) :: eval_items (Z.max 0 (depth - 1)) value npages r
  end.

(* make_box for a generated margin box, on a copy `st` of the page state: the counters it reads are the page's,
   after its own counter-reset / counter-increment / counter-set (no automatic increment in a margin box; the
   `pages` counter cannot be manipulated); a counter that does not exist reads 0 *)
Definition box_output (st : pstate) (d : mdecl) : list out :=
  let s := standardize (md_style d) false in
  let value (n : string) : Z :=
    match update_counter_n n (lookup_counter n (ps_counters st)) s with Some v => v | None => 0 end in
  eval_items (ps_depth st) value (ps_pages st) (md_content d).

(* make_margin_boxes: the boxes are created one after the other (top-*, bottom-*, left-*, right-*, corners); each
   make_box starts with `margin_state = copy.deepcopy(state)`: the state handed to the next box is the page's *)
Fixpoint margin_boxes_model (st : pstate) (decls : list mdecl) : list (list out) :=
  match decls with
  | [] => []
  | d :: r => let margin_state := st in box_output margin_state d :: margin_boxes_model st r
  end.

(* the page context from page to page, for one counter name (make_page: standardize + update_counters) *)
Fixpoint page_counters_n (name : string) (v : option Z) (styles : list cstyle) : list (option Z) :=
  match styles with
  | [] => []
  | st :: r => let v' := update_counter_n name v (standardize st true) in v' :: page_counters_n name v' r
  end.

(* ------------------------------------------------------------------------------------------- judge *)
Definition out_eqb (x y : out) : bool := (fst x =? fst y) && (snd x =? snd y).
Fixpoint outs_eqb (x y : list out) : bool :=
  match x, y with [], [] => true | a :: r, b :: s => out_eqb a b && outs_eqb r s | _, _ => false end.
Fixpoint outss_eqb (x y : list (list out)) : bool :=
  match x, y with [], [] => true | a :: r, b :: s => outs_eqb a b && outss_eqb r s | _, _ => false end.

(* state of page k (0-based) of a document whose pages have the @page counter styles `styles` *)
Definition page_state_of (names : list string) (styles : list cstyle) (k : nat) (npages : Z) : pstate :=
  mkPS 0
       (flat_map (fun n => match nth k (page_counters_n n None styles) None with Some v => [(n, v)] | None => [] end) names)
       npages.

(* marginstate-render, one page: counter names in play, @page counter styles of pages 1..N, index of this page,
   the margin boxes of this page in creation order, what each of them shows.
   bit 0: model of make_margin_boxes <> implementation;
   bit 1: some margin box does not show f(page state, its own declarations) *)
Definition marginstate_judge (c : list string * list cstyle * nat * list mdecl * list (list out)) : nat :=
  let '(names, styles, k, decls, shown) := c in
  let st := page_state_of names styles k (Z.of_nat (List.length styles)) in
  ((if outss_eqb (margin_boxes_model st decls) shown then 0 else 1) +
   (if Nat.eqb (List.length decls) (List.length shown)
       && forallb (fun p => outs_eqb (box_output st (fst p)) (snd p)) (combine decls shown) then 0 else 2))%nat.
