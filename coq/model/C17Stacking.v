(* C17 - paint order: hand model of weasyprint/stacking.py (StackingContext.__init__, from_page, from_box,
   _dispatch, _dispatch_children) and of the paint sequence of weasyprint/draw/__init__.py
   (draw_stacking_context, draw_table, draw_inline_level, draw_outline).  Definitions only.

   The box tree is abstract: a node carries what the two modules read from a box (its class, position, float,
   z-index, the three properties that create a stacking context, ...).  The Python code threads four mutable
   lists through the recursion (child_contexts, blocks, floats, blocks_and_cells), appends to them and inserts
   "at the index seen before the children were dispatched"; the model threads the same four lists as a state
   ([dst]) and uses [insert_at] at the same places.  list.sort(key=z_index) is modelled by a stable insertion
   sort ([sort_z]); that CPython's sort is stable is the only fact assumed about it. *)
From Coq Require Import ZArith List Bool.
Import ListNotations.
Open Scope Z_scope.

(* ------------------------------------------------------------------------------------------- boxes *)

(* the classes of formatting_structure/boxes.py that stacking.py and draw/__init__.py distinguish *)
Inductive kind :=
| KBlock            (* BlockBox (incl. table wrapper, caption, list item, flex/grid items) *)
| KFlex             (* FlexBox *)
| KGrid             (* GridBox *)
| KTable            (* TableBox, InlineTableBox *)
| KRowGroup | KRow  (* TableRowGroupBox, TableRowBox *)
| KCell             (* TableCellBox *)
| KLine             (* LineBox *)
| KInline           (* InlineBox *)
| KText             (* TextBox *)
| KInlineBlock | KInlineFlex | KInlineGrid
| KBlockReplaced | KInlineReplaced
| KMargin           (* MarginBox *)
| KPage             (* PageBox *)
| KOther.           (* any other ParentBox: column boxes *)

Inductive position := PStatic | PRelative | PAbsolute | PFixed | PSticky.
Inductive tmat := TNone | TSingular | TRegular.   (* box.transformation_matrix: absent / determinant 0 / invertible *)

Record info := mkI {
  bid : Z;                (* identity of the box (preorder rank in the harness) *)
  knd : kind;
  pos : position;         (* style['position'] *)
  flt : bool;             (* is_floated() *)
  zi  : option Z;         (* style['z_index']: None = auto *)
  opa : bool;             (* style['opacity'] < 1 *)
  trf : bool;             (* style['transform'] non-empty *)
  tm  : tmat;
  ovf : bool;             (* style['overflow'] != 'visible' *)
  clp : bool;             (* style['clip'] non-empty *)
  git : bool;             (* is_grid_item *)
  col : bool;             (* style['border_collapse'] == 'collapse' (tables, and cells: the property is inherited) *)
  hid : bool;             (* cell: empty_cells != 'show' and cell.empty *)
  rcl : bool;             (* is_for_root_element and page.style['overflow'] != 'visible' *)
  fit : bool              (* is_flex_item *)
}.

Inductive box := Box (i : info) (kids : list box).
Definition binfo (b : box) : info := match b with Box i _ => i end.
Definition bkids (b : box) : list box := match b with Box _ k => k end.

(* isinstance tables *)
Definition is_parent (k : kind) : bool :=
  match k with KText | KBlockReplaced | KInlineReplaced => false | _ => true end.
Definition block_level (k : kind) : bool :=
  match k with KBlock | KFlex | KGrid | KTable | KBlockReplaced => true | _ => false end.
Definition is_cell (k : kind) : bool := match k with KCell => true | _ => false end.
Definition stacking_class (k : kind) : bool :=
  match k with KInlineBlock | KInlineFlex | KInlineGrid => true | _ => false end.
(* draw_stacking_context point 2: (BlockBox, MarginBox, InlineBlockBox, TableCellBox, FlexContainerBox,
   GridContainerBox, ReplacedBox) *)
Definition point2_class (k : kind) : bool :=
  match k with
  | KBlock | KMargin | KInlineBlock | KCell | KFlex | KInlineFlex | KGrid | KInlineGrid | KBlockReplaced
  | KInlineReplaced => true
  | _ => false
  end.
Definition is_table (k : kind) : bool := match k with KTable => true | _ => false end.
Definition is_inline (k : kind) : bool := match k with KInline => true | _ => false end.
Definition is_line (k : kind) : bool := match k with KLine => true | _ => false end.
Definition is_text (k : kind) : bool := match k with KText => true | _ => false end.
Definition is_replaced (k : kind) : bool :=
  match k with KBlockReplaced | KInlineReplaced => true | _ => false end.
Definition is_page (k : kind) : bool := match k with KPage => true | _ => false end.
Definition is_inline_replaced (k : kind) : bool := match k with KInlineReplaced => true | _ => false end.

Definition static (i : info) : bool := match pos i with PStatic => true | _ => false end.
Definition abspos (i : info) : bool := match pos i with PAbsolute | PFixed => true | _ => false end.
Definition has_z (i : info) : bool := match zi i with Some _ => true | None => false end.
Definition z_of (i : info) : Z := match zi i with Some z => z | None => 0 end.
(* StackingContext.__init__ (after /repo 673f68d): z-index only applies to positioned boxes, flex and grid items;
   `if self.z_index == 'auto' or not applies: self.z_index = 0` *)
Definition zctx (i : info) : Z := if negb (static i) || fit i || git i then z_of i else 0.

(* _dispatch: defines_stacking_context *)
Definition defines_ctx (i : info) : bool :=
  (negb (static i) && has_z i) || (git i && has_z i) || opa i || trf i || ovf i.

(* ----------------------------------------------------------------- the result of StackingContext.from_box *)

(* PB: a box of the "normal" tree (copy_with_children);
   PC: a StackingContext object: its box (info + new children), the three z buckets, block_level_boxes,
       float_contexts, blocks_and_cells, z_index *)
Inductive pnode :=
| PB (i : info) (kids : list pnode)
| PC (i : info) (kids : list pnode) (neg zero pos_ : list pnode)
     (blocks floats bcs : list pnode) (z : Z).

Definition pinfo (n : pnode) : info := match n with PB i _ => i | PC i _ _ _ _ _ _ _ _ => i end.
Definition pkids (n : pnode) : list pnode := match n with PB _ k => k | PC _ k _ _ _ _ _ _ _ => k end.
Definition ctx_z (n : pnode) : Z := match n with PB _ _ => 0 | PC _ _ _ _ _ _ _ _ z => z end.

(* list.sort(key=...) : stable *)
Fixpoint insert_z {A} (key : A -> Z) (x : A) (l : list A) : list A :=
  match l with
  | [] => [x]
  | y :: r => if key x <=? key y then x :: l else y :: insert_z key x r
  end.
Fixpoint sort_z {A} (key : A -> Z) (l : list A) : list A :=
  match l with [] => [] | x :: r => insert_z key x (sort_z key r) end.

(* StackingContext.__init__ *)
Definition mk_ctx (i : info) (kids children blocks floats bcs : list pnode) : pnode :=
  PC i kids
     (sort_z ctx_z (filter (fun c => ctx_z c <? 0) children))
     (filter (fun c => ctx_z c =? 0) children)
     (sort_z ctx_z (filter (fun c => negb (ctx_z c <? 0) && negb (ctx_z c =? 0)) children))
     blocks floats bcs (zctx i).

Record dst := mkS { s_cc : list pnode; s_bl : list pnode; s_fl : list pnode; s_bc : list pnode }.
Definition st0 : dst := mkS [] [] [] [].

Definition insert_at {A} (n : nat) (x : A) (l : list A) : list A := firstn n l ++ x :: skipn n l.

(* a box that is not a ParentBox is returned as it is *)
Fixpoint embed (b : box) : pnode := match b with Box i kids => PB i (map embed kids) end.

(* _dispatch(box, page, child_contexts, blocks, floats, blocks_and_cells) -> None | box | StackingContext.
   [loop] is the for loop of _dispatch_children, [dch] is _dispatch_children (new children, state),
   from_box(box, page, child_contexts) is inlined at its four call sites. *)
Fixpoint dispatch (b : box) (st : dst) {struct b} : option pnode * dst :=
  match b with
  | Box i kids =>
      let loop :=
        fix loop (l : list box) (st : dst) {struct l} : list pnode * dst :=
          match l with
          | [] => ([], st)
          | k :: r =>
              let '(res, st1) := dispatch k st in
              let '(rs, st2) := loop r st1 in
              (match res with Some n => n :: rs | None => rs end, st2)
          end in
      let dch (st : dst) : list pnode * dst :=
        if is_parent (knd i) then loop kids st else (map embed kids, st) in
      if defines_ctx i then
        (* child_contexts.append(StackingContext.from_box(box, page)) *)
        let '(nk, s) := dch st0 in
        (None, mkS (s_cc st ++ [mk_ctx i nk (s_cc s) (s_bl s) (s_fl s) (s_bc s)]) (s_bl st) (s_fl st) (s_bc st))
      else if negb (static i) then
        (* fake context, inserted at the position seen before creating it *)
        let index := length (s_cc st) in
        let '(nk, s) := dch (mkS (s_cc st) [] [] []) in
        (None, mkS (insert_at index (mk_ctx i nk [] (s_bl s) (s_fl s) (s_bc s)) (s_cc s))
                   (s_bl st) (s_fl st) (s_bc st))
      else if flt i then
        let '(nk, s) := dch (mkS (s_cc st) [] [] []) in
        (None, mkS (s_cc s) (s_bl st) (s_fl st ++ [mk_ctx i nk [] (s_bl s) (s_fl s) (s_bc s)]) (s_bc st))
      else if stacking_class (knd i) then
        let '(nk, s) := dch (mkS (s_cc st) [] [] []) in
        (Some (mk_ctx i nk [] (s_bl s) (s_fl s) (s_bc s)), mkS (s_cc s) (s_bl st) (s_fl st) (s_bc st))
      else
        let blocks_index := if block_level (knd i) then Some (length (s_bl st)) else None in
        let bcs_index :=
          if block_level (knd i) || is_cell (knd i) then Some (length (s_bc st)) else None in
        let '(nk, s) := dch st in
        let nb := PB i nk in
        (Some nb,
         mkS (s_cc s)
             (match blocks_index with Some n => insert_at n nb (s_bl s) | None => s_bl s end)
             (s_fl s)
             (match bcs_index with Some n => insert_at n nb (s_bc s) | None => s_bc s end))
  end.

Fixpoint dispatch_list (l : list box) (st : dst) {struct l} : list pnode * dst :=
  match l with
  | [] => ([], st)
  | k :: r =>
      let '(res, st1) := dispatch k st in
      let '(rs, st2) := dispatch_list r st1 in
      (match res with Some n => n :: rs | None => rs end, st2)
  end.

Definition dispatch_children (b : box) (st : dst) : list pnode * dst :=
  match b with Box i kids => if is_parent (knd i) then dispatch_list kids st else (map embed kids, st) end.

(* StackingContext.from_box(box, page) *)
Definition from_box (b : box) : pnode :=
  let '(nk, s) := dispatch_children b st0 in
  mk_ctx (binfo b) nk (s_cc s) (s_bl s) (s_fl s) (s_bc s).

(* StackingContext.from_page(page): every page child is a context, the page box keeps no children *)
Definition from_page (pi : info) (children : list box) : pnode :=
  mk_ctx pi [] (map from_box children) [] [] [].

(* ------------------------------------------------------------------------------- the paint sequence *)

Inductive layer := LBg | LBorder | LContent | LOutline.
Inductive bracket := BStack | BGroup | BInner.
Inductive gstate := GRootClip | GClipProp | GTransform | GClip.
Inductive event :=
| EPaint (id : Z) (l : layer)        (* draw_background / draw_border (or collapsed borders) / text or image / outline *)
| EOpen (id : Z) (b : bracket)       (* push_state (q) or the start of the opacity group *)
| EClose (id : Z) (b : bracket)      (* pop_state (Q) or the end of the group followed by its Do under alpha *)
| ESet (id : Z) (g : gstate)         (* clip / cm: lasts until the innermost open bracket closes *)
| EAssert (id : Z).                  (* an assert of the Python code fails / attribute error *)

(* point 2 (after /repo 5ad683d): draw_border is skipped for a TableCellBox whose border_collapse is 'collapse' *)
Definition own_border (i : info) : list event := if is_cell (knd i) && col i then [] else [EPaint (bid i) LBorder].

Inductive pmode :=
| MCtx        (* draw_stacking_context(ctx) *)
| MInline     (* draw_inline_level(node) *)
| MBlock      (* the body of the point 4 loop *)
| MLines      (* the body of the point 7 loop *)
| MOutline.   (* draw_outline(box) *)

Fixpoint last_is_line (l : list pnode) : bool :=
  match l with
  | [] => false
  | [n] => match n with PB i _ => is_line (knd i) | PC _ _ _ _ _ _ _ _ _ => false end
  | _ :: r => last_is_line r
  end.

Definition pid (n : pnode) : Z := bid (pinfo n).

(* backgrounds of draw_table below the table itself: row groups, rows, cells (a StackingContext object among
   the children has no .background / .children: AttributeError) *)
Definition table_bgs (collapse : bool) (groups : list pnode) : list event :=
  flat_map (fun g => match g with
     | PB gi rows =>
         EPaint (bid gi) LBg ::
         flat_map (fun r => match r with
            | PB ri cells =>
                EPaint (bid ri) LBg ::
                flat_map (fun c => match c with
                   | PB ci _ => if negb collapse && hid ci then [] else [EPaint (bid ci) LBg]
                   | PC ci _ _ _ _ _ _ _ _ => [EAssert (bid ci)]
                   end) cells
            | PC ri _ _ _ _ _ _ _ _ => [EAssert (bid ri)]
            end) rows
     | PC gi _ _ _ _ _ _ _ _ => [EAssert (bid gi)]
     end) groups.
Definition table_borders (groups : list pnode) : list event :=
  flat_map (fun g => flat_map (fun r => flat_map (fun c =>
     if hid (pinfo c) then [] else [EPaint (pid c) LBorder]) (pkids r)) (pkids g)) groups.

Fixpoint paint (m : pmode) (n : pnode) {struct n} : list event :=
  match n with
  | PC i kids neg zero pos_ blocks floats bcs _ =>
      let id := bid i in
      let ctx_events :=                                   (* draw_stacking_context *)
        EOpen id BStack ::
        (if rcl i then [ESet id GRootClip] else []) ++
        (if abspos i && clp i then [ESet id GClipProp] else []) ++
        match tm i with
        | TSingular => [EClose id BStack]              (* return inside `with stacked(stream)` *)
        | _ =>
          (if opa i then [EOpen id BGroup] else []) ++
          (match tm i with TRegular => [ESet id GTransform] | _ => [] end) ++
          (if point2_class (knd i) then EPaint id LBg :: own_border i else []) ++
          EOpen id BInner ::
          (if ovf i && negb (is_page (knd i)) then [ESet id GClip] else []) ++
          flat_map (paint MCtx) neg ++                                   (* point 3 *)
          flat_map (paint MBlock) blocks ++                              (* point 4 *)
          flat_map (paint MCtx) floats ++                                (* point 5 *)
          (if is_inline (knd i)                                          (* point 6: draw_inline_level(box) *)
           then EPaint id LBg :: EPaint id LBorder :: flat_map (paint MInline) kids else []) ++
          (if is_replaced (knd i) then [EPaint id LContent]              (* point 7, block = box *)
           else if last_is_line kids then flat_map (paint MInline) kids else []) ++
          flat_map (paint MLines) bcs ++                                 (* point 7, blocks_and_cells *)
          flat_map (paint MCtx) zero ++                                  (* point 8 *)
          flat_map (paint MCtx) pos_ ++                                  (* point 9 *)
          EClose id BInner ::
          EPaint id LOutline :: flat_map (paint MOutline) kids ++        (* point 10 *)
          (if opa i then [EClose id BGroup] else []) ++
          [EClose id BStack]
        end in
      match m with
      | MCtx => ctx_events
      | MInline => if stacking_class (knd i) then ctx_events else [EAssert id]
      | MBlock | MLines => [EAssert id]
      | MOutline => []                                  (* `if isinstance(child, boxes.Box)` *)
      end
  | PB i kids =>
      let id := bid i in
      match m with
      | MCtx => [EAssert id]
      | MInline =>                                      (* draw_inline_level *)
          EPaint id LBg :: EPaint id LBorder ::
          (if is_inline (knd i) || is_line (knd i) then flat_map (paint MInline) kids
           else if is_inline_replaced (knd i) then [EPaint id LContent]
           else if is_text (knd i) then [EPaint id LContent]
           else [EAssert id])
      | MBlock =>
          if is_table (knd i) then
            EPaint id LBg :: table_bgs (col i) kids ++
            (if col i then [EPaint id LBorder] else EPaint id LBorder :: table_borders kids)
          else [EPaint id LBg; EPaint id LBorder]
      | MLines =>
          if is_replaced (knd i) then [EPaint id LContent]
          else if last_is_line kids then flat_map (paint MInline) kids else []
      | MOutline => EPaint id LOutline :: flat_map (paint MOutline) kids
      end
  end.

Definition paint_ctx (c : pnode) : list event := paint MCtx c.

(* ------------------------------------------------------------------------------------ boolean equality *)

Definition kind_eqb (a b : kind) : bool :=
  match a, b with
  | KBlock, KBlock | KFlex, KFlex | KGrid, KGrid | KTable, KTable | KRowGroup, KRowGroup | KRow, KRow
  | KCell, KCell | KLine, KLine | KInline, KInline | KText, KText | KInlineBlock, KInlineBlock
  | KInlineFlex, KInlineFlex | KInlineGrid, KInlineGrid | KBlockReplaced, KBlockReplaced
  | KInlineReplaced, KInlineReplaced | KMargin, KMargin | KPage, KPage | KOther, KOther => true
  | _, _ => false
  end.
Definition pos_eqb (a b : position) : bool :=
  match a, b with
  | PStatic, PStatic | PRelative, PRelative | PAbsolute, PAbsolute | PFixed, PFixed | PSticky, PSticky => true
  | _, _ => false
  end.
Definition tmat_eqb (a b : tmat) : bool :=
  match a, b with TNone, TNone | TSingular, TSingular | TRegular, TRegular => true | _, _ => false end.
Definition oz_eqb (a b : option Z) : bool :=
  match a, b with Some x, Some y => x =? y | None, None => true | _, _ => false end.
Definition info_eqb (a b : info) : bool :=
  (bid a =? bid b) && kind_eqb (knd a) (knd b) && pos_eqb (pos a) (pos b) && Bool.eqb (flt a) (flt b) &&
  oz_eqb (zi a) (zi b) && Bool.eqb (opa a) (opa b) && Bool.eqb (trf a) (trf b) && tmat_eqb (tm a) (tm b) &&
  Bool.eqb (ovf a) (ovf b) && Bool.eqb (clp a) (clp b) && Bool.eqb (git a) (git b) &&
  Bool.eqb (col a) (col b) && Bool.eqb (hid a) (hid b) && Bool.eqb (rcl a) (rcl b) && Bool.eqb (fit a) (fit b).

Fixpoint list_eqb {A} (eq : A -> A -> bool) (a b : list A) : bool :=
  match a, b with
  | [], [] => true
  | x :: r, y :: s => eq x y && list_eqb eq r s
  | _, _ => false
  end.

Fixpoint pnode_eqb (a b : pnode) {struct a} : bool :=
  match a, b with
  | PB i k, PB j l =>
      info_eqb i j &&
      (fix go (x y : list pnode) {struct x} : bool :=
         match x, y with [], [] => true | p :: r, q :: s => pnode_eqb p q && go r s | _, _ => false end) k l
  | PC i k n1 z1 p1 b1 f1 c1 z, PC j l n2 z2 p2 b2 f2 c2 z' =>
      let go := fix go (x y : list pnode) {struct x} : bool :=
         match x, y with [], [] => true | p :: r, q :: s => pnode_eqb p q && go r s | _, _ => false end in
      info_eqb i j && go k l && go n1 n2 && go z1 z2 && go p1 p2 && go b1 b2 && go f1 f2 && go c1 c2 && (z =? z')
  | _, _ => false
  end.

Definition layer_eqb (a b : layer) : bool :=
  match a, b with LBg, LBg | LBorder, LBorder | LContent, LContent | LOutline, LOutline => true | _, _ => false end.
Definition bracket_eqb (a b : bracket) : bool :=
  match a, b with BStack, BStack | BGroup, BGroup | BInner, BInner => true | _, _ => false end.
Definition gstate_eqb (a b : gstate) : bool :=
  match a, b with GRootClip, GRootClip | GClipProp, GClipProp | GTransform, GTransform | GClip, GClip => true | _, _ => false end.
Definition event_eqb (a b : event) : bool :=
  match a, b with
  | EPaint x l, EPaint y m => (x =? y) && layer_eqb l m
  | EOpen x l, EOpen y m => (x =? y) && bracket_eqb l m
  | EClose x l, EClose y m => (x =? y) && bracket_eqb l m
  | ESet x l, ESet y m => (x =? y) && gstate_eqb l m
  | EAssert x, EAssert y => x =? y
  | _, _ => false
  end.
