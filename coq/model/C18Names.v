(* C18 - the /Dests name tree: hand model of the sort in weasyprint/pdf/__init__.py generate_pdf
     pdf_names.sort(key=lambda anchor: (not anchor[0].isascii(), anchor[0].encode('utf-16-be')))
   and of the bytes pydyf.String writes for a name (ASCII: the characters themselves; otherwise FE FF followed by
   UTF-16BE).  A name is the list of its UTF-16 code units.  Definitions only. *)
From Coq Require Import ZArith List Bool.
Import ListNotations.
Open Scope Z_scope.

Definition name := list Z.
Definition isascii (n : name) : bool := forallb (fun u => (0 <=? u) && (u <? 128)) n.
Definition utf16be (n : name) : list Z := flat_map (fun u => [u / 256; u mod 256]) n.
(* the key string as a reader sees it (after undoing the literal / hexadecimal syntax) *)
Definition written (n : name) : list Z := if isascii n then n else 254 :: 255 :: utf16be n.

(* Python's <= on bytes *)
Fixpoint lex_leb (a b : list Z) : bool :=
  match a, b with
  | [], _ => true
  | _ :: _, [] => false
  | x :: a', y :: b' => if x <? y then true else if y <? x then false else lex_leb a' b'
  end.
(* Python's <= on the tuples (bool, bytes) *)
Definition key (n : name) : bool * list Z := (negb (isascii n), utf16be n).
Definition key_leb (k1 k2 : bool * list Z) : bool :=
  match fst k1, fst k2 with
  | false, true => true
  | true, false => false
  | _, _ => lex_leb (snd k1) (snd k2)
  end.

(* list.sort(key=...): stable, modelled as insertion sort *)
Fixpoint insert (x : name) (l : list name) : list name :=
  match l with
  | [] => [x]
  | y :: r => if key_leb (key y) (key x) then y :: insert x r else x :: y :: r
  end.
Fixpoint sort_names (l : list name) : list name :=
  match l with [] => [] | x :: r => insert x (sort_names r) end.

(* ---- judge: the names of a written /Dests array, in order ---- *)
Fixpoint zs_eqb (a b : list Z) : bool :=
  match a, b with [], [] => true | x :: a', y :: b' => (x =? y) && zs_eqb a' b' | _, _ => false end.
Fixpoint names_eqb (a b : list name) : bool :=
  match a, b with [], [] => true | x :: a', y :: b' => zs_eqb x y && names_eqb a' b' | _, _ => false end.
(* ISO 32000-1 7.9.6: keys sorted (strictly: no duplicates) as byte strings *)
Fixpoint bytes_sorted (l : list name) : bool :=
  match l with
  | x :: ((y :: _) as r) => lex_leb (written x) (written y) && negb (zs_eqb x y) && bytes_sorted r
  | _ => true
  end.
(* bit 0: the written order is not the one the model sort gives; bit 1: not sorted bytewise *)
Definition names_judge (out : list name) : nat :=
  ((if names_eqb (sort_names (rev out)) out then 0 else 1) + (if bytes_sorted out then 0 else 2))%nat.
