(* C09 - inline formatting, first line of a text run.

   Hand-written model of weasyprint/text/line_break.py `split_first_line` (steps 1-5, hyphens: manual|none),
   `first_line_metrics`, `Layout.set_text` (truncation after the first newline) and `get_next_break_point`.
   Pango is a pair of Section variables (first line of a layout, line-break log attributes); the behaviour assumed
   for it on the calibrated alphabet (letters of advance 1em, space, newline, soft hyphen U+00AD, hyphen U+2010)
   is the DEFINITION `G` / `Gattrs` below: a first-fit breaker with hanging final space.  The correspondence run
   (harness/p_c09.py) tests both `G` against the raw library and the model against `split_first_line` on every
   generated case.  Definitions only; proofs are in proofs/C09_*.v. *)
From Coq Require Import ZArith QArith Qround List Bool.
Import ListNotations.
Open Scope Z_scope.

(* ------------------------------------------------------------------------------------------- alphabet *)
Inductive ch := L (k : nat) | Sp | Nl | Shy | Hy.
Definition text := list ch.

Definition ch_eqb (a b : ch) : bool :=
  match a, b with
  | L i, L j => Nat.eqb i j | Sp, Sp => true | Nl, Nl => true | Shy, Shy => true | Hy, Hy => true
  | _, _ => false
  end.
Fixpoint text_eqb (a b : text) : bool :=
  match a, b with
  | [], [] => true
  | x :: a', y :: b' => ch_eqb x y && text_eqb a' b'
  | _, _ => false
  end.
Definition is_sp c := match c with Sp => true | _ => false end.
Definition is_nl c := match c with Nl => true | _ => false end.
Definition is_shy c := match c with Shy => true | _ => false end.
Definition is_hy c := match c with Hy => true | _ => false end.
Definition is_letter c := match c with L _ => true | _ => false end.

(* advance in em; UTF-8 size *)
Definition vis (c : ch) : Z := match c with Shy | Nl => 0 | _ => 1 end.
Definition nbytes_ch (c : ch) : Z := match c with Shy => 2 | Hy => 3 | _ => 1 end.
Fixpoint visw (t : text) : Z := match t with [] => 0 | c :: t' => vis c + visw t' end.
Fixpoint nbytes (t : text) : Z := match t with [] => 0 | c :: t' => nbytes_ch c + nbytes t' end.

(* ------------------------------------------------------------------------------ Python string operations *)
Fixpoint find_ch (p : ch -> bool) (t : text) : option nat :=
  match t with
  | [] => None
  | c :: t' => if p c then Some O else option_map S (find_ch p t')
  end.
Definition has_ch (p : ch -> bool) (t : text) : bool := existsb p t.

(* text.rstrip(' ') *)
Fixpoint rstrip (t : text) : text :=
  match t with
  | [] => []
  | c :: t' => match rstrip t' with
               | [] => if is_sp c then [] else [c]
               | r => c :: r
               end
  end.
Fixpoint last_ch (t : text) : option ch :=
  match t with [] => None | [c] => Some c | _ :: t' => last_ch t' end.
Definition ends_with (p : ch -> bool) (t : text) : bool :=
  match last_ch t with Some c => p c | None => false end.

(* text.encode()[:n].decode() and text.encode()[n:].decode(); None = the cut falls inside a character
   (UnicodeDecodeError in Python) *)
Fixpoint bytes_prefix (t : text) (n : Z) : option text :=
  match t with
  | [] => Some []
  | c :: t' => if n <=? 0 then Some []
               else if n <? nbytes_ch c then None
               else option_map (cons c) (bytes_prefix t' (n - nbytes_ch c))
  end.
Fixpoint bytes_suffix (t : text) (n : Z) : option text :=
  match t with
  | [] => Some []
  | c :: t' => if n <=? 0 then Some t
               else if n <? nbytes_ch c then None
               else bytes_suffix t' (n - nbytes_ch c)
  end.

(* s[:k] and s[k] with Python's conventions for None / negative k *)
Definition py_slice_to (t : text) (k : option Z) : text :=
  match k with
  | None => t
  | Some z => if 0 <=? z then firstn (Z.to_nat z) t
              else firstn (Z.to_nat (Z.of_nat (length t) + z)) t
  end.
Definition py_index (t : text) (z : Z) : option ch :=
  if 0 <=? z then nth_error t (Z.to_nat z)
  else let j := Z.of_nat (length t) + z in if j <? 0 then None else nth_error t (Z.to_nat j).

(* Layout.set_text keeps the first line plus one character *)
Definition truncate (t : text) : text :=
  match find_ch is_nl t with None => t | Some i => firstn (i + 2) t end.

(* --------------------------------------------------------------- G : the assumed behaviour of Pango *)
Section PangoRef.
  Variable fs : Q.          (* font size = advance of a letter / space / hyphen, px *)
  Variable ins : bool.      (* insert_hyphens attribute (false under overflow-wrap: anywhere|break-word) *)

  Fixpoint para (t : text) : text :=
    match t with [] => [] | c :: t' => if is_nl c then [] else c :: para t' end.

  Definition break_before (wc : bool) (a b : ch) : bool :=
    wc || (is_sp a && negb (is_sp b)) || (is_shy a && is_letter b).
  Definition hyph_at (wc : bool) (a b : ch) : bool :=
    ins && ((is_shy a && is_letter b) || (wc && is_letter a && (is_letter b || is_shy b))).
  (* width in em of the line ending before b, a being its last character, acc = advance of the line *)
  Definition cost_at (wc : bool) (acc : Z) (a b : ch) : Z :=
    if is_sp a then acc - 1 else if hyph_at wc a b then acc + 1 else acc.
  Definition fits (w : Q) (c : Z) : bool := Qle_bool (inject_Z c * fs)%Q w.

  (* walk over the break opportunities from left to right: keep the last one that fits, stop at the first one
     that does not; when none fits the first opportunity is taken *)
  Fixpoint scan (w : Q) (wc : bool) (a : ch) (rest : text) (i : nat) (acc : Z) (best : option (nat * Z))
    : option (nat * Z) :=
    match rest with
    | [] => best
    | b :: rest' =>
        if break_before wc a b then
          let c := cost_at wc acc a b in
          if fits w c then scan w wc b rest' (S i) (acc + vis b) (Some (i, c))
          else match best with Some _ => best | None => Some (i, c) end
        else scan w wc b rest' (S i) (acc + vis b) best
    end.

  (* (characters in the first line, start of the second line if any, logical width of the first line) *)
  Definition G (t : text) (W : option Q) (wc : bool) : nat * option nat * Q :=
    let P := para t in
    let n := length P in
    let endr := if has_ch is_nl t then Some (S n) else None in
    let full := visw P in
    let whole := (n, endr, (inject_Z full * fs)%Q) in
    match W with
    | None => whole
    | Some w =>
        let endcost := if ends_with is_sp P then full - 1 else full in
        if fits w endcost then whole
        else match P with
             | [] => whole
             | a :: rest =>
                 match scan w wc a rest 1%nat (vis a) None with
                 | None => whole
                 | Some (i, c) => (i, Some i, (inject_Z c * fs)%Q)
                 end
             end
    end.

  (* is_line_break of PangoLogAttr, positions 0..len *)
  Fixpoint attrs_from (a : ch) (rest : text) : list bool :=
    match rest with
    | [] => [true]
    | b :: rest' =>
        (is_nl a || (is_sp a && negb (is_sp b) && negb (is_nl b)) || (is_shy a && is_letter b))
          :: attrs_from b rest'
    end.
  Definition Gattrs (t : text) : list bool :=
    match t with [] => [false] | a :: rest => false :: attrs_from a rest end.
End PangoRef.

(* ------------------------------------------------------------------------------------ split_first_line *)
Inductive white_space := WsNormal | WsNowrap | WsPre | WsPreWrap | WsPreLine.
Inductive overflow_wrap := OwNormal | OwAnywhere | OwBreakWord.
Definition text_wrap ws := match ws with WsNormal | WsPreWrap | WsPreLine => true | _ => false end.
Definition space_collapse ws := match ws with WsNormal | WsNowrap | WsPreLine => true | _ => false end.

Record style := { st_ws : white_space; st_ow : overflow_wrap; st_break_all : bool; st_hyph_manual : bool;
                  st_fs : Q }.

Inductive outcome :=
| Out (ltext : text) (length : Z) (resume : option Z) (width : Q)
| Raise (what : nat).     (* 1 UnicodeDecodeError, 2 IndexError, 3 log attrs read out of bounds *)

Record layout := { l_text : text; l_w : option Q; l_wc : bool }.

Inductive scan_res := Found (k : nat) | NotFound | OutOfBounds.
Fixpoint find_true (l : list bool) (n k : nat) : scan_res :=
  match n with
  | O => NotFound
  | S n' => match l with
            | [] => OutOfBounds
            | b :: l' => if b then Found k else find_true l' n' (S k)
            end
  end.

Section Model.
  Variable pango : text -> option Q -> bool -> nat * option nat * Q.
  Variable pango_attrs : text -> list bool.

  Definition set_text (Lay : layout) (t : text) : layout :=
    {| l_text := truncate t; l_w := l_w Lay; l_wc := l_wc Lay |}.
  Definition set_width (Lay : layout) (w : option Q) : layout :=
    {| l_text := l_text Lay; l_w := w; l_wc := l_wc Lay |}.
  Definition mk_layout (t : text) (w : option Q) : layout := {| l_text := truncate t; l_w := w; l_wc := false |}.

  (* Layout.get_first_line: ((first_line.length in bytes, line_size width), second_line.start_index) *)
  Definition first (Lay : layout) : (Z * Q) * option Z :=
    let '(l, r, w) := pango (l_text Lay) (l_w Lay) (l_wc Lay) in
    ((nbytes (firstn l (l_text Lay)), w), option_map (fun r => nbytes (firstn r (l_text Lay))) r).

  (* get_next_break_point(log_attrs[start:end]) *)
  Definition nbp (Lay : layout) (start end_ : nat) : scan_res :=
    find_true (skipn start (pango_attrs (l_text Lay))) (end_ - start) O.

  Definition first_line_metrics (fl : Z * Q) (t : text) (Lay : layout) (resume : option Z) (collapse hyphenated : bool)
    : outcome :=
    if hyphenated then Out (l_text Lay) (fst fl - 3) resume (snd fl)
    else
      match resume with
      | Some r =>
          if r =? 0 then Out (l_text Lay) (fst fl) resume (snd fl)
          else
            match bytes_prefix t (fst fl) with
            | None => Raise 1
            | Some p =>
                let p := if collapse then rstrip p else p in
                let Lay := set_text (set_width Lay None) p in
                let '(fl', _) := first Lay in
                Out (l_text Lay) (fst fl') resume (snd fl')
            end
      | None => Out (l_text Lay) (fst fl) resume (snd fl)
      end.

  Definition Qtrunc (q : Q) : Z := if Qle_bool 0 q then Qfloor q else - Qfloor (- q)%Q.
  Definition two21 : Q := 2097152 # 1.

  (* the loop of step 4 over the soft hyphens, longest candidate first; returns the hyphenated layout or the
     last candidate text *)
  Fixpoint hyph_loop (st : style) (mw : Q) (pw : option Q) (flt slt : text) (idx : list nat) (last_i : nat)
    : option (layout * (Z * Q) * Z) * text * text :=
    match idx with
    | [] => (None, [], [])
    | i :: idx' =>
        let fwp := firstn (S i) slt in
        let nflt := flt ++ fwp in
        let hflt := nflt ++ [Hy] in
        let NL := mk_layout hflt pw in
        let '(nfl, index) := first NL in
        let ok := match index with
                  | None => Qle_bool (snd nfl) mw || Nat.eqb i last_i
                  | Some _ => false
                  end in
        if ok then (Some (NL, nfl, nbytes nflt), nflt, hflt)
        else match idx' with
             | [] => (None, nflt, hflt)
             | _ => hyph_loop st mw pw flt slt idx' last_i
             end
    end.

  Fixpoint shy_indexes (t : text) (i : nat) : list nat :=
    match t with
    | [] => []
    | c :: t' => if is_shy c then i :: shy_indexes t' (S i) else shy_indexes t' (S i)
    end.

  (* step 3, the look-ahead to the next word: either a final outcome or the state handed to steps 4-5 *)
  Definition lookahead (collapse : bool) (t flt slt : text) (bp : option Z)
             (Lay : layout) (fl : Z * Q) (ri : option Z) : outcome + (layout * (Z * Q) * option Z) :=
    let next_word := rstrip (py_slice_to slt bp) in
    let flt_nonempty := match flt with [] => false | _ => true end in
    (* the look-ahead; result: either a final outcome or the state for steps 4-5 *)
      match next_word with
      | [] => if flt_nonempty then inl (first_line_metrics fl t Lay ri collapse false)
              else inr (Lay, fl, ri)
      | _ :: _ =>
          let idx := match bp with Some z => if z =? 0 then -1 else z | None => -1 end in
          match py_index slt idx with
          | None => inl (Raise 2)
          | Some c =>
              if collapse && is_sp c then
                let nflt := flt ++ next_word in
                let Lay' := set_text Lay nflt in
                let '(fl', ri') := first Lay' in
                match ri' with
                | None =>
                    if flt_nonempty then
                      inl (first_line_metrics fl' t Lay' (Some (nbytes nflt + 1)) collapse false)
                    else
                      let r := fst fl' + 1 in
                      inr (Lay', fl', if nbytes t <=? r then None else Some r)
                | Some _ => inr (Lay', fl', ri')
                end
              else inr (Lay, fl, ri)
          end
      end.

  Fixpoint first_word (t : text) : text :=
    match t with [] => [] | c :: t' => if is_sp c || is_nl c then [] else c :: first_word t' end.

  (* steps 4 (hyphens: manual) and 5 (break inside the word) *)
  Definition steps45 (st : style) (mw : Q) (pwm : option Q) (is_line_start minimum : bool)
             (t flt slt : text) (only_spaces_overflow : bool) (Lay : layout) (fl : Z * Q) (ri : option Z) : outcome :=
    let collapse := space_collapse (st_ws st) in
    (* step 4, hyphens: manual (none when the whole text fits without its trailing spaces) *)
    let manual := st_hyph_manual st && negb only_spaces_overflow && has_ch is_shy (flt ++ slt) in
    let swapped := manual && ends_with is_shy flt in
    let '(flt, slt) := if swapped then ([], flt) else (flt, slt) in
    (* only the soft hyphens of the first word of the second line: re.split('[ \t\n]', second_line_text)[0] *)
    let next_word := if swapped then slt else first_word slt in
    let idx := if manual then rev (shy_indexes next_word O) else [] in
    let s4 : layout * (Z * Q) * option Z * bool :=
      match idx with
      | [] => (Lay, fl, ri, false)
      | _ :: _ =>
          match hyph_loop st mw pwm flt slt idx (last idx O) with
          | (Some (NL, nfl, r), _, _) => (NL, nfl, Some r, true)
          | (None, nflt, hflt) =>
              match flt with
              | [] =>
                  let Lay' := set_width (set_text Lay hflt) None in
                  let '(fl', _) := first Lay' in
                  let r := nbytes nflt in
                  let r := match t with c :: _ => if is_shy c then r + 2 else r | [] => r end in
                  (Lay', fl', Some r, true)
              | _ :: _ => (Lay, fl, ri, false)
              end
          end
      end in
    let '(Lay, fl, ri, hyphenated) := s4 in
    let s4b : layout * (Z * Q) * option Z * bool :=
      if negb hyphenated && ends_with is_shy flt then
        let Lay' := set_width (set_text Lay (flt ++ [Hy])) None in
        let '(fl', _) := first Lay' in
        (Lay', fl', Some (nbytes flt), true)
      else (Lay, fl, ri, hyphenated) in
    let '(Lay, fl, ri, hyphenated) := s4b in
    (* step 5 *)
    let can_break :=
      st_break_all st ||
      (is_line_start && match st_ow st with
                        | OwAnywhere => true
                        | OwBreakWord => negb minimum
                        | OwNormal => false
                        end) in
    if negb (Qle_bool (snd fl) mw) && can_break then
      let u := Qtrunc ((if Qle_bool 0 mw then mw else 0) * (1024 # 1))%Q in
      let Lay' := {| l_text := truncate t;
                     l_w := Some (u # 1024);
                     l_wc := true |} in
      let '(fl', index) := first Lay' in
      let r := match index with
               | Some i => if i =? 0 then fst fl' else i
               | None => fst fl'
               end in
      first_line_metrics fl' t Lay' (if nbytes t <=? r then None else Some r) collapse false
    else first_line_metrics fl t Lay ri collapse hyphenated.

  (* steps 2-5, once step 1 has chosen the text, the draft layout and its first line *)
  Definition after_step1 (st : style) (mw : Q) (pwm : option Q) (is_line_start minimum : bool)
             (t short : text) (Lay : layout) (fl : Z * Q) (ri : option Z) : outcome :=
    let collapse := space_collapse (st_ws st) in
            (* step 2 *)
    let fits_line := Qle_bool (snd fl) mw in
    if match ri with None => fits_line | Some _ => false end
    then first_line_metrics fl t Lay ri collapse false
    else
      (* Pango lets trailing spaces hang when it checks that the text fits, but they are included in the line width:
         is the line of the text without its trailing spaces narrow enough? *)
      let only_spaces_overflow :=
        match ri with
        | None =>
            if ends_with is_sp t then
              let '(sfl, _) := first (mk_layout (rstrip t) None) in Qle_bool (snd sfl) mw
            else false
        | Some _ => false
        end in
      (* step 3 *)
      let fs_texts :=
        if fits_line then
          match ri with
          | Some r => match bytes_prefix t r, bytes_suffix t r with
                      | Some a, Some b => Some (a, b) | _, _ => None end
          | None => Some (t, t)       (* not reached: handled by step 2 *)
          end
        else Some ([], t) in
      match fs_texts with
      | None => Raise 1
      | Some (flt, slt) =>
          let bp_res : option (option Z) :=
            if text_eqb flt short then Some None
            else match nbp Lay (length flt + 1) (length short) with
                 | Found k => Some (Some (Z.of_nat k + 1))
                 | NotFound => Some None
                 | OutOfBounds => None
                 end in
          match bp_res with
          | None => Raise 3
          | Some bp =>
              match lookahead collapse t flt slt bp Lay fl ri with
              | inl o => o
              | inr (Lay, fl, ri) => steps45 st mw pwm is_line_start minimum t flt slt only_spaces_overflow Lay fl ri
              end
          end
      end.

  Definition split_first_line (st : style) (t : text) (max_width : option Q) (is_line_start minimum : bool)
    : outcome :=
    let fs := st_fs st in
    let wrap := text_wrap (st_ws st) in
    let collapse := space_collapse (st_ws st) in
    let pw (w : option Q) : option Q :=        (* create_layout's rule for the Pango width *)
      match w with
      | Some w => if wrap && negb (Qle_bool two21 w) then Some (if Qle_bool 0 w then w else 0%Q) else None
      | None => None
      end in
    let original_max_width := max_width in
    let max_width := if wrap then max_width else None in
    match max_width with
    | None =>
        (* steps 1-2 without a width *)
        let Lay := mk_layout t (pw original_max_width) in
        let '(fl, ri) := first Lay in
        first_line_metrics fl t Lay ri collapse false
    | Some mw =>
        (* step 1: a draft layout on a prefix of the text *)
        let short0 :=
          if negb (Qle_bool (fs * (4#1))%Q mw) then
            match find_ch is_sp t with Some si => firstn (si + 2) t | None => t end
          else firstn (Z.to_nat (Qfloor (mw / fs * (4#1))%Q)) t in
        let Lay0 := mk_layout short0 (pw max_width) in
        let '(fl0, ri0) := first Lay0 in
        let step1 : option (text * text * layout * (Z * Q) * option Z) :=   (* text, short_text, layout, line, resume *)
          match ri0 with
          | None =>
              if negb (text_eqb short0 t) then
                let Lay := set_text Lay0 t in
                let '(fl, ri) := first Lay in Some (t, t, Lay, fl, ri)
              else Some (t, short0, Lay0, fl0, ri0)       (* first_line_text == short_text *)
          | Some r =>
              match bytes_prefix short0 r with
              | None => None
              | Some flt =>
                  if negb (text_eqb flt short0) then
                    match nbp Lay0 (length flt + 1) (length short0) with
                    | Found _ => Some (short0, short0, Lay0, fl0, ri0)
                    | NotFound => Some (t, short0, Lay0, fl0, ri0)
                    | OutOfBounds => None
                    end
                  else Some (t, short0, Lay0, fl0, ri0)
              end
          end in
        match step1 with
        | None => Raise 3
        | Some (t, short, Lay, fl, ri) =>
            after_step1 st mw (pw max_width) is_line_start minimum t short Lay fl ri
        end
    end.
End Model.

(* Pango with G: the insert_hyphens attribute is on in every layout except the one of step 5, that breaks words
   (set_text(text, break_words=True) + WRAP_CHAR), and stays so on that layout object *)
Definition Gpango (fs : Q) (t : text) (W : option Q) (wc : bool) : nat * option nat * Q := G fs (negb wc) t W wc.
Definition sfl_model (st : style) (t : text) (mw : option Q) (ils mini : bool) : outcome :=
  split_first_line (Gpango (st_fs st)) Gattrs st t mw ils mini.
