(* C12 (grid part): hand-written executable models of weasyprint/layout/grid.py, decidable specifications
   written from css-grid-1/2, and the judge functions evaluated by harness/p_c12grid.py on implementation
   outputs.  Definitions only; the theorems are in proofs/C12_grid_place.v and proofs/C12_grid_tracks.v.

   Scope of the model
   * grid lines: 'auto' | integer n (GLine n, positive or negative) | 'span n' (GSpan n, n >= 1);
     no identifiers, no template areas.  `_get_placement(..., from_end=True)` (every call made with the
     grid-placement properties of an item) counts a negative integer from the end of the explicit grid:
     coord = len(lines) + n; this is `resolve_item`, applied to the items before the phases run.  The lines
     that grid_layout builds itself, (None, k + 1, None), are read with coord = k whatever the sign.
   * grid_layout step 1 (placement) with all its phases, both packing modes, both flow axes; the
     Python variables that survive from one child to the next (cursor_first, cursor_second,
     implicit_first_2) are state of the model.
   * what the rest of grid_layout does with the areas when every track is a px length: implicit tracks,
     the shift of children_positions to the first implicit track, the index computations (IndexError), track
     positions (3.5), item rectangles (4), including Python's slicing of the track lists.
   * _resolve_tracks_sizes for px, percentage and fr tracks with a definite container size. *)
From Coq Require Import ZArith QArith Qminmax Qabs List Bool Lia.
Import ListNotations.
Open Scope Z_scope.

(* ------------------------------------------------------------------------------------------ grid lines *)

Inductive gline := GAuto | GLine (n : Z) | GSpan (n : Z).

Record item := mkItem { col_s : gline; col_e : gline; row_s : gline; row_e : gline; order : Z }.

Definition area := (Z * Z * Z * Z)%type.          (* x, y, width, height in track units *)

(* _intersect(position_1, size_1, position_2, size_2) *)
Definition intersect (p1 s1 p2 s2 : Z) : bool := (p1 <? p2 + s2) && (p2 <? p1 + s1).

Definition area_meets (a f : area) : bool :=
  let '(x, y, w, h) := a in let '(fx, fy, fw, fh) := f in intersect x w fx fw && intersect y h fy fh.

(* _intersect_with_children(x, y, width, height, positions) *)
Definition intersect_with_children (a : area) (ps : list area) : bool := existsb (area_meets a) ps.

Definition or1 (n : Z) : Z := if n =? 0 then 1 else n.                 (* `number or 1` *)

(* tail of _get_placement: `if size < 0: size = -size; coord -= size` / `if size == 0: size = 1` *)
Definition norm (coord size : Z) : Z * Z :=
  let '(c, s) := if size <? 0 then (coord - (- size), - size) else (coord, size) in
  (c, if s =? 0 then 1 else s).

(* _get_placement(start, end, lines) when start is an integer line a *)
Definition pl_line_start (a : Z) (e : gline) : Z * Z :=
  let coord := a - 1 in
  norm coord (match e with GAuto => 1 | GSpan n => or1 n | GLine b => (b - 1) - coord end).

(* ... when start is auto or a span and end is the integer line b *)
Definition pl_line_end (s : gline) (b : Z) : Z * Z :=
  let size := match s with GSpan n => or1 n | _ => 1 end in
  let coord_end := b - 1 in
  let coord := coord_end - size in
  norm coord (coord_end - coord).

Definition get_placement (s e : gline) : option (Z * Z) :=
  match s with
  | GLine a => Some (pl_line_start a e)
  | _ => match e with GLine b => Some (pl_line_end s b) | _ => None end
  end.

(* _get_span *)
Definition get_span (g : gline) : Z := match g with GSpan n => or1 n | _ => 1 end.

(* the placement tried at cursor position k on an axis whose placement is not definite:
   `if start == 'auto': _get_placement((None, k+1, None), end) else: _get_placement(start, (None, k+1+span, None))` *)
Definition place_at (s e : gline) (k : Z) : Z * Z :=
  match s with
  | GAuto => pl_line_start (k + 1) e
  | _ => pl_line_end s (k + 1 + get_span s)
  end.

(* validated input (css/validation/properties.py grid_line): spans are >= 1.  (Integers are non-zero in a
   style sheet; the model does not need it, and resolved negative integers may be 0: coord = -1.) *)
Definition gline_valid (g : gline) : bool :=
  match g with GAuto => true | GLine n => true | GSpan n => 1 <=? n end.

(* _get_line(..., from_end=True): a negative integer n is the line len(lines) + n, i.e. the integer
   len(lines) + n + 1 in the positive numbering (coord = integer - 1) *)
Definition resolve_line (nlines : Z) (g : gline) : gline :=
  match g with GLine n => if n <? 0 then GLine (nlines + n + 1) else GLine n | x => x end.
Definition item_valid (it : item) : bool :=
  gline_valid (col_s it) && gline_valid (col_e it) && gline_valid (row_s it) && gline_valid (row_e it).

(* --------------------------------------------------------------------------------- children, ordering *)

(* sorted(box.children, key=order): stable *)
Fixpoint ins_child (p : nat * item) (l : list (nat * item)) : list (nat * item) :=
  match l with
  | [] => [p]
  | q :: r => if order (snd p) <=? order (snd q) then p :: q :: r else q :: ins_child p r
  end.
Definition sort_children (l : list (nat * item)) : list (nat * item) := fold_right ins_child [] l.

Fixpoint index_from {A} (i : nat) (l : list A) : list (nat * A) :=
  match l with [] => [] | a :: r => (i, a) :: index_from (S i) r end.

(* children_positions: association list, most recently placed first *)
Definition plog := list (nat * area).
Definition areas (l : plog) : list area := map snd l.
Definition is_placed (i : nat) (l : plog) : bool := existsb (fun p => Nat.eqb (fst p) i) l.
Fixpoint lookup_area (i : nat) (l : plog) : option area :=
  match l with [] => None | (j, a) :: r => if Nat.eqb j i then Some a else lookup_area i r end.

Inductive outcome (A : Type) :=
| Ok (a : A)
| OutOfFuel.            (* a fuelled loop of the model ran out of fuel (proved impossible) *)
Arguments Ok {A} a.
Arguments OutOfFuel {A}.

(* occupied tracks are kept as intervals (start, length); an interval of length <= 0 is an empty range *)
Definition occ_mem (t : Z) (occ : list (Z * Z)) : bool :=
  existsb (fun p => (fst p <=? t) && (t <? fst p + snd p)) occ.
Definition occ_meets (p0 p1 : Z) (occ : list (Z * Z)) : bool :=
  existsb (fun p => (p0 <? fst p + snd p) && (fst p <? p0 + p1) && (0 <? snd p) && (0 <? p1)) occ.
(* max(occupied_tracks or [0]) *)
Definition occ_max (occ : list (Z * Z)) : Z :=
  match filter (fun p => 0 <? snd p) occ with
  | [] => 0
  | p :: r => fold_left Z.max (map (fun p => fst p + snd p - 1) r) (fst p + snd p - 1)
  end.

(* the first track after the occupied ones: `max(occupied_tracks) + 1 if occupied_tracks else 0` *)
Definition occ_next (occ : list (Z * Z)) : Z :=
  match filter (fun p => 0 <? snd p) occ with [] => 0 | _ => occ_max occ + 1 end.

Definition max_end (l : list (Z * Z)) : Z := fold_left Z.max (map (fun p => fst p + snd p) l) 0.

Section Placement.
  Variable colflow : bool.      (* 'column' in grid-auto-flow: the first (auto-flow) axis is the column axis *)
  Variable dense : bool.

  Definition fst_s (it : item) := if colflow then col_s it else row_s it.
  Definition fst_e (it : item) := if colflow then col_e it else row_e it.
  Definition snd_s (it : item) := if colflow then row_s it else col_s it.
  Definition snd_e (it : item) := if colflow then row_e it else col_e it.

  Definition mk_area (fi fsz si ssz : Z) : area := if colflow then (fi, si, fsz, ssz) else (si, fi, ssz, fsz).
  Definition first_of (a : area) : Z * Z := let '(x, y, w, h) := a in if colflow then (x, w) else (y, h).
  Definition second_of (a : area) : Z * Z := let '(x, y, w, h) := a in if colflow then (y, h) else (x, w).

  (* ---- 1.1 position anything that is not auto-positioned (box.children, document order) *)
  Fixpoint phase11 (its : list (nat * item)) (l : plog) : plog :=
    match its with
    | [] => l
    | (i, it) :: r =>
        phase11 r (match get_placement (col_s it) (col_e it), get_placement (row_s it) (row_e it) with
                   | Some (x, w), Some (y, h) => (i, (x, y, w, h)) :: l
                   | _, _ => l
                   end)
    end.

  (* ---- _get_second_placement *)
  Definition occupied (fp : Z * Z) (ps : list area) : list (Z * Z) :=
    map second_of (filter (fun a => intersect (fst (first_of a)) (snd (first_of a)) (fst fp) (snd fp)) ps).

  (* dense: `for track in count()` *)
  Fixpoint dense_track (fuel : nat) (ss se : gline) (occ : list (Z * Z)) (track : Z) : option (Z * Z) :=
    match fuel with
    | O => None
    | S f =>
        if occ_mem track occ then dense_track f ss se occ (track + 1)
        else let pl := place_at ss se track in
             if occ_meets (fst pl) (snd pl) occ then dense_track f ss se occ (track + 1) else Some pl
    end.
  Definition dense_fuel (occ : list (Z * Z)) : nat := S (Z.to_nat (occ_max occ + 1)).

  (* sparse, second_start is a span: `for end_track in count(track + 1)` *)
  Fixpoint sparse_end (fuel : nat) (ss : gline) (track end_track : Z) : option (Z * Z) :=
    match fuel with
    | O => None
    | S f => let pl := pl_line_end ss (end_track + 1) in
             if track <=? fst pl then Some pl else sparse_end f ss track (end_track + 1)
    end.
  Definition sparse_fuel (ss : gline) : nat := S (Z.to_nat (get_span ss)).

  Definition second_placement (fp : Z * Z) (ss se : gline) (ps : list area) : option (Z * Z) :=
    let occ := occupied fp ps in
    if dense then dense_track (dense_fuel occ) ss se occ 0
    else let track := occ_next occ in
         match ss with
         | GAuto => Some (pl_line_start (track + 1) se)
         | _ => sparse_end (sparse_fuel ss) ss track (track + 1)
         end.

  (* ---- 1.2 items locked to a given row (resp. column); children sorted by order *)
  Fixpoint phase12 (ch : list (nat * item)) (l : plog) : option plog :=
    match ch with
    | [] => Some l
    | (i, it) :: r =>
        if is_placed i l then phase12 r l
        else match get_placement (fst_s it) (fst_e it) with
             | None => phase12 r l
             | Some fp =>
                 match second_placement fp (snd_s it) (snd_e it) (areas l) with
                 | None => None
                 | Some sp => phase12 r ((i, mk_area (fst fp) (snd fp) (fst sp) (snd sp)) :: l)
                 end
             end
    end.

  (* ---- 1.3 the second-axis bounds of the implicit grid, and the remaining items *)
  Fixpoint phase132 (ch : list (nat * item)) (l : plog) (b : Z * Z) : (Z * Z) * list (nat * item) :=
    match ch with
    | [] => (b, [])
    | (i, it) :: r =>
        match lookup_area i l with
        | Some a =>
            let '(k, size) := second_of a in
            phase132 r l (Z.min k (fst b), Z.max (k + size) (snd b))
        | None =>
            let b' := match get_placement (snd_s it) (snd_e it) with
                      | Some (k, size) => (Z.min k (fst b), Z.max (k + size) (snd b))
                      | None => b
                      end in
            let '(b'', rem) := phase132 r l b' in (b'', (i, it) :: rem)
        end
    end.

  Definition span133 (it : item) : Z :=
    match snd_s it with
    | GSpan n => or1 n
    | _ => match snd_e it with GSpan n => or1 n | _ => 1 end
    end.

  Fixpoint phase133 (rem : list (nat * item)) (is1 is2 : Z) : Z :=
    match rem with
    | [] => is2
    | (_, it) :: r => phase133 r is1 (Z.max (is1 + span133 it) is2)
    end.

  (* ---- 1.4 *)
  Definition first_bounds (ps : list area) (b : Z * Z) : Z * Z :=
    fold_left (fun b a => let '(k, size) := first_of a in (Z.min k (fst b), Z.max (k + size) (snd b))) ps b.

  Record pstate := mkState {
    st_log : plog;
    st_cf : Z;                 (* cursor_first *)
    st_cs : Z;                 (* cursor_second *)
    st_if2 : Z                 (* implicit_first_2 *)
  }.

  Variables is1 is2 if1 : Z.

  (* `for first_i in count(cursor_first)` (dense) / `for cursor_first in count(cursor_first)` (sparse):
     k is the loop variable; cmp is what `if first_i < cursor_first: continue` compares with *)
  Fixpoint first_search (fuel : nat) (sparse_cmp : bool) (fs fe : gline) (cf0 si ssz : Z) (ps : list area) (k : Z)
    : option (Z * Z * Z) :=
    match fuel with
    | O => None
    | S f =>
        let '(fi, fsz) := place_at fs fe k in
        if fi <? (if sparse_cmp then k else cf0) then first_search f sparse_cmp fs fe cf0 si ssz ps (k + 1)
        else if intersect_with_children (mk_area fi fsz si ssz) ps
             then first_search f sparse_cmp fs fe cf0 si ssz ps (k + 1)
             else Some (k, fi, fsz)
    end.
  Definition search_fuel (ps : list area) (cf : Z) : nat := S (Z.to_nat (max_end (map first_of ps) - cf)).

  (* `for second_i in range(cursor_second, implicit_second_2)`: n = length of the range *)
  Fixpoint scan_second (n : nat) (fs fe ss se : gline) (ps : list area) (k fi : Z) : option (area * Z * Z) :=
    match n with
    | O => None
    | S n' =>
        let '(fi', fsz) := place_at fs fe fi in
        let '(si, ssz) := place_at ss se k in
        let a := mk_area fi' fsz si ssz in
        if intersect_with_children a ps || (is2 <? si + ssz) then scan_second n' fs fe ss se ps (k + 1) fi'
        else Some (a, fi', fsz)
    end.

  (* `while True:` of the fully automatic items; returns (area, first_i, first_size, cursor_first, implicit_first_2) *)
  Fixpoint auto_loop (fuel : nat) (fs fe ss se : gline) (ps : list area) (cf cs if2 : Z)
    : option (area * Z * Z * Z * Z) :=
    match fuel with
    | O => None
    | S f =>
        match scan_second (Z.to_nat (is2 - cs)) fs fe ss se ps cs cf with
        | Some (a, fi, fsz) => Some (a, fi, fsz, cf, if2)
        | None =>
            let cf' := cf + 1 in
            let d := cf' + 1 - if2 in
            auto_loop f fs fe ss se ps cf' is1 (if 0 <? d then if2 + d else if2)
        end
    end.
  Definition auto_fuel (ps : list area) (cf : Z) : nat := S (S (Z.to_nat (max_end (map first_of ps) - cf))).

  Definition bump (if2 d : Z) : Z := if 0 <? d then if2 + d else if2.

  Definition step14 (st : pstate) (c : nat * item) : outcome pstate :=
    let '(i, it) := c in
    let fs := fst_s it in let fe := fst_e it in let ss := snd_s it in let se := snd_e it in
    let ps := areas (st_log st) in
    match get_placement ss se with
    | Some (si, ssz) =>
        if dense then
          let cf := if1 in
          match first_search (search_fuel ps cf) false fs fe cf si ssz ps cf with
          | None => OutOfFuel
          | Some (_, fi, fsz) =>
              Ok (mkState ((i, mk_area fi fsz si ssz) :: st_log st) cf si (bump (st_if2 st) (fi + fsz - st_if2 st)))
          end
        else
          let cf := if si <? st_cs st then st_cf st + 1 else st_cf st in
          match first_search (search_fuel ps cf) true fs fe cf si ssz ps cf with
          | None => OutOfFuel
          | Some (k, fi, fsz) =>
              Ok (mkState ((i, mk_area fi fsz si ssz) :: st_log st) k si (bump (st_if2 st) (fi + fsz - st_if2 st)))
          end
    | None =>
        let cf := if dense then if1 else st_cf st in
        let cs := if dense then is1 else st_cs st in
        match auto_loop (auto_fuel ps cf) fs fe ss se ps cf cs (st_if2 st) with
        | None => OutOfFuel
        | Some (a, fi, fsz, cf', if2') =>
            Ok (mkState ((i, a) :: st_log st) cf'
                        (if Z.eqb cf' cf then cs else is1)
                        (bump if2' (fi + fsz - if2')))
        end
    end.

  Fixpoint phase14 (rem : list (nat * item)) (st : pstate) : outcome pstate :=
    match rem with
    | [] => Ok st
    | c :: r => match step14 st c with
                | Ok st' => phase14 r st'
                | OutOfFuel => OutOfFuel
                end
    end.
End Placement.

(* result of step 1: the log (most recent first) and (implicit_x1, implicit_x2, implicit_y1, implicit_y2) *)
Definition grid_place_log (tcols trows : Z) (colflow dense : bool) (items : list item)
  : outcome (plog * (Z * Z * Z * Z)) :=
  (* grid-template-areas none: the explicit grid has the template track counts, possibly 0 *)
  let ec := tcols in
  let er := trows in
  let doc := index_from 0 items in
  let l1 := phase11 doc [] in
  let children := sort_children doc in
  match phase12 colflow dense children l1 with
  | None => OutOfFuel
  | Some l2 =>
      let '((is1, is2a), rem) := phase132 colflow children l2 (0, if colflow then er else ec) in
      let is2 := phase133 colflow rem is1 is2a in
      let '(if1, if2) := first_bounds colflow (areas l2) (0, if colflow then ec else er) in
      match phase14 colflow dense is1 is2 if1 rem (mkState l2 if1 is1 if2) with
      | Ok st =>
          (* "Keep one track when there is neither explicit track nor grid item" *)
          let if2 := Z.max (st_if2 st) (if1 + 1) in
          let is2' := Z.max is2 (is1 + 1) in
          Ok (st_log st, if colflow then (if1, if2, is1, is2') else (is1, is2', if1, if2))
      | OutOfFuel => OutOfFuel
      end
  end.

Definition grid_place (tcols trows : Z) (colflow dense : bool) (items : list item)
  : outcome (list (option area) * (Z * Z * Z * Z)) :=
  match grid_place_log tcols trows colflow dense items with
  | Ok (l, b) => Ok (map (fun i => lookup_area i l) (seq 0 (length items)), b)
  | OutOfFuel => OutOfFuel
  end.

(* step 1 of grid_layout on the items as the style sheet gives them: the negative integers of their
   grid-placement properties are counted from the end of the explicit grid (columns[::2] / rows[::2] hold one
   list of names per line: explicit tracks + 1), then the phases above run *)
Definition resolve_item (tcols trows : Z) (it : item) : item :=
  let nc := tcols + 1 in let nr := trows + 1 in
  mkItem (resolve_line nc (col_s it)) (resolve_line nc (col_e it))
         (resolve_line nr (row_s it)) (resolve_line nr (row_e it)) (order it).
Definition grid_layout_place (tcols trows : Z) (colflow dense : bool) (items : list item)
  : outcome (list (option area) * (Z * Z * Z * Z)) :=
  grid_place tcols trows colflow dense (map (resolve_item tcols trows) items).

(* ------------------------------------------------------------- after placement, with px tracks only *)

(* Python list indexing and slicing (negative indices count from the end) *)
Definition py_index {A} (l : list A) (i : Z) : option A :=
  let n := Z.of_nat (length l) in
  if (i <? - n) || (n <=? i) then None else nth_error l (Z.to_nat (if i <? 0 then i + n else i)).
Definition py_clip (n i : Z) : Z := if i <? 0 then Z.max (i + n) 0 else Z.min i n.
Definition py_slice {A} (l : list A) (a b : Z) : list A :=
  let n := Z.of_nat (length l) in
  let a' := py_clip n a in let b' := py_clip n b in
  firstn (Z.to_nat (b' - a')) (skipn (Z.to_nat a') l).

Definition zsum (l : list Z) : Z := fold_right Z.add 0 l.

(* the track list after `columns.insert(0, ...)` / `columns.append(...)`: sizes in px *)
Definition implicit_tracks (explicit : list Z) (auto : Z) (i1 i2 : Z) : list Z :=
  repeat auto (Z.to_nat (0 - i1)) ++ explicit ++ repeat auto (Z.to_nat (i2 - Z.of_nat (length explicit))).

(* 3.5 with justify-content / align-content normal: positions from the content edge (0) *)
Fixpoint track_positions (sizes : list Z) (gap pos : Z) : list Z :=
  match sizes with [] => [] | s :: r => pos :: track_positions r gap (pos + s + gap) end.

(* "Count positions from the first implicit track": children_positions[child] = (x - implicit_x1, y - implicit_y1, w, h) *)
Definition shift_area (x1 y1 : Z) (a : area) : area := let '(x, y, w, h) := a in (x - x1, y - y1, w, h).

(* columns_positions[x] / rows_positions[y] (and tracks_children[coord] in _resolve_tracks_sizes) raise IndexError
   when the shifted start of an area is not the index of a track *)
Definition index_error (ncols nrows : Z) (ps : list area) : bool :=
  existsb (fun a => let '(x, y, _, _) := a in negb ((0 <=? x) && (x <? ncols) && (0 <=? y) && (y <? nrows))) ps.

(* 4: the rectangle of a (shifted) area, computed with Python indexing / slicing on the lists of positions and sizes *)
Definition item_rect (cols rows : list Z) (gap_c gap_r : Z) (a : area) : option (Z * Z * Z * Z) :=
  let '(x, y, w, h) := a in
  match py_index (track_positions cols gap_c 0) x, py_index (track_positions rows gap_r 0) y with
  | Some px, Some py =>
      Some (px, py, zsum (py_slice cols x (x + w)) + (w - 1) * gap_c,
            zsum (py_slice rows y (y + h)) + (h - 1) * gap_r)
  | _, _ => None
  end.

(* placement = the areas as _resolve_tracks_sizes receives them (shifted) *)
Inductive render_outcome :=
| ROk (placement : list (option area)) (rects : list (option (Z * Z * Z * Z)))
| RCrashIndex | RFuel.

Record pcase := mkPcase {
  pc_cols : list Z; pc_rows : list Z;            (* grid-template-columns / rows in px ([] = none) *)
  pc_auto_col : Z; pc_auto_row : Z;              (* grid-auto-columns / rows in px *)
  pc_colflow : bool; pc_dense : bool;
  pc_gap_c : Z; pc_gap_r : Z;
  pc_items : list item
}.

Definition render_model (c : pcase) : render_outcome :=
  match grid_layout_place (Z.of_nat (length (pc_cols c))) (Z.of_nat (length (pc_rows c))) (pc_colflow c) (pc_dense c)
                          (pc_items c) with
  | OutOfFuel => RFuel
  | Ok (pl, b) =>
      let '(x1, x2, y1, y2) := b in
      let cols := implicit_tracks (pc_cols c) (pc_auto_col c) x1 x2 in
      let rows := implicit_tracks (pc_rows c) (pc_auto_row c) y1 y2 in
      let spl := map (option_map (shift_area x1 y1)) pl in
      let ps := flat_map (fun o => match o with Some a => [a] | None => [] end) spl in
      if index_error (Z.of_nat (length cols)) (Z.of_nat (length rows)) ps then RCrashIndex
      else ROk spl (map (fun o => match o with
                                  | Some a => item_rect cols rows (pc_gap_c c) (pc_gap_r c) a
                                  | None => None end) spl)
  end.

(* ------------------------------------------------------------------ decidable specification (css-grid) *)

(* css-grid 8.3: a positive integer n is the n-th line; a negative one counts from the end edge of the
   explicit grid (-1 = last explicit line = index `explicit`), 0-based line index *)
Definition css_line (explicit : Z) (n : Z) : Z := if n <? 0 then explicit + 1 + n else n - 1.
Definition css_range (explicit : Z) (s e : gline) : option (Z * Z) :=
  let fix2 := fun (a b : Z) => if a <? b then (a, b - a) else if b <? a then (b, a - b) else (a, 1) in
  match s, e with
  | GLine a, GLine b => Some (fix2 (css_line explicit a) (css_line explicit b))
  | GLine a, GAuto => Some (css_line explicit a, 1)
  | GLine a, GSpan n => Some (css_line explicit a, n)
  | GAuto, GLine b => Some (css_line explicit b - 1, 1)
  | GSpan n, GLine b => Some (css_line explicit b - n, n)
  | _, _ => None
  end.
(* the size an automatic axis must have: the span of the start, else of the end, else 1 *)
Definition css_span (s e : gline) : Z :=
  match s with GSpan n => n | _ => match e with GSpan n => n | _ => 1 end end.

Definition opt_pair_eqb (a : option (Z * Z)) (k s : Z) : bool :=
  match a with Some (k', s') => (k =? k') && (s =? s') | None => true end.

(* clause A: an axis given by line numbers occupies exactly those lines; an automatic axis has its span *)
Definition spec_lines (tcols trows : Z) (it : item) (a : area) : bool :=
  let '(x, y, w, h) := a in
  opt_pair_eqb (css_range tcols (col_s it) (col_e it)) x w &&
  opt_pair_eqb (css_range trows (row_s it) (row_e it)) y h &&
  (match css_range tcols (col_s it) (col_e it) with None => w =? css_span (col_s it) (col_e it) | _ => true end) &&
  (match css_range trows (row_s it) (row_e it) with None => h =? css_span (row_s it) (row_e it) | _ => true end).

Definition definite_item (it : item) : bool :=
  match get_placement (col_s it) (col_e it), get_placement (row_s it) (row_e it) with
  | Some _, Some _ => true | _, _ => false end.

(* clause B: an auto-placed item overlaps no other item *)
Fixpoint spec_no_overlap (l : list (item * area)) : bool :=
  match l with
  | [] => true
  | (it, a) :: r =>
      forallb (fun q => (definite_item it && definite_item (fst q)) || negb (area_meets a (snd q))) r &&
      spec_no_overlap r
  end.

(* clause D (css-grid 8.5 step 2, both packing modes): an item locked to the auto-flow axis only (its row in row flow)
   whose rows (resp. columns) hold no other item starts on the first line of the other axis *)
Definition spec_locked_alone (colflow : bool) (ias : list (item * area)) : bool :=
  forallb (fun p =>
    let it := fst p in let a := snd p in
    match get_placement (fst_s colflow it) (fst_e colflow it), get_placement (snd_s colflow it) (snd_e colflow it) with
    | Some _, None =>
        let fr := first_of colflow a in
        negb (Nat.eqb (length (filter (fun q => let gr := first_of colflow (snd q) in
                                                intersect (fst fr) (snd fr) (fst gr) (snd gr)) ias)) 1)
        || (fst (second_of colflow a) =? 0)
    | _, _ => true
    end) ias.

(* clause C: the rectangle of an item is the rectangle of its area in the implicit grid that css-grid 7.5
   defines: the explicit tracks where the template gives them, grid-auto-* tracks elsewhere, as many
   implicit tracks as the items need on both sides; tracks start at the content edge (justify-content normal) *)
Definition css_track (explicit : list Z) (auto : Z) (k : Z) : Z :=
  if (0 <=? k) && (k <? Z.of_nat (length explicit)) then nth (Z.to_nat k) explicit auto else auto.
Fixpoint css_extent (explicit : list Z) (auto gap : Z) (from : Z) (n : nat) : Z :=   (* n tracks and n gaps from `from` *)
  match n with O => 0 | S n' => css_track explicit auto from + gap + css_extent explicit auto gap (from + 1) n' end.
Definition css_rect (c : pcase) (gx1 gy1 : Z) (a : area) : Z * Z * Z * Z :=
  let '(x, y, w, h) := a in
  (css_extent (pc_cols c) (pc_auto_col c) (pc_gap_c c) gx1 (Z.to_nat (x - gx1)),
   css_extent (pc_rows c) (pc_auto_row c) (pc_gap_r c) gy1 (Z.to_nat (y - gy1)),
   css_extent (pc_cols c) (pc_auto_col c) (pc_gap_c c) x (Z.to_nat w) - pc_gap_c c,
   css_extent (pc_rows c) (pc_auto_row c) (pc_gap_r c) y (Z.to_nat h) - pc_gap_r c).

Open Scope Q_scope.
Definition qclose (a b : Q) : bool := Qle_bool (Qabs (a - b)) ((1 # 1000000) * Qmax 1 (Qabs b)).
Definition rect_close (r : Q * Q * Q * Q) (m : Z * Z * Z * Z) : bool :=
  let '(a, b, c, d) := r in let '(a', b', c', d') := m in
  qclose a (inject_Z a') && qclose b (inject_Z b') && qclose c (inject_Z c') && qclose d (inject_Z d').
Close Scope Q_scope.

Definition orect_close (r : option (Q * Q * Q * Q)) (m : option (Z * Z * Z * Z)) : bool :=
  match r, m with
  | Some r, Some m => rect_close r m
  | None, None => true
  | _, _ => false
  end.

Definition area_eqb (a b : area) : bool :=
  let '(x, y, w, h) := a in let '(x', y', w', h') := b in (x =? x') && (y =? y') && (w =? w') && (h =? h').
Definition oarea_eqb (a b : option area) : bool :=
  match a, b with Some a, Some b => area_eqb a b | None, None => true | _, _ => false end.

Fixpoint all2 {A B} (f : A -> B -> bool) (l : list A) (m : list B) : bool :=
  match l, m with
  | [], [] => true
  | a :: l', b :: m' => f a b && all2 f l' m'
  | _, _ => false
  end.

(* what the harness observed *)
Inductive impl_outcome :=
| IOk (placement : list (option area)) (rects : list (option (Q * Q * Q * Q)))   (* placement: shifted areas *)
| ICrashUnbound     (* UnboundLocalError in grid_layout *)
| ICrashIndex       (* IndexError in grid_layout / _resolve_tracks_sizes *)
| ICrashOther
| ITimeout.

Definition bit (n : nat) (b : bool) : nat := if b then 0%nat else n.

(* mask: 1 model <> implementation; 2 some clause of the specification fails on the implementation's output
   (4 clause A lines, 8 clause B overlap, 16 clause C rectangles, 32 the implementation crashed or hung,
    64 clause D an item locked to an otherwise empty row / column does not start on the first line) *)
Definition place_judge (ci : pcase * impl_outcome) : nat :=
  let '(c, o) := ci in
  let tcols := Z.of_nat (length (pc_cols c)) in
  let trows := Z.of_nat (length (pc_rows c)) in
  let m := render_model c in
  let corr :=
    match m, o with
    | ROk mp mr, IOk ip ir => all2 oarea_eqb mp ip && all2 orect_close ir mr
    | RCrashIndex, ICrashIndex => true
    | _, _ => false
    end in
  let clauses :=
    match o with
    | IOk ip ir =>
        let sias := flat_map (fun p => match snd p with Some a => [(fst p, a)] | None => [] end)
                             (combine (pc_items c) ip) in
        (* the observed areas count from the first implicit track; css-grid coordinates count from the first
           explicit line: the offset is given by any item placed by a line number (0 when there is none) *)
        let lead := fun (horizontal : bool) =>
          match flat_map (fun p => let '(x, y, _, _) := snd p in
                                   match (if horizontal then css_range tcols (col_s (fst p)) (col_e (fst p))
                                          else css_range trows (row_s (fst p)) (row_e (fst p))) with
                                   | Some (k, _) => [k - (if horizontal then x else y)]
                                   | None => [] end) sias with
          | g :: _ => g | [] => 0 end in
        let ias := map (fun p => (fst p, shift_area (- lead true) (- lead false) (snd p))) sias in
        let ip := map (option_map (shift_area (- lead true) (- lead false))) ip in
        let complete := Nat.eqb (length ias) (length (pc_items c)) in
        let a_ok := complete && forallb (fun p => spec_lines tcols trows (fst p) (snd p)) ias &&
                    (lead true =? fold_left Z.min (map (fun p => let '(x, _, _, _) := snd p in x) ias) 0) &&
                    (lead false =? fold_left Z.min (map (fun p => let '(_, y, _, _) := snd p in y) ias) 0) in
        let b_ok := spec_no_overlap ias in
        let gx1 := fold_left Z.min (map (fun p => let '(x, _, _, _) := snd p in x) ias) 0 in
        let gy1 := fold_left Z.min (map (fun p => let '(_, y, _, _) := snd p in y) ias) 0 in
        let c_ok := complete &&
                    all2 (fun oa r => match oa, r with
                                      | Some a, Some r => rect_close r (css_rect c gx1 gy1 a)
                                      | _, _ => false end) ip ir in
        let d_ok := spec_locked_alone (pc_colflow c) ias in
        (bit 4 a_ok + bit 8 b_ok + bit 16 c_ok + bit 64 d_ok)%nat
    | _ => 32%nat
    end in
  (bit 1 corr + (if Nat.eqb clauses 0 then 0 else 2) + clauses)%nat.

(* ------------------------------------------------------------------------------------------------------ *)
(* Track sizing: _resolve_tracks_sizes for px, percentage and fr sizing functions, definite box size.      *)
(* An fr track has min_function 'auto' (after _get_sizing_functions): its base size is the largest          *)
(* min-content contribution b of the items spanning only that track (0 for an empty track).                *)
(* ------------------------------------------------------------------------------------------------------ *)
Open Scope Q_scope.

Inductive track := TLen (q : Q) | TPct (q : Q) | TFr (f b : Q).

Definition is_fr (t : track) : bool := match t with TFr _ _ => true | _ => false end.
Definition fr_factor (t : track) : Q := match t with TFr f _ => f | _ => 0 end.

(* 1.1 (and 1.2.2 for the base of fr tracks): [base_size, growth_limit], None = inf *)
Definition init_size (box : Q) (t : track) : Q * option Q :=
  match t with
  | TLen q => (q, Some (Qmax q q))
  | TPct p => (box * p / 100, Some (Qmax (box * p / 100) (box * p / 100)))
  | TFr _ b => (b, None)
  end.
(* 1.2.5 *)
Definition fix_inf (s : Q * option Q) : Q * Q := match snd s with Some g => (fst s, g) | None => (fst s, fst s) end.

Definition qsum (l : list Q) : Q := fold_right Qplus 0 l.
Definition qlen {A} (l : list A) : Q := inject_Z (Z.of_nat (length l)).

(* 1.3 maximize tracks: one pass, free_space threaded *)
Fixpoint maximize (d : Q) (sizes : list (Q * Q)) (free : Q) : list (Q * Q) * Q :=
  match sizes with
  | [] => ([], free)
  | (base, gl) :: r =>
      if Qlt_le_dec gl (base + d)
      then let '(r', free') := maximize d r (free - (gl - base)) in ((gl, gl) :: r', free')
      else let '(r', free') := maximize d r (free - d) in ((base + d, gl) :: r', free')
  end.

(* 1.4, first inner loop: leftover_space and flex_factor_sum *)
Fixpoint flex_sums (ts : list track) (sizes : list (Q * Q)) (infl : list bool) (lft fsum : Q) : Q * Q :=
  match ts, sizes, infl with
  | t :: ts', s :: sizes', i :: infl' =>
      if is_fr t then flex_sums ts' sizes' infl' (lft + fst s) (if i then fsum else fsum + fr_factor t)
      else flex_sums ts' sizes' infl' lft fsum
  | _, _, _ => (lft, fsum)
  end.
(* second inner loop: marks inflexible tracks, returns (inflexible, free_space, stop) *)
Fixpoint flex_mark (hyp : Q) (ts : list track) (sizes : list (Q * Q)) (infl : list bool) (free : Q) (stop : bool)
  : list bool * Q * bool :=
  match ts, sizes, infl with
  | t :: ts', s :: sizes', i :: infl' =>
      if negb i && is_fr t && (if Qlt_le_dec (hyp * fr_factor t) (fst s) then true else false)
      then let free' := free - fst s in
           let '(m, f, st) := flex_mark hyp ts' sizes' infl' free' false in   (* stop = False: restart *)
           (true :: m, f, st)
      else let '(m, f, st) := flex_mark hyp ts' sizes' infl' free stop in (i :: m, f, st)
  | _, _, _ => ([], free, stop)
  end.
(* `while not stop` ; returns (inflexible_tracks, free_space, hypothetical_fr_size) *)
Fixpoint flex_loop (fuel : nat) (ts : list track) (sizes : list (Q * Q)) (infl : list bool) (free : Q)
  : option (list bool * Q * Q) :=
  match fuel with
  | O => None
  | S f =>
      let '(lft, fsum) := flex_sums ts sizes infl free 0 in
      let hyp := lft / Qmax 1 fsum in
      let '(infl', free', stop) := flex_mark hyp ts sizes infl free true in
      if stop then Some (infl', free', hyp) else flex_loop f ts sizes infl' free'
  end.
(* final expansion of the flexible tracks *)
Fixpoint flex_expand (ff : Q) (ts : list track) (sizes : list (Q * Q)) (infl : list bool) (free : Q)
  : list (Q * Q) * Q :=
  match ts, sizes, infl with
  | t :: ts', s :: sizes', i :: infl' =>
      if is_fr t && negb i && (if Qlt_le_dec (fst s) (ff * fr_factor t) then true else false)
      then let '(r, f) := flex_expand ff ts' sizes' infl' (free - ff * fr_factor t) in
           ((ff * fr_factor t, snd s) :: r, f)
      else let '(r, f) := flex_expand ff ts' sizes' infl' free in (s :: r, f)
  | _, _, _ => ([], free)
  end.
(* None: division by len(tracks) = 0, or fuel exhausted (proved impossible) *)
Definition resolve_tracks (ts : list track) (box gap : Q) (stretch : bool) : option (list Q) :=
  match ts with
  | [] => None
  | _ =>
      let sizes0 := map (fun t => fix_inf (init_size box t)) ts in
      let free0 := box - qsum (map fst sizes0) - (qlen ts - 1) * gap in
      let '(sizes1, free1) :=
        if Qlt_le_dec 0 free0 then maximize (free0 / qlen ts) sizes0 free0 else (sizes0, free0) in
      let infl0 := map (fun _ => false) ts in
      match (if Qlt_le_dec 0 free1
             then flex_loop (S (length ts)) ts sizes1 infl0 free1
             else Some (infl0, free1, 0)) with
      | None => None
      | Some (infl, free2, ff) =>
          let '(sizes3, free3) := flex_expand ff ts sizes1 infl free2 in
          (* 1.5 stretches the tracks whose MAX sizing function is 'auto': none of px, percentage, fr
             (`stretch`, justify-content / align-content normal or stretch, no longer matters) *)
          Some (map fst sizes3)
      end
  end.

(* 3.5 track positions (content edge at x0) and 4 the rectangle side of an area *)
Fixpoint qpositions (sizes : list Q) (gap pos : Q) : list Q :=
  match sizes with [] => [] | s :: r => pos :: qpositions r gap (pos + s + gap) end.
Definition span_extent (sizes : list Q) (gap : Q) (x w : nat) : Q :=
  qsum (firstn w (skipn x sizes)) + (inject_Z (Z.of_nat w) - 1) * gap.

(* ---- the judge of the track stream ---- *)
(* an item of the track stream: area (x, y, w, h) given by line numbers, one inner block of cw x ch px *)
Definition titem := (nat * nat * nat * nat * Q * Q)%type.

Inductive tspec := SPx (q : Q) | SPct (q : Q) | SFr (f : Q).

(* base size of fr track k: largest content size of the items of span 1 in that track *)
Definition content_base (horizontal : bool) (items : list titem) (k : nat) : Q :=
  fold_left (fun acc it => let '(x, y, w, h, cw, ch) := it in
                           if horizontal then (if Nat.eqb w 1 && Nat.eqb x k then Qmax acc cw else acc)
                           else (if Nat.eqb h 1 && Nat.eqb y k then Qmax acc ch else acc)) items 0.
Fixpoint to_tracks (horizontal : bool) (items : list titem) (k : nat) (l : list tspec) : list track :=
  match l with
  | [] => []
  | SPx q :: r => TLen q :: to_tracks horizontal items (S k) r
  | SPct q :: r => TPct q :: to_tracks horizontal items (S k) r
  | SFr f :: r => TFr f (content_base horizontal items k) :: to_tracks horizontal items (S k) r
  end.

Record tcase := mkTcase {
  tc_cols : list tspec; tc_rows : list tspec;
  tc_width : Q; tc_height : Q; tc_gap_c : Q; tc_gap_r : Q;
  tc_stretch_x : bool; tc_stretch_y : bool;       (* justify-content / align-content is normal or stretch *)
  tc_items : list titem;
  (* implementation output *)
  tc_icols : list Q; tc_irows : list Q; tc_irects : list (Q * Q * Q * Q)
}.

Definition qlist_close (a b : list Q) : bool := all2 qclose a b.

Definition model_rect (cols rows : list Q) (gc gr : Q) (it : titem) : Q * Q * Q * Q :=
  let '(x, y, w, h, _, _) := it in
  (nth x (qpositions cols gc 0) 0, nth y (qpositions rows gr 0) 0, span_extent cols gc x w, span_extent rows gr y h).

Definition rect_qclose (r m : Q * Q * Q * Q) : bool :=
  let '(a, b, c, d) := r in let '(a', b', c', d') := m in qclose a a' && qclose b b' && qclose c c' && qclose d d'.

(* css-grid 12.7 / 12.7.1 for tracks without content (all bases 0): the specification of one axis.
   fixed tracks keep their size; with free space F = box - fixed - gaps > 0 every fr track f_i gets
   f_i * F / max(1, sum f); the tracks and gaps then fill the box exactly when sum f >= 1, and leave
   F * (1 - sum f) unfilled otherwise; with F <= 0 the fr tracks are 0. *)
Definition spec_axis (ts : list tspec) (box gap : Q) (out : list Q) : bool :=
  let fixed := qsum (map (fun t => match t with SPx q => q | SPct p => box * p / 100 | SFr _ => 0 end) ts) in
  let fsum := qsum (map (fun t => match t with SFr f => f | _ => 0 end) ts) in
  let free := box - fixed - (qlen ts - 1) * gap in
  let unit := if Qlt_le_dec 0 free then free / Qmax 1 fsum else 0 in
  all2 (fun t o => match t with
                   | SPx q => qclose o q
                   | SPct p => qclose o (box * p / 100)
                   | SFr f => qclose o (f * unit) end) ts out.

Definition no_content (horizontal : bool) (items : list titem) : bool :=
  forallb (fun it => let '(_, _, _, _, cw, ch) := it in Qeq_bool (if horizontal then cw else ch) 0) items.

(* css-grid 12.7.1 "find the size of an fr" for tracks WITH content (reference written from the specification):
   leftover = space - base sizes of the non-flexible tracks; hypothetical size = leftover / max(1, sum of the flexible
   factors); if that size times a flexible track's factor is less than the track's base size, RESTART treating all such
   tracks as inflexible.  Then every fr track is max(base, size * factor). *)
Definition track_base (box : Q) (t : track) : Q :=
  match t with TLen q => q | TPct p => box * p / 100 | TFr _ b => b end.
Fixpoint css_fr_loop (fuel : nat) (box space : Q) (ts : list track) (infl : list bool) : option Q :=
  match fuel with
  | O => None
  | S f =>
      let flexible := fun (p : track * bool) => is_fr (fst p) && negb (snd p) in
      let leftover := space - qsum (map (fun p => if flexible p then 0 else track_base box (fst p)) (combine ts infl)) in
      let fsum := qsum (map (fun p => if flexible p then fr_factor (fst p) else 0) (combine ts infl)) in
      let hyp := leftover / Qmax 1 fsum in
      let infl' := map (fun p => snd p || (is_fr (fst p) &&
                                  (if Qlt_le_dec (hyp * fr_factor (fst p)) (track_base box (fst p)) then true else false)))
                       (combine ts infl) in
      if forallb (fun p => Bool.eqb (fst p) (snd p)) (combine infl infl') then Some hyp
      else css_fr_loop f box space ts infl'
  end.
Definition css_resolve (ts : list track) (box gap : Q) : option (list Q) :=
  match css_fr_loop (S (length ts)) box (box - (qlen ts - 1) * gap) ts (map (fun _ => false) ts) with
  | Some hyp => Some (map (fun t => match t with TFr f b => Qmax b (hyp * f) | _ => track_base box t end) ts)
  | None => None
  end.
Definition spec_axis_content (ts : list track) (box gap : Q) (out : list Q) : bool :=
  match css_resolve ts box gap with Some ref => qlist_close out ref | None => false end.

(* mask: 1 model <> implementation (sizes or rectangles); 2 specification violated
   (4 columns, 8 rows: css-grid 12.7 track sizes; 16 an item rectangle is not the rectangle of its area computed
    from the implementation's own track sizes) *)
Definition tracks_judge (c : tcase) : nat :=
  let tx := to_tracks true (tc_items c) 0 (tc_cols c) in
  let ty := to_tracks false (tc_items c) 0 (tc_rows c) in
  let corr :=
    match resolve_tracks tx (tc_width c) (tc_gap_c c) (tc_stretch_x c),
          resolve_tracks ty (tc_height c) (tc_gap_r c) (tc_stretch_y c) with
    | Some mx, Some my =>
        qlist_close (tc_icols c) mx && qlist_close (tc_irows c) my &&
        all2 (fun r it => rect_qclose r (model_rect mx my (tc_gap_c c) (tc_gap_r c) it)) (tc_irects c) (tc_items c)
    | _, _ => false
    end in
  let sx := if no_content true (tc_items c) then spec_axis (tc_cols c) (tc_width c) (tc_gap_c c) (tc_icols c)
            else spec_axis_content tx (tc_width c) (tc_gap_c c) (tc_icols c) in
  let sy := if no_content false (tc_items c) then spec_axis (tc_rows c) (tc_height c) (tc_gap_r c) (tc_irows c)
            else spec_axis_content ty (tc_height c) (tc_gap_r c) (tc_irows c) in
  let sr := all2 (fun r it => rect_qclose r (model_rect (tc_icols c) (tc_irows c) (tc_gap_c c) (tc_gap_r c) it))
                 (tc_irects c) (tc_items c) in
  let clauses := (bit 4 sx + bit 8 sy + bit 16 sr)%nat in
  (bit 1 corr + (if Nat.eqb clauses 0 then 0 else 2) + clauses)%nat.
Close Scope Q_scope.
