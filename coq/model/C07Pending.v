(* C07 - weasyprint/css/utils.py Pending.solve, weasyprint/css/validation/properties.py PendingProperty.validate,
   weasyprint/css/validation/expanders.py PendingExpander.validate, and the use ComputedStyle.__missing__ makes of
   them: ONE Pending object per declaration, shared by every element the rule matches and (for a shorthand) by
   every longhand.  Its state - the "warning already reported" flag - is made explicit: a state machine over the
   sequence of solve() calls.  Definitions only. *)
From Coq Require Import ZArith List Bool String Ascii.
Require Import WV.model.C07Tok WV.model.C07Decl WV.model.C07Expand.
Import ListNotations.
Open Scope string_scope.

(* how a generator ends after the items it yields: exhausted, raise InvalidValues, raise something else *)
Inductive gen_end : Type := GDone | GInvalid | GCrash.
Definition gen (A : Type) : Type := (list A * gen_end)%type.

Section Pending.
  Variable V : Type.

  (* PendingProperty.validate(tokens, wanted_key) = validate_non_shorthand(tokens, self.name)[0][1]
     (the wanted key is not looked at; g = what validate_non_shorthand does on the tokens) *)
  Definition property_validate (g : gen (string * V)) : res V :=
    match g with
    | ((_, v) :: _, _) => Ok v
    | ([], GInvalid) => Invalid
    | ([], _) => Crash
    end.

  (* PendingExpander.validate: for key, value in tuple(self.validator(tokens)): the generator is consumed entirely
     first - what it raises, the call raises ; then a suffix gets the shorthand's name in front and the value of the
     first key that is the wanted one is returned ; KeyError when there is none. *)
  Fixpoint find_key (shorthand : string) (items : list (string * V)) (wanted : string) : option V :=
    match items with
    | [] => None
    | (k, v) :: r =>
        let k' := if prefix "-" k then (shorthand ++ k)%string else k in
        if String.eqb k' wanted then Some v else find_key shorthand r wanted
    end.

  Definition expander_validate (shorthand : string) (g : gen (string * V)) (wanted : string) : res V :=
    match snd g with
    | GInvalid => Invalid
    | GCrash => Crash
    | GDone => match find_key shorthand (fst g) wanted with Some v => Ok v | None => Crash end
    end.

  (* one call of Pending.solve(tokens, wanted_key) on an object whose _reported_error flag is [reported]:
     (what it returns or raises, the flag afterwards, whether a warning is logged).
     [outcome] = self.validate(tokens, wanted_key), [empty] = `not tokens`. *)
  Definition solve (reported : bool) (empty : bool) (outcome : res V) : res V * bool * bool :=
    let r := if empty then Invalid else outcome in
    match r with
    | Invalid => (Invalid, true, negb reported)
    | other => (other, reported, false)
    end.

  (* the object's life: the calls it receives, in the order the elements and their properties are computed *)
  Fixpoint run (reported : bool) (calls : list (bool * res V)) : list (res V * bool) :=
    match calls with
    | [] => []
    | (empty, outcome) :: rest =>
        match solve reported empty outcome with
        | (r, reported', logged) => (r, logged) :: run reported' rest
        end
    end.

  (* what the same call gives on an object of its own *)
  Definition alone (c : bool * res V) : res V := fst (fst (solve false (fst c) (snd c))).

  (* ComputedStyle.__missing__ after value.solve(): the validated value, or - InvalidValues - the declaration
     counts for nothing for THIS element: inherited value or initial value, that is `unset` *)
  Inductive computed : Type := Specified (v : V) | Unset | Raised.
  Definition computed_of (r : res V) : computed :=
    match r with Ok v => Specified v | Invalid => Unset | Crash => Raised end.
End Pending.

Arguments Specified {V} v.
Arguments Unset {V}.
Arguments Raised {V}.

(* CSS Custom Properties 1, 3.1: a declaration that is invalid once var() is substituted is invalid at
   computed-value time as a whole: when the expander refuses the substituted tokens, no longhand takes a value *)
Definition all_or_nothing {V} (shorthand : string) (g : gen (string * V)) (keys : list string) : bool :=
  match snd g with
  | GInvalid => forallb (fun k => match expander_validate V shorthand g k with Ok _ => false | _ => true end) keys
  | _ => true
  end.

(* expand_four_sides as the generator it is: the sides validated so far are yielded before the next one is
   looked at (model/C07Expand.expand_four_sides is what list() makes of it) *)
Section LazyFourSides.
  Variable V0 : Type.
  Variable known supported : string -> bool.
  Variable prop_validator : string -> list tok -> option V0.

  Fixpoint validate_each_gen (l : list (string * list tok)) : gen (string * value V0) :=
    match l with
    | [] => ([], GDone)
    | (n, ts) :: r =>
        match vns1 V0 known supported prop_validator ts n with
        | Ok nv => let (items, e) := validate_each_gen r in (nv :: items, e)
        | Invalid => ([], GInvalid)
        | Crash => ([], GCrash)
        end
    end.

  Definition four_sides_gen (tokens : list tok) (name : string) : gen (string * value V0) :=
    let expanded_names := four_names name in
    if any_var tokens then (map (fun n => (n, VPendingExp tokens name)) expanded_names, GDone)
    else match four_tokens_checked tokens with
         | None => ([], GInvalid)
         | Some four => validate_each_gen (combine expanded_names (map (fun t => [t]) four))
         end.

  Definition gen_result {A} (g : gen A) : res (list A) :=
    match snd g with GDone => Ok (fst g) | GInvalid => Invalid | GCrash => Crash end.
End LazyFourSides.

(* ------------------------------------------------------------------ judge of the stream pending-direct *)
Definition end_of (n : nat) : gen_end := match n with 0%nat => GDone | 1%nat => GInvalid | _ => GCrash end.

Definition res_code (r : res Z) : nat * Z :=
  match r with Invalid => (0%nat, 0%Z) | Crash => (1%nat, 0%Z) | Ok v => (2%nat, v) end.

Definition call_outcome (is_property : bool) (shorthand : string)
           (c : bool * (list (string * Z) * nat) * string) : bool * res Z :=
  match c with
  | (empty, (items, e), key) =>
      (empty, if is_property then property_validate Z (items, end_of e)
              else expander_validate Z shorthand (items, end_of e) key)
  end.

Fixpoint same_results (m : list (res Z * bool)) (i : list (nat * Z * bool)) : bool :=
  match m, i with
  | [], [] => true
  | (r, lg) :: m', (code, v, lg') :: i' =>
      let '(c, w) := res_code r in
      Nat.eqb c code && Z.eqb w v && Bool.eqb lg lg' && same_results m' i'
  | _, _ => false
  end.

Fixpoint same_alone (m : list (res Z)) (i : list (nat * Z * bool)) : bool :=
  match m, i with
  | [], [] => true
  | r :: m', (code, v, _) :: i' =>
      let '(c, w) := res_code r in Nat.eqb c code && Z.eqb w v && same_alone m' i'
  | _, _ => false
  end.

(* case = (is it a PendingProperty?, shorthand name, calls = [(no tokens?, trace of the validator's generator on
   the substituted tokens (yielded (key, value id), end), wanted key)], what the calls gave IN SEQUENCE ON ONE
   real object [(code, value id, warning logged?)], what each gave on a FRESH object).
   bit 0 (1): the model's run differs from the sequence on the shared object ;
   bit 1 (2): the sequence on the shared object differs from the fresh objects: history dependence ;
   bit 2 (4): more than one warning for the declaration ;
   bit 3 (8): a shorthand that is invalid as a whole gives a value to some longhand *)
Definition pending_judge (c : bool * string * list (bool * (list (string * Z) * nat) * string)
                              * list (nat * Z * bool) * list (nat * Z * bool)) : nat :=
  match c with
  | (is_property, shorthand, calls, shared, fresh) =>
      let outcomes := map (call_outcome is_property shorthand) calls in
      let m := run Z false outcomes in
      let fresh_res := map (fun s => match s with (code, v, _) =>
                                       match code with 0%nat => Invalid | 1%nat => Crash | _ => Ok v end end) fresh in
      ((if same_results m shared then 0 else 1) +
       (if same_alone fresh_res shared then 0 else 2) +
       (if Nat.leb (List.length (filter (fun s => snd s) shared)) 1 then 0 else 4) +
       (if is_property ||
           forallb (fun c => match c with (_, (items, e), _) =>
                               all_or_nothing shorthand (items, end_of e) (map (fun c => snd c) calls) end) calls
        then 0 else 8))%nat
  end.
