(* C07 - weasyprint/css/validation/expanders.py: _find_var, expand_four_sides, generic_expander and the
   shorthands border-<side>/column-rule/outline, border-radius, columns, flex, over component values whose
   membership in the longhands' grammars is given by classifier functions (the individual validators are
   exercised, not modelled).  Definitions only. *)
From Coq Require Import ZArith QArith List Bool String Ascii.
Require Import WV.model.C07Tok WV.model.C07Decl.
Import ListNotations.
Open Scope string_scope.

Section Expanders.
  Variable V0 : Type.
  Variable known supported : string -> bool.
  Variable prop_validator : string -> list tok -> option V0.

  Notation value := (value V0).
  Notation vns1 := (vns1 V0 known supported prop_validator).

  Definition outs := list (string * value).

  (* ---------------------------------------------------------------- expand_four_sides *)
  Definition SIDES := ["-top"; "-right"; "-bottom"; "-left"].

  (* margin -> margin-top ; border-color -> border-top-color *)
  Definition four_names (name : string) : list string :=
    map (fun suffix => match rsplit_dash name with
                       | None => (name ++ suffix)%string
                       | Some (a, b) => (a ++ suffix ++ b)%string
                       end) SIDES.

  (* `tokens *= 4`, `tokens *= 2`, `tokens += (tokens[1],)` *)
  Definition four_tokens {A} (tokens : list A) : option (list A) :=
    match tokens with
    | [a] => Some [a; a; a; a]
    | [a; b] => Some [a; b; a; b]
    | [a; b; c] => Some [a; b; c; b]
    | [a; b; c; d] => Some [a; b; c; d]
    | _ => None
    end.

  (* CSS 2.1 8.3 (margin; the same for padding, border-width/style/color, bleed): one value applies to all
     sides; with two, top and bottom take the first, right and left the second; with three, top the first,
     right and left the second, bottom the third; with four: top, right, bottom, left.
     Css Backgrounds 3 5.1 reads the same way for the corners top-left, top-right, bottom-right, bottom-left. *)
  Definition four_spec {A} (values : list A) : option (A * A * A * A) :=
    match nth_error values 0 with
    | None => None
    | Some first =>
        let second := match nth_error values 1 with Some x => x | None => first end in
        let third := match nth_error values 2 with Some x => x | None => first end in
        let fourth := match nth_error values 3 with Some x => x | None => second end in
        if Nat.ltb 4 (List.length values) then None else Some (first, second, third, fourth)
    end.

  (* css-cascade 7.3: inherit / initial are only valid as the whole value of a shorthand *)
  Definition has_wide_keyword (tokens : list tok) : bool :=
    existsb (fun t => kw_is t "inherit" || kw_is t "initial") tokens.

  (* len == 1: four times ; elif a css-wide keyword among several components: invalid ; elif 2, 3, 4 components *)
  Definition four_tokens_checked (tokens : list tok) : option (list tok) :=
    match tokens with
    | [a] => Some [a; a; a; a]
    | _ => if has_wide_keyword tokens then None else four_tokens tokens
    end.

  (* the generator is consumed by list(): the first failing validation fails the whole shorthand *)
  Fixpoint validate_each (l : list (string * list tok)) : res outs :=
    match l with
    | [] => Ok []
    | (n, ts) :: r =>
        bind (vns1 ts n) (fun nv => bind (validate_each r) (fun rest => Ok (nv :: rest)))
    end.

  Definition expand_four_sides (tokens : list tok) (name : string) : res outs :=
    let expanded_names := four_names name in
    if any_var tokens then Ok (map (fun n => (n, VPendingExp tokens name)) expanded_names)
    else match four_tokens_checked tokens with
         | None => Invalid
         | Some four => validate_each (combine expanded_names (map (fun t => [t]) four))
         end.

  (* ---------------------------------------------------------------- generic_expander *)
  (* results = {} ; results[new_name] = new_token, refusing a second value for the same name;
     `assert new_name in expanded_names` *)
  Fixpoint collect (expanded_names : list string) (yielded : list (string * list tok))
           (results : list (string * list tok)) : res (list (string * list tok)) :=
    match yielded with
    | [] => Ok results
    | (n, ts) :: r =>
        if negb (str_in n expanded_names) then Crash
        else if str_in n (map fst results) then Invalid
        else collect expanded_names r (results ++ [(n, ts)])%list
    end.

  Fixpoint lookup {A} (n : string) (l : list (string * A)) : option A :=
    match l with
    | [] => None
    | (k, v) :: r => if String.eqb n k then Some v else lookup n r
    end.

  Definition actual_name (name new_name : string) : string :=
    if prefix "-" new_name then (name ++ new_name)%string else new_name.

  Fixpoint emit (name : string) (expanded_names : list string) (results : list (string * list tok)) : res outs :=
    match expanded_names with
    | [] => Ok []
    | nn :: r =>
        let actual := actual_name name nn in
        bind (match lookup nn results with
              | Some ts => vns1 ts actual
              | None => Ok (actual, VKeyword "initial")
              end)
             (fun nv => bind (emit name r results) (fun rest => Ok (nv :: rest)))
    end.

  Definition inner := list tok -> string -> res (list (string * list tok)).

  Definition generic_expander (expanded_names : list string) (wrapped : inner)
             (tokens : list tok) (name : string) : res outs :=
    match single_kw_in tokens ["inherit"; "initial"] with
    | Some k => Ok (map (fun nn => (actual_name name nn, VKeyword k)) expanded_names)
    | None =>
        if any_var tokens && negb (match expanded_names with [] => true | _ => false end) then
          Ok (map (fun nn => (actual_name name nn, VPendingExp tokens name)) expanded_names)
        else
          bind (wrapped tokens name) (fun yielded =>
          bind (collect expanded_names yielded []) (fun results =>
          emit name expanded_names results))
    end.

  (* ---------------------------------------------------------------- border-top ... outline, column-rule *)
  Variable is_color is_border_width is_border_style : tok -> bool.   (* parse_color, border_width, border_style *)

  Fixpoint border_side_inner (tokens : list tok) : res (list (string * list tok)) :=
    match tokens with
    | [] => Ok []
    | t :: r =>
        let suffix := if is_color t then Some "-color"
                      else if is_border_width t then Some "-width"
                      else if is_border_style t then Some "-style"
                      else None in
        match suffix with
        | None => Invalid
        | Some s => bind (border_side_inner r) (fun rest => Ok ((s, [t]) :: rest))
        end
    end.

  Definition BORDER_SIDE_NAMES := ["-width"; "-color"; "-style"].
  Definition expand_border_side : list tok -> string -> res outs :=
    generic_expander BORDER_SIDE_NAMES (fun ts _ => border_side_inner ts).

  (* expand_border: the four sides one after the other *)
  Definition expand_border (tokens : list tok) (name : string) : res outs :=
    (fix go (sfx : list string) : res outs :=
       match sfx with
       | [] => Ok []
       | s :: r => bind (expand_border_side tokens (name ++ s)%string) (fun a => bind (go r) (fun b => Ok (a ++ b)%list))
       end) SIDES.

  (* ---------------------------------------------------------------- border-radius *)
  Definition RADIUS_NAMES := ["border-top-left-radius"; "border-top-right-radius";
                              "border-bottom-right-radius"; "border-bottom-left-radius"].

  (* the scanning loop: current is horizontal until the one "/" ; a "/" that equals the last token
     (LiteralToken.__eq__ compares values) is refused at once, a second "/" too *)
  Fixpoint radius_scan (last_is_slash : bool) (tokens : list tok) (in_vertical : bool)
           (horizontal vertical : list tok) : option (list tok * list tok) :=
    match tokens with
    | [] => Some (horizontal, vertical)
    | t :: r =>
        if is_slash t then
          (if in_vertical then None
           else if last_is_slash then None
           else radius_scan last_is_slash r true horizontal vertical)
        else if in_vertical then radius_scan last_is_slash r in_vertical horizontal (vertical ++ [t])%list
        else radius_scan last_is_slash r in_vertical (horizontal ++ [t])%list vertical
    end.

  Definition border_radius_inner (tokens : list tok) : res (list (string * list tok)) :=
    match radius_scan (match last tokens TWs with TLit v => String.eqb v "/" | _ => false end)
                      tokens false [] [] with
    | None => Invalid
    | Some (horizontal, vertical) =>
        let vertical := match vertical with [] => horizontal | _ => vertical end in
        match four_tokens horizontal, four_tokens vertical with
        | Some h4, Some v4 =>
            let pairs := combine RADIUS_NAMES (map (fun hv => [fst hv; snd hv]) (combine h4 v4)) in
            (* each corner is validated before it is yielded *)
            bind (validate_each pairs) (fun _ => Ok pairs)
        | _, _ => Invalid
        end
    end.

  Definition expand_border_radius : list tok -> string -> res outs :=
    generic_expander RADIUS_NAMES (fun ts _ => border_radius_inner ts).

  (* ---------------------------------------------------------------- columns *)
  Variable is_column_width is_column_count : tok -> bool.

  Definition AUTO := TIdent "auto" "auto".

  Fixpoint columns_loop (tokens : list tok) (name : option string) : res (list (string * list tok) * option string) :=
    match tokens with
    | [] => Ok ([], name)
    | t :: r =>
        let is_cw := match name with Some n => String.eqb n "column-width" | None => false end in
        let name' := if is_column_width t && negb is_cw then Some "column-width"
                     else if is_column_count t then Some "column-count"
                     else None in
        match name' with
        | None => Invalid
        | Some n => bind (columns_loop r name')
                         (fun p => Ok ((n, [t]) :: fst p, snd p))
        end
    end.

  Definition columns_inner (tokens : list tok) : res (list (string * list tok)) :=
    let tokens := match tokens with
                  | [a; b] => if kw_is a "auto" then [b; a] else tokens
                  | _ => tokens
                  end in
    bind (columns_loop tokens None) (fun p =>
      match tokens with
      | [_] =>
          let other := match snd p with
                       | Some n => if String.eqb n "column-count" then "column-width" else "column-count"
                       | None => "column-count"
                       end in
          Ok (fst p ++ [(other, [AUTO])])%list
      | _ => Ok (fst p)
      end).

  Definition COLUMNS_NAMES := ["column-width"; "column-count"].
  Definition expand_columns : list tok -> string -> res outs :=
    generic_expander COLUMNS_NAMES (fun ts _ => columns_inner ts).

  (* ---------------------------------------------------------------- flex *)
  Variable is_flex_basis : tok -> bool.                   (* flex_basis([token]) is not None *)
  Variable flex_factor : tok -> option (Q * option Z).    (* flex_grow_shrink([token]): the number, and int(it) when integral *)

  (* fs_basis: the token taken as the basis and its position among the tokens *)
  Record flex_state := { fs_grow : option (Q * option Z); fs_shrink : option (Q * option Z);
                         fs_basis : option (tok * nat) }.

  (* token.type == 'number' and token.value == 0: every spelling of the unitless zero *)
  Definition is_num_zero (t : tok) : bool :=
    match t with TNum v _ => Qeq_bool v 0 | _ => false end.

  Fixpoint flex_loop (tokens : list tok) (i : nat) (s : flex_state) : res flex_state :=
    match tokens with
    | [] => Ok s
    | t :: r =>
        let grow_found := match fs_grow s with Some _ => true | None => false end in
        let shrink_found := match fs_shrink s with Some _ => true | None => false end in
        let basis_found := match fs_basis s with Some _ => true | None => false end in
        let forced_flex_factor := is_num_zero t && negb (grow_found && shrink_found) in
        if negb basis_found && negb forced_flex_factor && is_flex_basis t then
          flex_loop r (S i) {| fs_grow := fs_grow s; fs_shrink := fs_shrink s; fs_basis := Some (t, i) |}
        else if negb grow_found then
          match flex_factor t with
          | None => Invalid
          | Some g => flex_loop r (S i) {| fs_grow := Some g; fs_shrink := fs_shrink s; fs_basis := fs_basis s |}
          end
        else if negb shrink_found then
          match flex_factor t with
          | None => Invalid
          | Some g => flex_loop r (S i) {| fs_grow := fs_grow s; fs_shrink := Some g; fs_basis := fs_basis s |}
          end
        else Invalid
    end.

  Definition ZERO_PX := TAtom 0.            (* DimensionToken 0px made by the expander: atom 0 by convention *)
  Definition num_tok (g : Q * option Z) : tok := TNum (fst g) (snd g).
  Definition ONE := (1%Q, Some 1%Z).

  Definition flex_inner (tokens : list tok) : res (list (string * list tok)) :=
    match single_kw_in tokens ["none"] with
    | Some _ => Ok [("-grow", [TNum 0 (Some 0%Z)]); ("-shrink", [TNum 0 (Some 0%Z)]); ("-basis", [AUTO])]
    | None =>
        bind (flex_loop tokens 0 {| fs_grow := None; fs_shrink := None; fs_basis := None |}) (fun s =>
          (* `basis not in (tokens[0], tokens[-1])`: the flex factors must be next to each other *)
          if match fs_basis s with
             | Some (_, i) => negb (Nat.eqb i 0) && negb (Nat.eqb (S i) (List.length tokens))
             | None => false
             end then Invalid
          else
          Ok [("-grow", [num_tok (match fs_grow s with Some g => g | None => ONE end)]);
              ("-shrink", [num_tok (match fs_shrink s with Some g => g | None => ONE end)]);
              ("-basis", [match fs_basis s with Some (b, _) => b | None => ZERO_PX end])])
    end.

  Definition FLEX_NAMES := ["-grow"; "-shrink"; "-basis"].
  Definition expand_flex : list tok -> string -> res outs :=
    generic_expander FLEX_NAMES (fun ts _ => flex_inner ts).

End Expanders.
