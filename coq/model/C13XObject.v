(* C13 - what RasterImage must emit as an image XObject, per source mode / Adobe marker / orientation, and what a
   PDF consumer paints from it.  Definitions only (spec from PDF 32000-1 8.9.5 (image dictionaries, /Decode),
   css-images-3 image-orientation, EXIF orientation tag 0x0112). *)
From Coq Require Import ZArith List Bool.
Import ListNotations.
Open Scope Z_scope.

(* ---- orientation: the eight EXIF codes *)
Inductive orient := O1 | O2 | O3 | O4 | O5 | O6 | O7 | O8.
Definition swaps (o : orient) : bool := match o with O5 | O6 | O7 | O8 => true | _ => false end.
Definition out_dims (o : orient) (w h : Z) : Z * Z := if swaps o then (h, w) else (w, h).

(* the source pixel (of a w x h image) shown at (x, y) of the oriented image *)
Definition src_of (o : orient) (w h x y : Z) : Z * Z :=
  match o with
  | O1 => (x, y)
  | O2 => (w - 1 - x, y)              (* mirrored horizontally *)
  | O3 => (w - 1 - x, h - 1 - y)      (* rotated by 180 *)
  | O4 => (x, h - 1 - y)              (* mirrored vertically *)
  | O5 => (y, x)                      (* transposed *)
  | O6 => (y, h - 1 - x)              (* rotated by 90 clockwise *)
  | O7 => (w - 1 - y, h - 1 - x)      (* transversed *)
  | O8 => (w - 1 - y, x)              (* rotated by 270 clockwise *)
  end.
(* where the source pixel (x, y) goes *)
Definition dst_of (o : orient) (w h x y : Z) : Z * Z :=
  match o with
  | O1 => (x, y)
  | O2 => (w - 1 - x, y)
  | O3 => (w - 1 - x, h - 1 - y)
  | O4 => (x, h - 1 - y)
  | O5 => (y, x)
  | O6 => (h - 1 - y, x)
  | O7 => (h - 1 - y, w - 1 - x)
  | O8 => (y, w - 1 - x)
  end.

(* css-images-3 `image-orientation: <angle> [flip]`: rotate to the right (clockwise) by the angle (quarter turns),
   then flip horizontally.  Written as operations on "which source pixel is shown at (x, y)". *)
Definition view := Z -> Z -> Z * Z.                       (* oriented (x, y) -> source pixel *)
Definition rot_cw (v : view) (hv : Z) : view := fun x y => v y (hv - 1 - x).     (* hv: height of the view rotated *)
Definition flip_h (v : view) (wv : Z) : view := fun x y => v (wv - 1 - x) y.     (* wv: width of the view flipped *)

Definition quarter_code (q : Z) (flip : bool) : orient :=
  match q mod 4, flip with
  | 0, false => O1 | 1, false => O6 | 2, false => O3 | 3, false => O8
  | 0, true => O2 | 1, true => O5 | 2, true => O4 | _, true => O7
  | _, false => O1
  end.

Definition orient_of_nat (n : nat) : orient :=
  match n with 2%nat => O2 | 3%nat => O3 | 4%nat => O4 | 5%nat => O5 | 6%nat => O6 | 7%nat => O7 | 8%nat => O8 | _ => O1 end.

(* the reading with the angle taken counter-clockwise (finding J) *)
Definition ccw_twin (o : orient) : orient :=
  match o with O6 => O8 | O8 => O6 | O5 => O7 | O7 => O5 | x => x end.

(* ---- source modes and the XObject attributes *)
Inductive smode := ML | MLA | MRGB | MRGBA | MP | M1 | MCMYK | MI16.   (* MI16: 16-bit greyscale *)
Inductive cspace := Gray | RGB | CMYK.
Record xattrs := XA { xa_cs : cspace; xa_decode_inverted : bool; xa_smask : bool; xa_w : Z; xa_h : Z; xa_bpc : Z;
                      xa_dct : bool }.

(* the 8-bit mode shown (palette and bilevel -> RGB, tRNS -> RGBA, 16-bit grey -> its 8 most significant bits) *)
Definition truth_mode (m : smode) (trns : bool) : smode :=
  if trns then MRGBA else match m with MP | M1 => MRGB | MI16 => ML | x => x end.
Definition cs_of (m : smode) : cspace :=
  match m with ML | MLA => Gray | MCMYK => CMYK | _ => RGB end.
Definition has_alpha (m : smode) : bool := match m with MLA | MRGBA => true | _ => false end.
Definition channels (m : smode) : Z :=
  match m with ML => 1 | MLA => 2 | MRGB => 3 | MRGBA => 4 | MCMYK => 4 | _ => 3 end.

(* m: source mode; trns: tRNS chunk; app14: Adobe APP14 marker in the source; jpeg: source is JPEG/MPO *)
Definition expected_attrs (m : smode) (trns app14 jpeg : bool) (o : orient) (w h : Z) : xattrs :=
  let t := truth_mode m trns in
  let '(ow, oh) := out_dims o w h in
  XA (cs_of t)
     (match t with MCMYK => app14 | _ => false end)      (* /Decode [1 0 1 0 1 0 1 0] iff CMYK with the Adobe marker *)
     (has_alpha t) ow oh 8 jpeg.

(* ---- what a consumer paints: CMYK sample algebra (8 bits).
   t: the ink the source means; the Adobe convention stores 255 - t. *)
Definition stored (app14 : bool) (t : Z) : Z := if app14 then 255 - t else t.
Definition pillow_view (raw : Z) : Z := 255 - raw.            (* Pillow always assumes the Adobe convention *)
Definition pillow_write (p : Z) : Z := 255 - p.               (* ... and always writes it (with the marker) *)
Definition embedded (reencoded app14 : bool) (t : Z) : Z :=
  let raw := stored app14 t in if reencoded then pillow_write (pillow_view raw) else raw.
Definition painted (decode_inverted : bool) (raw : Z) : Z := if decode_inverted then 255 - raw else raw.

(* ---- sample grids: row-major lists of pixels, each a list of channel values (alpha last) *)
Definition pixel_close (tol : Z) (a b : list Z) : bool :=
  Nat.eqb (length a) (length b) && forallb (fun p => Z.abs (fst p - snd p) <=? tol) (combine a b).

Definition get (g : list (list Z)) (w x y : Z) : list Z := nth (Z.to_nat (y * w + x)) g [].

Fixpoint range (n : nat) : list Z := match n with O => [] | S k => range k ++ [Z.of_nat k] end.

(* obs (ow x oh) shows src (w x h) through orientation o *)
Definition grid_ok (tol : Z) (o : orient) (w h : Z) (src obs : list (list Z)) : bool :=
  let '(ow, oh) := out_dims o w h in
  Nat.eqb (length src) (Z.to_nat (w * h)) && Nat.eqb (length obs) (Z.to_nat (ow * oh)) &&
  forallb (fun y => forallb (fun x =>
    let '(sx, sy) := src_of o w h x y in pixel_close tol (get obs ow x y) (get src w sx sy))
    (range (Z.to_nat ow))) (range (Z.to_nat oh)).

(* ---- judge.  case: (mode, trns, app14, jpeg), orientation code 1..8, real (w, h), grid (gw, gh), truth samples,
   tolerance, observed (colour space 0 Gray 1 RGB 2 CMYK 3 other, decode inverted, smask, W, H, bpc, dct), painted
   samples.  bit 1: attributes differ from the model; bit 2: the painted samples / dimensions / alpha are not those
   of the oriented source; bit 8: they are those of the source rotated the other way (angle read counter-clockwise) *)
Definition mode_of_nat (n : nat) : smode :=
  match n with 0%nat => ML | 1%nat => MLA | 2%nat => MRGB | 3%nat => MRGBA | 4%nat => MP | 5%nat => M1 | 6%nat => MCMYK
  | _ => MI16 end.
Definition cs_nat (c : cspace) : nat := match c with Gray => 0%nat | RGB => 1%nat | CMYK => 2%nat end.

Definition xo_case : Type :=
  (nat * bool * bool * bool) * nat * (Z * Z) * (Z * Z) * list (list Z) * Z *
  (nat * bool * bool * Z * Z * Z * bool) * list (list Z).

Definition bitn (n : nat) (ok : bool) : nat := if ok then 0%nat else n.

Definition xo_judge (c : xo_case) : nat :=
  let '((m, trns, app14, jpeg), on, (w, h), (gw, gh), truth, tol, (ocs, odec, osm, oW, oH, obpc, odct), obs) := c in
  let m := mode_of_nat m in
  let o := orient_of_nat on in
  let e := expected_attrs m trns app14 jpeg o w h in
  let e' := expected_attrs m trns app14 jpeg (ccw_twin o) w h in
  let attrs_ok :=
    Nat.eqb (cs_nat (xa_cs e)) ocs && Bool.eqb (xa_decode_inverted e) odec && Bool.eqb (xa_smask e) osm &&
    (xa_w e =? oW) && (xa_h e =? oH) && (xa_bpc e =? obpc) && Bool.eqb (xa_dct e) odct in
  let t := truth_mode m trns in
  let sem_common := (xa_w e =? oW) && (xa_h e =? oH) && Bool.eqb (has_alpha t) osm &&
                    Nat.eqb (cs_nat (cs_of t)) ocs && (obpc =? 8) in
  let direct := grid_ok tol o gw gh truth obs in
  let twin := grid_ok tol (ccw_twin o) gw gh truth obs in
  (bitn 1 attrs_ok + bitn 2 (sem_common && (direct || twin)) + bitn 8 (direct || negb twin))%nat.
