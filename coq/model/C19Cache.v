(* C19 - the image cache as a state machine: hand model of get_image_from_uri (weasyprint/images.py) with the
   caller-supplied `cache` dictionary threaded by Document._build_layout_context (options['cache']), and of the part
   of RasterImage.get_x_object that touches the cached object (the dpi down-sampling writes the thumbnail back into
   self.image_data).  Definitions only.

   The fetcher and the decoders are deterministic functions (Section variables): what the model can say is how the
   *state* (the dictionary and the mutable image objects it holds) influences the values a render gets.

     fetch u            None = URLFetchingError            (urls.fetch through the caller's url_fetcher)
     decode u b v       None = ImageLoadingError; otherwise the image data a cold load produces for the variant v
                        (variant = everything but the URL that the result depends on: orientation, forced mime type,
                        options dpi / optimize_images / jpeg_quality)
     resample d r       the data after Image.thumbnail for the dpi ratio r (r <> 1)
   An image object is a cell of the heap holding its current data; the cache maps a URL to None (failed load: the
   code stores None under the URL, so failures are cached too) or to the cell. *)
From Coq Require Import List Bool Arith.
Import ListNotations.

Section Cache.
  Variables Url Variant Bytes Data Ratio : Type.
  Variable url_eqb : Url -> Url -> bool.
  Variable is_one : Ratio -> bool.                 (* dpi_ratio == 1 *)
  Variable fetch : Url -> option Bytes.
  Variable decode : Url -> Bytes -> Variant -> option Data.
  Variable resample : Data -> Ratio -> Data.

  (* dict in insertion order; heap of image objects (RasterImage.image_data) *)
  Record state := mk { cache : list (Url * option nat); heap : list Data; fetched : list Url }.
  Definition empty : state := mk [] [] [].

  Fixpoint lookup (u : Url) (c : list (Url * option nat)) : option (option nat) :=
    match c with
    | [] => None
    | (u', x) :: r => if url_eqb u u' then Some x else lookup u r
    end.

  Fixpoint set_nth {A} (l : list A) (i : nat) (x : A) : list A :=
    match l, i with
    | [], _ => []
    | _ :: r, O => x :: r
    | a :: r, S j => a :: set_nth r j x
    end.

  Inductive op :=
  | Get (u : Url) (v : Variant)          (* get_image_from_uri(cache, fetcher, options, url, mime, context, orientation) *)
  | Emit (u : Url) (r : Ratio).          (* write_pdf: cache[url].get_x_object(interpolate, dpi_ratio) *)

  (* what the caller sees: the object (cell) and the data it holds now / the data embedded in the PDF *)
  Inductive obs :=
  | OGet (x : option (nat * Data))
  | OEmit (x : option Data).

  (* the value a cold (empty cache) load gives *)
  Definition cold (u : Url) (v : Variant) : option Data :=
    match fetch u with
    | None => None
    | Some b => decode u b v
    end.

  Definition step (s : state) (o : op) : state * obs :=
    match o with
    | Get u v =>
        match lookup u (cache s) with
        | Some None => (s, OGet None)                                   (* if url in cache: return cache[url] *)
        | Some (Some cell) =>
            (s, OGet (match nth_error (heap s) cell with Some d => Some (cell, d) | None => None end))
        | None =>
            match fetch u with
            | None => (mk (cache s ++ [(u, None)]) (heap s) (fetched s ++ [u]), OGet None)
            | Some b =>
                match decode u b v with
                | None => (mk (cache s ++ [(u, None)]) (heap s) (fetched s ++ [u]), OGet None)
                | Some d =>
                    let cell := length (heap s) in
                    (mk (cache s ++ [(u, Some cell)]) (heap s ++ [d]) (fetched s ++ [u]), OGet (Some (cell, d)))
                end
            end
        end
    | Emit u r =>
        match lookup u (cache s) with
        | Some (Some cell) =>
            match nth_error (heap s) cell with
            | Some d =>
                if is_one r then (s, OEmit (Some d))
                else let d' := resample d r in
                     (mk (cache s) (set_nth (heap s) cell d') (fetched s), OEmit (Some d'))   (* self.image_data = ... *)
            | None => (s, OEmit None)
            end
        | _ => (s, OEmit None)
        end
    end.

  Fixpoint run (s : state) (h : list op) : state * list obs :=
    match h with
    | [] => (s, [])
    | o :: r => let '(s1, x) := step s o in let '(s2, xs) := run s1 r in (s2, x :: xs)
    end.

  (* ---- the specification: what the same operation gives with no cache at all ---- *)
  Definition variant_of (u : Url) (h : list op) : option Variant :=
    (fix go (h : list op) : option Variant :=
       match h with
       | [] => None
       | Get u' v :: r => if url_eqb u u' then Some v else go r
       | Emit _ _ :: r => go r
       end) h.

  Definition no_resampling (h : list op) : bool :=
    forallb (fun o => match o with Emit _ r => is_one r | Get _ _ => true end) h.
End Cache.

Arguments Get {Url Variant Ratio}.
Arguments Emit {Url Variant Ratio}.
Arguments OGet {Data}.
Arguments OEmit {Data}.
Arguments mk {Url Data}.
Arguments cache {Url Data}.
Arguments heap {Url Data}.
Arguments fetched {Url Data}.
Arguments empty {Url Data}.

(* ---------------------------------------------------------------------------------------------------------------
   Instance used by the correspondence stream: URLs, variants and ratios are small integers, the data of an image
   is the *term* saying how it was made (cold load of (u, v), then the ratios it was re-sampled with, oldest first);
   the harness measures the value of every such term on the implementation with cold, isolated calls and gives the
   table to the judge. *)
From Coq Require Import ZArith.
Open Scope Z_scope.

Definition term := (Z * Z * list Z)%type.

Definition t_decode (ok : list (Z * Z)) (u : Z) (_ : unit) (v : Z) : option term :=
  if existsb (fun p => (fst p =? u) && (snd p =? v)) ok then Some (u, v, []) else None.
Definition t_fetch (fails : list Z) (u : Z) : option unit := if existsb (Z.eqb u) fails then None else Some tt.
Definition t_resample (d : term) (r : Z) : term := let '(u, v, rs) := d in (u, v, rs ++ [r]).

Definition term_eqb (a b : term) : bool :=
  let '(u, v, rs) := a in let '(u', v', rs') := b in
  (u =? u') && (v =? v') && (Nat.eqb (length rs) (length rs')) && forallb (fun p => fst p =? snd p) (combine rs rs').

Fixpoint tlookup (t : term) (tab : list (term * Z)) : option Z :=
  match tab with [] => None | (t', x) :: r => if term_eqb t t' then Some x else tlookup t r end.

(* implementation observation: for Get (object index in order of first appearance or -1 for None, value id);
   for Emit (value id of the embedded image or -1) *)
Inductive iobs := IGet (cell : Z) (val : Z) | IEmit (val : Z).

Definition obs_matches (tget temit : list (term * Z)) (o : obs term) (i : iobs) (r_is_one : bool) : bool :=
  match o, i with
  | OGet None, IGet c _ => c =? -1
  | OGet (Some (cell, d)), IGet c x =>
      (c =? Z.of_nat cell) && match tlookup d tget with Some y => x =? y | None => false end
  | OEmit None, IEmit x => x =? -1
  | OEmit (Some d), IEmit x =>
      (* the embedded object also depends on whether this call re-sampled (declared size): key = data term + flag *)
      match tlookup (let '(u, v, rs) := d in (u, v, rs ++ [if r_is_one then 1 else 0])) temit with
      | Some y => x =? y | None => false end
  | _, _ => false
  end.

(* case: (fetch failures, decodable (u,v) pairs, table for Get values, table for Emit values, history, impl
   observations, number of fetcher calls the implementation made).  Ratio 1 is the integer 1. *)
Definition ccase := (list Z * list (Z * Z) * list (term * Z) * list (term * Z) * list (op Z Z Z)
                     * list iobs * Z)%type.

(* spec on the implementation's outputs: every Get gives the value of the cold load, every Emit the value of the cold load
   (of the variant the URL was requested with so far) embedded with that ratio *)
Fixpoint spec_ok (fails : list Z) (ok : list (Z * Z)) (tget temit : list (term * Z)) (pre h : list (op Z Z Z)) (io : list iobs) : bool :=
  match h, io with
  | [], [] => true
  | o :: r, i :: ir =>
      (match o, i with
       | Get u v, IGet c x =>
           match cold Z Z unit term (t_fetch fails) (t_decode ok) u v with
           | None => c =? -1
           | Some d => match tlookup d tget with Some y => x =? y | None => false end
           end
       | Emit u rt, IEmit x =>
           match variant_of Z Z Z Z.eqb u pre with
           | None => x =? -1
           | Some v =>
               match cold Z Z unit term (t_fetch fails) (t_decode ok) u v with
               | None => x =? -1
               | Some (u', v', _) =>
                   match tlookup (u', v', (if rt =? 1 then [] else [rt]) ++ [if rt =? 1 then 1 else 0]) temit with
                   | Some y => x =? y | None => false end
               end
           end
       | _, _ => false
       end) && spec_ok fails ok tget temit (pre ++ [o]) r ir
  | _, _ => false
  end.

Definition cache_judge (c : ccase) : nat :=
  let '(fails, ok, tget, temit, h, iobs_, nfetch) := c in
  let '(s, os) := run Z Z unit term Z Z.eqb (fun r => r =? 1) (t_fetch fails) (t_decode ok) t_resample empty h in
  let flags := map (fun o => match o with Emit _ r => r =? 1 | Get _ _ => true end) h in
  let same := (Nat.eqb (length os) (length iobs_)) &&
              forallb (fun p => obs_matches tget temit (fst (fst p)) (snd (fst p)) (snd p)) (combine (combine os iobs_) flags) &&
              (Z.of_nat (length (fetched s)) =? nfetch) in
  let spec := spec_ok fails ok tget temit [] h iobs_ in
  ((if same then 0 else 1) + (if spec then 0 else 2))%nat.
