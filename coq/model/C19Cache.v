(* C19 - the image cache as a state machine: hand model of get_image_from_uri (weasyprint/images.py) with the
   caller-supplied `cache` dictionary threaded by Document._build_layout_context (options['cache']), and of what
   RasterImage.get_x_object does to the cached object at write time.  Definitions only.

   The dictionary key is f'{url} {orientation} {(dpi, optimize_images, jpeg_quality)}': a request is (URL, key part,
   forced mime type), the forced mime type being the only argument the loaded image may depend on that is NOT in the
   key.  get_x_object with a dpi ratio <> 1 makes a thumbnail in its own slot and leaves self.image_data alone.

   The fetcher and the decoders are deterministic functions (Section variables): what the model can say is how the
   *state* (the dictionary and the image objects it holds) influences the values a render gets.

     fetch u              None = URLFetchingError            (urls.fetch through the caller's url_fetcher)
     decode u b k m       None = ImageLoadingError; otherwise the image data a cold load produces for the key part k
                          (orientation, dpi, optimize_images, jpeg_quality) and the forced mime type m
     resample d r         the data embedded for the dpi ratio r (r <> 1): Image.thumbnail
   An image object is a cell of the heap holding its data; the cache maps a key to None (failed load: the code stores
   None under the key, so failures are cached too) or to the cell. *)
From Coq Require Import List Bool Arith.
Import ListNotations.

Section Cache.
  Variables Url Key Mime Bytes Data Ratio : Type.
  Variable url_eqb : Url -> Url -> bool.
  Variable key_eqb : Key -> Key -> bool.
  Variable is_one : Ratio -> bool.                 (* dpi_ratio == 1 *)
  Variable fetch : Url -> option Bytes.
  Variable decode : Url -> Bytes -> Key -> Mime -> option Data.
  Variable resample : Data -> Ratio -> Data.

  Definition ckey := (Url * Key)%type.
  Definition ckey_eqb (a b : ckey) : bool := url_eqb (fst a) (fst b) && key_eqb (snd a) (snd b).

  (* dict in insertion order; heap of image objects; the keys the fetcher was called for, in order *)
  Record state := mk { cache : list (ckey * option nat); heap : list Data; fetched : list ckey }.
  Definition empty : state := mk [] [] [].

  Fixpoint lookup (q : ckey) (c : list (ckey * option nat)) : option (option nat) :=
    match c with
    | [] => None
    | (q', x) :: r => if ckey_eqb q q' then Some x else lookup q r
    end.

  Inductive op :=
  | Get (u : Url) (k : Key) (m : Mime)   (* get_image_from_uri(cache, fetcher, options, url, mime, context, orientation) *)
  | Emit (u : Url) (k : Key) (r : Ratio). (* write_pdf: cache[key].get_x_object(interpolate, dpi_ratio) *)

  (* what the caller sees: the object (cell) and the data it holds / the data embedded in the PDF *)
  Inductive obs :=
  | OGet (x : option (nat * Data))
  | OEmit (x : option Data).

  (* the value a cold (empty cache) load gives *)
  Definition cold (u : Url) (k : Key) (m : Mime) : option Data :=
    match fetch u with
    | None => None
    | Some b => decode u b k m
    end.

  Definition embed (d : Data) (r : Ratio) : Data := if is_one r then d else resample d r.

  Definition step (s : state) (o : op) : state * obs :=
    match o with
    | Get u k m =>
        match lookup (u, k) (cache s) with
        | Some None => (s, OGet None)                                   (* if key in cache: return cache[key] *)
        | Some (Some cell) =>
            (s, OGet (match nth_error (heap s) cell with Some d => Some (cell, d) | None => None end))
        | None =>
            match fetch u with
            | None => (mk (cache s ++ [((u, k), None)]) (heap s) (fetched s ++ [(u, k)]), OGet None)
            | Some b =>
                match decode u b k m with
                | None => (mk (cache s ++ [((u, k), None)]) (heap s) (fetched s ++ [(u, k)]), OGet None)
                | Some d =>
                    let cell := length (heap s) in
                    (mk (cache s ++ [((u, k), Some cell)]) (heap s ++ [d]) (fetched s ++ [(u, k)]), OGet (Some (cell, d)))
                end
            end
        end
    | Emit u k r =>                                                     (* the state is left as it is *)
        match lookup (u, k) (cache s) with
        | Some (Some cell) =>
            match nth_error (heap s) cell with
            | Some d => (s, OEmit (Some (embed d r)))
            | None => (s, OEmit None)
            end
        | _ => (s, OEmit None)
        end
    end.

  Fixpoint run (s : state) (h : list op) : state * list obs :=
    match h with
    | [] => (s, [])
    | o :: r => let '(s1, x) := step s o in let '(s2, xs) := run s1 r in (s2, x :: xs)
    end.

  (* the mime type the key was first requested with *)
  Fixpoint mime_of (q : ckey) (h : list op) : option Mime :=
    match h with
    | [] => None
    | Get u k m :: r => if ckey_eqb q (u, k) then Some m else mime_of q r
    | Emit _ _ _ :: r => mime_of q r
    end.
End Cache.

Arguments Get {Url Key Mime Ratio}.
Arguments Emit {Url Key Mime Ratio}.
Arguments OGet {Data}.
Arguments OEmit {Data}.
Arguments mk {Url Key Data}.
Arguments cache {Url Key Data}.
Arguments heap {Url Key Data}.
Arguments fetched {Url Key Data}.
Arguments empty {Url Key Data}.

(* ---------------------------------------------------------------------------------------------------------------
   Instance used by the correspondence stream: URLs, key parts, mime types and ratios are small integers, the data
   of an image is the *term* saying how it was made (cold load of (u, k, m), then the ratio it was re-sampled with
   for an embedding); the harness measures the value of every such term on the implementation with cold, isolated
   calls and gives the table to the judge. *)
From Coq Require Import ZArith.
Open Scope Z_scope.

Definition term := (Z * Z * Z * list Z)%type.

Definition t_decode (ok : list (Z * Z * Z)) (u : Z) (_ : unit) (k m : Z) : option term :=
  if existsb (fun p => (fst (fst p) =? u) && (snd (fst p) =? k) && (snd p =? m)) ok then Some (u, k, m, []) else None.
Definition t_fetch (fails : list Z) (u : Z) : option unit := if existsb (Z.eqb u) fails then None else Some tt.
Definition t_resample (d : term) (r : Z) : term := let '(u, k, m, rs) := d in (u, k, m, rs ++ [r]).

Definition term_eqb (a b : term) : bool :=
  let '(u, k, m, rs) := a in let '(u', k', m', rs') := b in
  (u =? u') && (k =? k') && (m =? m') && (Nat.eqb (length rs) (length rs')) && forallb (fun p => fst p =? snd p) (combine rs rs').

Fixpoint tlookup (t : term) (tab : list (term * Z)) : option Z :=
  match tab with [] => None | (t', x) :: r => if term_eqb t t' then Some x else tlookup t r end.

(* implementation observation: for Get (object index in order of first appearance or -1 for None, value id);
   for Emit (value id of the embedded image or -1) *)
Inductive iobs := IGet (cell : Z) (val : Z) | IEmit (val : Z).

Definition obs_matches (tget temit : list (term * Z)) (o : obs term) (i : iobs) : bool :=
  match o, i with
  | OGet None, IGet c _ => c =? -1
  | OGet (Some (cell, d)), IGet c x =>
      (c =? Z.of_nat cell) && match tlookup d tget with Some y => x =? y | None => false end
  | OEmit None, IEmit x => x =? -1
  | OEmit (Some d), IEmit x => match tlookup d temit with Some y => x =? y | None => false end
  | _, _ => false
  end.

Definition run_t (fails : list Z) (ok : list (Z * Z * Z)) :=
  run Z Z Z unit term Z Z.eqb Z.eqb (fun r => r =? 1) (t_fetch fails) (t_decode ok) t_resample.

(* spec on the implementation's outputs: every Get gives the value of the cold load of what was asked, every Emit the
   value of the cold load (with the mime type the key was requested with so far) embedded with that ratio *)
Fixpoint spec_ok (fails : list Z) (ok : list (Z * Z * Z)) (tget temit : list (term * Z)) (pre h : list (op Z Z Z Z)) (io : list iobs) : bool :=
  match h, io with
  | [], [] => true
  | o :: r, i :: ir =>
      (match o, i with
       | Get u k m, IGet c x =>
           match cold Z Z Z unit term (t_fetch fails) (t_decode ok) u k m with
           | None => c =? -1
           | Some d => match tlookup d tget with Some y => x =? y | None => false end
           end
       | Emit u k rt, IEmit x =>
           match mime_of Z Z Z Z Z.eqb Z.eqb (u, k) pre with
           | None => x =? -1
           | Some m =>
               match cold Z Z Z unit term (t_fetch fails) (t_decode ok) u k m with
               | None => x =? -1
               | Some d =>
                   match tlookup (embed term Z (fun r => r =? 1) t_resample d rt) temit with
                   | Some y => x =? y | None => false end
               end
           end
       | _, _ => false
       end) && spec_ok fails ok tget temit (pre ++ [o]) r ir
  | _, _ => false
  end.

(* case: (fetch failures, decodable (u,k,m) triples, table for Get values, table for Emit values, history, impl
   observations, number of fetcher calls the implementation made).  Ratio 1 is the integer 1. *)
Definition ccase := (list Z * list (Z * Z * Z) * list (term * Z) * list (term * Z) * list (op Z Z Z Z) * list iobs * Z)%type.

Definition cache_judge (c : ccase) : nat :=
  let '(fails, ok, tget, temit, h, iobs_, nfetch) := c in
  let '(s, os) := run_t fails ok empty h in
  let same := (Nat.eqb (length os) (length iobs_)) &&
              forallb (fun p => obs_matches tget temit (fst p) (snd p)) (combine os iobs_) &&
              (Z.of_nat (length (fetched s)) =? nfetch) in
  let spec := spec_ok fails ok tget temit [] h iobs_ in
  ((if same then 0 else 1) + (if spec then 0 else 2))%nat.
