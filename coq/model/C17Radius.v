(* C17 - rounded corners: hand model of Box.rounded_box (formatting_structure/boxes.py) and of its callers
   rounded_border_box / rounded_padding_box / rounded_content_box / rounded_box_ratio, and the CSS Backgrounds 3
   rule it implements (5.2 corner shaping, 5.3 inner radii, 5.5 corner overlap).  Definitions only.
   Coordinates are relative to the border box: (dx, dy) is the offset of the rounded rectangle. *)
From Coq Require Import QArith Qminmax List Bool.
Import ListNotations.
Open Scope Q_scope.

(* the eight radii, clockwise from top-left: (horizontal, vertical) per corner *)
Record radii := mkR { tlx : Q; tly : Q; trx : Q; try_ : Q; brx : Q; bry : Q; blx : Q; bly : Q }.

Definition qmax0 (a : Q) : Q := Qmax 0 a.               (* max(0, a) *)

(* tlrx = max(0, tlrx - bl); tlry = max(0, tlry - bt); ... each corner with its own two sides *)
Definition inner_raw (R : radii) (bt br bb bl : Q) : radii :=
  mkR (qmax0 (tlx R - bl)) (qmax0 (tly R - bt))
      (qmax0 (trx R - br)) (qmax0 (try_ R - bt))
      (qmax0 (brx R - br)) (qmax0 (bry R - bb))
      (qmax0 (blx R - bl)) (qmax0 (bly R - bb)).

(* [extent / sum_radii for ... if sum_radii > 0] *)
Definition cand (extent sum : Q) : list Q := if Qlt_le_dec 0 sum then [extent / sum] else [].
Definition cands (w h : Q) (r : radii) : list Q :=
  cand w (tlx r + trx r) ++ cand w (blx r + brx r) ++ cand h (tly r + bly r) ++ cand h (try_ r + bry r).
(* ratio = min([1] + [...]) *)
Definition ratio (w h : Q) (r : radii) : Q := fold_left Qmin (cands w h r) 1.

(* the module-level helper _overlap_ratio(width, height, top, bottom, left, right) on the four sums of radii *)
Definition overlap_ratio (w h top bottom left right : Q) : Q :=
  fold_left Qmin (cand w top ++ cand w bottom ++ cand h left ++ cand h right) 1.

Definition scale (f : Q) (r : radii) : radii :=
  mkR (tlx r * f) (tly r * f) (trx r * f) (try_ r * f) (brx r * f) (bry r * f) (blx r * f) (bly r * f).

Record rbox := mkRB { dx : Q; dy : Q; rw : Q; rh : Q; rr : radii }.

(* Box.rounded_box(bt, br, bb, bl) for a border box W x H with outer radii R (after /repo fe0eeda):
     ratio = _overlap_ratio(border_width, border_height, tlrx + trrx, blrx + brrx, tlry + blry, trry + brry)
     tlrx = max(0, tlrx * ratio - bl) ...            the outer radii are scaled against the border box first
     ratio = _overlap_ratio(width, height, ...)      then the overlap check on the inner rectangle *)
Definition rounded_box (W H : Q) (R : radii) (bt br bb bl : Q) : rbox :=
  let r := inner_raw (scale (ratio W H R) R) bt br bb bl in
  let w := W - bl - br in
  let h := H - bt - bb in
  mkRB bl bt w h (scale (ratio w h r) r).

(* the callers: border widths (t r b l), paddings (t r b l) *)
Definition rounded_border_box W H R := rounded_box W H R 0 0 0 0.
Definition rounded_padding_box W H R (bw : Q * Q * Q * Q) :=
  let '(t, r, b, l) := bw in rounded_box W H R t r b l.
Definition rounded_content_box W H R (bw pd : Q * Q * Q * Q) :=
  let '(t, r, b, l) := bw in let '(pt, pr, pb, pl) := pd in rounded_box W H R (t + pt) (r + pr) (b + pb) (l + pl).
Definition rounded_box_ratio W H R (bw : Q * Q * Q * Q) (k : Q) :=
  let '(t, r, b, l) := bw in rounded_box W H R (t * k) (r * k) (b * k) (l * k).

(* ---- CSS Backgrounds 3: 5.5 the used outer radii are the specified ones times f = min(1, L_i / S_i) over the
        four sides of the border box; 5.3 the inner radius is the used outer radius minus the thickness of the
        corresponding side, floored at 0 ---- *)
Definition css_outer (W H : Q) (R : radii) : radii := scale (ratio W H R) R.
Definition css_inner (W H : Q) (R : radii) (bt br bb bl : Q) : radii :=
  inner_raw (css_outer W H R) bt br bb bl.
(* the specification leaves open what happens when the inner curves themselves overlap (thick borders): reducing
   them by their own factor, as rounded_box does, is accepted *)
Definition css_inner_fit (W H : Q) (R : radii) (bt br bb bl : Q) : radii :=
  let r := css_inner W H R bt br bb bl in scale (ratio (W - bl - br) (H - bt - bb) r) r.

(* mirrors of the box: left <-> right, top <-> bottom *)
Definition mirror_h (r : radii) : radii :=
  mkR (trx r) (try_ r) (tlx r) (tly r) (blx r) (bly r) (brx r) (bry r).
Definition mirror_v (r : radii) : radii :=
  mkR (blx r) (bly r) (brx r) (bry r) (trx r) (try_ r) (tlx r) (tly r).

Definition radii_eqb (a b : radii) : bool :=
  Qeq_bool (tlx a) (tlx b) && Qeq_bool (tly a) (tly b) && Qeq_bool (trx a) (trx b) && Qeq_bool (try_ a) (try_ b) &&
  Qeq_bool (brx a) (brx b) && Qeq_bool (bry a) (bry b) && Qeq_bool (blx a) (blx b) && Qeq_bool (bly a) (bly b).
Definition radii_eq (a b : radii) : Prop :=
  tlx a == tlx b /\ tly a == tly b /\ trx a == trx b /\ try_ a == try_ b /\
  brx a == brx b /\ bry a == bry b /\ blx a == blx b /\ bly a == bly b.
Definition rbox_eqb (a b : rbox) : bool :=
  Qeq_bool (dx a) (dx b) && Qeq_bool (dy a) (dy b) && Qeq_bool (rw a) (rw b) && Qeq_bool (rh a) (rh b) &&
  radii_eqb (rr a) (rr b).
Definition nonneg (r : radii) : Prop :=
  0 <= tlx r /\ 0 <= tly r /\ 0 <= trx r /\ 0 <= try_ r /\ 0 <= brx r /\ 0 <= bry r /\ 0 <= blx r /\ 0 <= bly r.
(* the curves of adjacent corners do not overlap *)
Definition fits (w h : Q) (r : radii) : Prop :=
  tlx r + trx r <= w /\ blx r + brx r <= w /\ tly r + bly r <= h /\ try_ r + bry r <= h.

(* ---- judges ---- *)
(* direct call: (W, H, R, bt br bb bl, output (dx,dy,w,h,radii) relative to the border box).
   bit 0: model <> implementation; bit 1: the radii differ from the CSS rule (inner from the *scaled* outer radii, css_inner_fit) *)
Definition radius_judge (c : (Q * Q) * radii * (Q * Q * Q * Q) * rbox) : nat :=
  let '(WH, R, s, out) := c in
  let '(W, H) := WH in
  let '(bt, br, bb, bl) := s in
  ((if rbox_eqb (rounded_box W H R bt br bb bl) out then 0 else 1) +
   (if radii_eqb (css_inner_fit W H R bt br bb bl) (rr out) then 0 else 2))%nat.

(* render: observed corner extents of a path read from the content stream, with tolerance eps *)
Definition qabs_le (a b eps : Q) : bool := Qle_bool (a - b) eps && Qle_bool (b - a) eps.
Definition radii_close (eps : Q) (a b : radii) : bool :=
  qabs_le (tlx a) (tlx b) eps && qabs_le (tly a) (tly b) eps && qabs_le (trx a) (trx b) eps &&
  qabs_le (try_ a) (try_ b) eps && qabs_le (brx a) (brx b) eps && qabs_le (bry a) (bry b) eps &&
  qabs_le (blx a) (blx b) eps && qabs_le (bly a) (bly b) eps.
Definition rbox_close (eps : Q) (a b : rbox) : bool :=
  qabs_le (dx a) (dx b) eps && qabs_le (dy a) (dy b) eps && qabs_le (rw a) (rw b) eps && qabs_le (rh a) (rh b) eps &&
  radii_close eps (rr a) (rr b).
(* a corner with one zero radius is square: the other radius is immaterial for the shape (draw.border.rounded_box
   draws such a path as straight lines) *)
Definition sqc (a b : Q) : Q := if Qeq_bool a 0 || Qeq_bool b 0 then 0 else a.
Definition norm_sq (r : radii) : radii :=
  mkR (sqc (tlx r) (tly r)) (sqc (tly r) (tlx r)) (sqc (trx r) (try_ r)) (sqc (try_ r) (trx r))
      (sqc (brx r) (bry r)) (sqc (bry r) (brx r)) (sqc (blx r) (bly r)) (sqc (bly r) (blx r)).
Definition radius_render_judge (c : (Q * Q) * radii * (Q * Q * Q * Q) * rbox) : nat :=
  let '(WH, R, s, out) := c in
  let '(W, H) := WH in
  let '(bt, br, bb, bl) := s in
  let eps := 1 # 200 in
  let m := rounded_box W H R bt br bb bl in
  ((if rbox_close eps (mkRB (dx m) (dy m) (rw m) (rh m) (norm_sq (rr m)))
                      (mkRB (dx out) (dy out) (rw out) (rh out) (norm_sq (rr out))) then 0 else 1) +
   (if radii_close eps (norm_sq (css_inner_fit W H R bt br bb bl)) (norm_sq (rr out)) then 0 else 2) +
   (if Qle_bool 1 (ratio W H R) then 0 else 4))%nat.

(* direct calls through the callers: content size (cw, ch), border widths, paddings (t r b l), mode:
   0 rounded_box(args)  1 rounded_border_box  2 rounded_padding_box  3 rounded_content_box  4 rounded_box_ratio(k) *)
Definition call_model (cw ch : Q) (R : radii) (bw pd : Q * Q * Q * Q) (mode : nat) (args : Q * Q * Q * Q) : rbox :=
  let '(t, r, b, l) := bw in
  let '(pt, pr, pb, pl) := pd in
  let W := cw + pl + pr + l + r in             (* border_width() = padding_width() + border_left + border_right *)
  let H := ch + pt + pb + t + b in
  match mode with
  | 0%nat => let '(a1, a2, a3, a4) := args in rounded_box W H R a1 a2 a3 a4
  | 1%nat => rounded_border_box W H R
  | 2%nat => rounded_padding_box W H R bw
  | 3%nat => rounded_content_box W H R bw pd
  | _ => let '(k, _, _, _) := args in rounded_box_ratio W H R bw k
  end.
Definition call_args (bw pd : Q * Q * Q * Q) (mode : nat) (args : Q * Q * Q * Q) : Q * Q * Q * Q :=
  let '(t, r, b, l) := bw in
  let '(pt, pr, pb, pl) := pd in
  match mode with
  | 0%nat => args
  | 1%nat => (0, 0, 0, 0)
  | 2%nat => bw
  | 3%nat => (t + pt, r + pr, b + pb, l + pl)
  | _ => let '(k, _, _, _) := args in (t * k, r * k, b * k, l * k)
  end.
Definition radius_call_judge
  (c : (Q * Q) * radii * (Q * Q * Q * Q) * (Q * Q * Q * Q) * (nat * (Q * Q * Q * Q)) * rbox) : nat :=
  let '(cwh, R, bw, pd, ma, out) := c in
  let '(cw, ch) := cwh in
  let '(mode, args) := ma in
  let '(t, r, b, l) := bw in
  let '(pt, pr, pb, pl) := pd in
  let W := cw + pl + pr + l + r in
  let H := ch + pt + pb + t + b in
  let '(a1, a2, a3, a4) := call_args bw pd mode args in
  ((if rbox_eqb (call_model cw ch R bw pd mode args) out then 0 else 1) +
   (if radii_eqb (css_inner_fit W H R a1 a2 a3 a4) (rr out) then 0 else 2) +
   (if Qle_bool 1 (ratio W H R) then 0 else 4))%nat.      (* bit 2: the outer radii overlap, 5.5 scales them *)
