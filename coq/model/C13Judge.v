(* C13 - judges evaluated by the correspondence streams: bit 0 = model differs from the implementation's output,
   bit 1 = the implementation's output violates the specification (under the hypotheses of the theorems). *)
From Coq Require Import QArith Qminmax Qround ZArith List Bool.
Require Import WV.model.C13Replaced WV.model.C13Spec.
Import ListNotations.
Open Scope Q_scope.

Definition tol9 : Q := 1 # 1000000000.
Definition cmpq (approx : bool) (a b : Q) : bool := if approx then close tol9 a b else Qeq_bool a b.
Definition mk_intr (t : oq * oq * oq) : intr := let '(a, b, c) := t in Intr a b c.

Definition hv_cmp (approx : bool) (a b : hv) : bool :=
  match a, b with
  | HAuto, HAuto => true | HNone, HNone => true
  | HNum x, HNum y => cmpq approx x y
  | _, _ => false
  end.

(* ---- constraint sizing: (cw, ch, ratio, cover, out) *)
Definition constraint_spec_b (cw ch : Q) (r : oq) (cover : bool) (out : option (Q * Q)) : bool :=
  match r, out with
  | Some r, Some (w, h) =>
      impl (Qltb 0 r)
        (Qeq_bool w (h * r) && (Qeq_bool w cw || Qeq_bool h ch) &&
         (if cover then Qle_bool cw w && Qle_bool ch h else Qle_bool w cw && Qle_bool h ch))
  | Some r, None => negb (Qltb 0 r)
  | None, Some (w, h) => Qeq_bool w cw && Qeq_bool h ch
  | None, None => false
  end.
Definition constraint_judge (c : Q * Q * oq * bool * option (Q * Q)) : nat :=
  let '(cw, ch, r, cover, out) := c in
  (bit 1 (oq2_eqb (constraint_sizing cw ch r cover) out) + bit 2 (constraint_spec_b cw ch r cover out))%nat.

(* ---- default sizing: (intr, sw, sh, dw, dh, out) *)
Definition default_judge (c : (oq * oq * oq) * oq * oq * Q * Q * option (Q * Q)) : nat :=
  let '(i, sw, sh, dw, dh, out) := c in
  bit 1 (oq2_eqb (default_sizing (mk_intr i) sw sh dw dh) out).

(* ---- sizing functions.  fn: 0 rbw_raw, 1 rbw, 2 rbh_raw, 3 rbh, 4 mmar, 5 inline.
   out: None = raised, Some (box.width, box.height) after the call *)
Definition sizing_case : Type :=
  nat * (oq * oq) * (oq * oq * oq) * (Q * Q * Q * Q) * (oq * oq) * bool * option (hv * hv).

Definition hv_of_oq (x : oq) : hv := match x with Some q => HNum q | None => HAuto end.

Definition sizing_model (fn : nat) (bw bh : oq) (i : intr) (cbw hsum minw minh : Q) (maxw maxh : oq)
  : option (hv * hv) :=
  let fill := fill_width cbw hsum minw maxw in
  match fn with
  | 0%nat => bind (rbw_raw bh i fill minh maxh bw) (fun w => Some (HNum w, hv_of_oq bh))
  | 1%nat => bind (rbw bw bh i cbw hsum minw minh maxw maxh) (fun w => Some (HNum w, hv_of_oq bh))
  | 2%nat => bind (rbh_raw_hv bw i bh) (fun h => Some (hv_of_oq bw, h))
  | 3%nat => bind (rbh bw bh i minh maxh) (fun h => Some (hv_of_oq bw, HNum h))
  | 4%nat => match bw, bh with
             | Some w, Some h => let '(a, b) := mmar (ir i) w h minw minh maxw maxh in Some (HNum a, HNum b)
             | _, _ => None
             end
  | _ => bind (inline_wh bw bh i cbw hsum minw minh maxw maxh) (fun '(w, h) => Some (HNum w, HNum h))
  end.

(* hypotheses of the theorem used_size_css21 (proofs/C13_sizing.v), decidable *)
Definition used_size_hyp_b (cw ch : oq) (i : intr) (fill minw minh : Q) (maxw maxh : oq) : bool :=
  let maxw' := qmax_inf minw maxw in
  let maxh' := qmax_inf minh maxh in
  wf_b i &&
  match cw, ch with
  | None, None =>
      let w0 := css_width None None i 0 fill in
      let h0 := css_height None None i w0 in
      Qltb 0 w0 && Qltb 0 h0
  | _, _ => true
  end.

Definition sizing_judge (c : sizing_case) : nat :=
  let '(fn, (bw, bh), i3, (cbw, hsum, minw, minh), (maxw, maxh), approx, out) := c in
  let i := mk_intr i3 in
  let m := sizing_model fn bw bh i cbw hsum minw minh maxw maxh in
  let same := match m, out with
              | Some (a, b), Some (a', b') => hv_cmp approx a a' && hv_cmp approx b b'
              | None, None => true
              | _, _ => false
              end in
  let spec :=
    match fn, out with
    | 4%nat, Some (HNum a, HNum b) =>
        match bw, bh with
        | Some w, Some h =>
            impl (Qltb 0 w && Qltb 0 h && negb (is_none (ir i)))
                 (q2_eqb (a, b) (table_fn w h minw minh (qmax_inf minw maxw) (qmax_inf minh maxh)))
        | _, _ => true
        end
    | 5%nat, o =>
        let fill := fill_width cbw hsum minw maxw in
        impl (used_size_hyp_b bw bh i fill minw minh maxw maxh)
             match o with
             | Some (HNum a, HNum b) => q2_eqb (a, b) (css_used_size_fn bw bh i fill minw minh maxw maxh)
             | _ => false
             end
    | _, _ => true
    end in
  (bit 1 same + bit 2 spec)%nat.

(* ---- replacedbox_layout: (fit, rgt, btm, px, py, bw, bh, intr, cx, cy, out) *)
Definition fit_of (n : nat) : fit :=
  match n with 0%nat => Fill | 1%nat => Contain | 2%nat => Cover | 3%nat => FitNone | _ => ScaleDown end.
Definition q4_eqb (a b : Q * Q * Q * Q) : bool :=
  let '(a1, a2, a3, a4) := a in let '(b1, b2, b3, b4) := b in
  Qeq_bool a1 b1 && Qeq_bool a2 b2 && Qeq_bool a3 b3 && Qeq_bool a4 b4.

Definition pct_in_range (v : lenpct) : bool :=
  match v with Pct p => Qle_bool 0 p && Qle_bool p 100 | Px _ => false end.

Definition layout_spec_b (f : fit) (rgt btm : bool) (px py : lenpct) (bw bh : Q) (i : intr) (cx cy : Q)
           (out : option (Q * Q * Q * Q)) : bool :=
  impl (wf_b i && Qle_bool 0 bw && Qle_bool 0 bh)
  match out with
  | None => false
  | Some (dw, dh, x, y) =>
      match f, ir i with
      | Fill, _ => Qeq_bool dw bw && Qeq_bool dh bh
      | Contain, Some r =>
          Qle_bool dw bw && Qle_bool dh bh && (Qeq_bool dw bw || Qeq_bool dh bh) && Qeq_bool dw (dh * r)
      | Cover, Some r =>
          Qle_bool bw dw && Qle_bool bh dh && (Qeq_bool dw bw || Qeq_bool dh bh) && Qeq_bool dw (dh * r)
      | ScaleDown, Some r =>
          Qle_bool dw bw && Qle_bool dh bh && Qeq_bool dw (dh * r) &&
          match iw i, ih i with
          | Some w, Some h => Qle_bool dw w && Qle_bool dh h &&
                              (Qeq_bool dw w || Qeq_bool dw bw || Qeq_bool dh bh)
          | _, _ => Qeq_bool dw bw || Qeq_bool dh bh
          end
      | FitNone, _ =>
          match iw i, ih i with
          | Some w, Some h => Qeq_bool dw w && Qeq_bool dh h
          | _, _ => true
          end
      | ScaleDown, None => true
      | _, None => Qeq_bool dw bw && Qeq_bool dh bh
      end &&
      (* percentages between 0 and 100 keep a smaller painted rectangle inside the content box and align the
         same percentage points *)
      impl (pct_in_range px && Qle_bool dw bw) (Qle_bool cx x && Qle_bool (x + dw) (cx + bw)) &&
      impl (pct_in_range py && Qle_bool dh bh) (Qle_bool cy y && Qle_bool (y + dh) (cy + bh)) &&
      match px with
      | Pct p => let p := if rgt then 100 - p else p in Qeq_bool ((x - cx) + dw * p / 100) (bw * p / 100)
      | Px q => Qeq_bool (x - cx) (if rgt then bw - dw - q else q)
      end &&
      match py with
      | Pct p => let p := if btm then 100 - p else p in Qeq_bool ((y - cy) + dh * p / 100) (bh * p / 100)
      | Px q => Qeq_bool (y - cy) (if btm then bh - dh - q else q)
      end
  end.

Definition layout_judge
  (c : nat * bool * bool * lenpct * lenpct * Q * Q * (oq * oq * oq) * Q * Q * option (Q * Q * Q * Q)) : nat :=
  let '(f, rgt, btm, px, py, bw, bh, i3, cx, cy, out) := c in
  let i := mk_intr i3 in
  let m := rb_layout (fit_of f) rgt btm px py bw bh i cx cy in
  (bit 1 (match m, out with Some a, Some b => q4_eqb a b | None, None => true | _, _ => false end) +
   bit 2 (layout_spec_b (fit_of f) rgt btm px py bw bh i cx cy out))%nat.

(* ================================================================ render monitor (floats: tolerances) *)
Require Import WV.model.C13Background.
Definition tol6 : Q := 1 # 1000000.
Definition tol4 : Q := 1 # 10000.
Definition close4 (tol : Q) (a b : Q * Q * Q * Q) : bool :=
  let '(a1, a2, a3, a4) := a in let '(b1, b2, b3, b4) := b in
  close tol a1 b1 && close tol a2 b2 && close tol a3 b3 && close tol a4 b4.

(* ((bw, bh), intr, (cbw, hsum, minw, minh), (maxw, maxh), observed (w, h), (fit, rgt, btm, px, py), (cx, cy),
    raster?, observed painted rectangle (x, y, w, h) from the `cm ... Do` in the PDF) *)
Definition mon_case : Type :=
  (oq * oq) * (oq * oq * oq) * (Q * Q * Q * Q) * (oq * oq) * (Q * Q) * (nat * bool * bool * lenpct * lenpct) *
  (Q * Q) * bool * option (Q * Q * Q * Q).

Definition monitor_judge (c : mon_case) : nat :=
  let '((bw, bh), i3, (cbw, hsum, minw, minh), (maxw, maxh), obs, (f, rgt, btm, px, py), (cx, cy), raster, draw) := c in
  let i := mk_intr i3 in
  let fill := fill_width cbw hsum minw maxw in
  let b1 := match inline_wh bw bh i cbw hsum minw minh maxw maxh with
            | Some m => q2_close tol6 m obs
            | None => false
            end in
  let b2 := impl (used_size_hyp_b bw bh i fill minw minh maxw maxh)
                 (q2_close tol6 (css_used_size_fn bw bh i fill minw minh maxw maxh) obs) in
  let b4 :=
    negb raster ||
    match rb_layout (fit_of f) rgt btm px py (fst obs) (snd obs) i cx cy, draw with
    | Some (dw, dh, x, y), Some d => close4 tol4 (x, y, dw, dh) d
    | Some (dw, dh, x, y), None => Qle_bool dw 0 || Qle_bool dh 0 || Qeq_bool (fst obs) 0 || Qeq_bool (snd obs) 0
    | None, _ => false
    end in
  (bit 1 b1 + bit 2 b2 + bit 4 b4)%nat.


(* contain / cover / round judged on the observed layer (w, h, x, y) with a tolerance *)
Definition cle (tol a b : Q) : bool := Qle_bool a (b + tol * Qmax 1 (Qabs' b)).
Definition bg_spec_approx (i : intr) (size : bgsize) (pw ph : Q) (rx ry : rep) (l : Q * Q * Q * Q) : bool :=
  let '(w, h, x, y) := l in
  impl (negb (is_round rx) && negb (is_round ry))
    match size, ir i with
    | BContain, Some r => impl (Qltb 0 r) (cle tol6 w pw && cle tol6 h ph && (close tol6 w pw || close tol6 h ph) && close tol6 w (h * r))
    | BCover, Some r => impl (Qltb 0 r) (cle tol6 pw w && cle tol6 ph h && (close tol6 w pw || close tol6 h ph) && close tol6 w (h * r))
    | _, _ => true
    end &&
  impl (is_round rx && Qltb 0 pw && Qltb 0 w)
    (close tol6 x 0 && let n := Qround.Qfloor (pw / w + (1 # 2)) in close tol6 (w * inject_Z n) pw && (1 <=? n)%Z) &&
  impl (is_round ry && Qltb 0 ph && Qltb 0 h)
    (close tol6 y 0 && let n := Qround.Qfloor (ph / h + (1 # 2)) in close tol6 (h * inject_Z n) ph && (1 <=? n)%Z).

(* (intr, size, (pw, ph), (rgt, btm), (px, py), (rx, ry), painting (w, h), positioning origin (x, y),
    observed: None = layer without image | Some (layer (w, h, x, y), first tile rectangle in page px, pattern steps)) *)
Definition bgmon_case : Type :=
  (oq * oq * oq) * bgsize * (Q * Q) * (bool * bool) * (lenpct * lenpct) * (nat * nat) * (Q * Q) * (Q * Q) *
  option ((Q * Q * Q * Q) * option (Q * Q * Q * Q) * option (Q * Q)).

(* `space`: floor(area / image) is computed in floating point by the implementation; when the quotient is (nearly) an
   integer either neighbouring count is accepted *)
Definition space_steps (area img : Q) : list Q :=
  match qdiv area img with
  | None => []
  | Some q => map (fun n => if (2 <=? n)%Z then (area - img) / inject_Z (n - 1) else area)
                  [Qround.Qfloor q; Qround.Qfloor (q + tol6); Qround.Qfloor (q - tol6)]
  end.
Definition step_ok (r : rep) (area paint img pos obs : Q) : bool :=
  match r with
  | Space => existsb (fun s => close tol4 s obs) (space_steps area img)
  | _ => match draw_axis r area paint img pos with Some (s, _) => close tol4 s obs | None => false end
  end.

(* `round`: round(area / image) is computed in floating point by the implementation; when the quotient is (nearly) a
   half-integer either neighbouring count is legitimate: the layer is then judged by the specification only *)
Definition near_half (q : Q) : bool := close tol6 (q - inject_Z (Qround.Qfloor q)) (1 # 2).
Definition round_tie (i : intr) (size : bgsize) (pw ph : Q) (rx ry : rep) : bool :=
  match bg_size i size pw ph with
  | Some (w, h) =>
      let tx := is_round rx && negb (Qeq_bool w 0) && near_half (pw / w) in
      tx ||
      match round_step (is_round rx) (is_round ry) (size_auto_h size) pw w h with
      | Some (_, h1) => is_round ry && negb (Qeq_bool h1 0) && near_half (ph / h1)
      | None => false
      end
  | None => false
  end.

Definition bgmon_judge (c : bgmon_case) : nat :=
  let '(i3, size, (pw, ph), (rgt, btm), (px, py), (rx, ry), (paw, pah), (ox, oy), out) := c in
  let i := mk_intr i3 in
  let rx := rep_of rx in let ry := rep_of ry in
  match bg_layout i size pw ph rgt btm px py rx ry, out with
  | BUnused, None => 0%nat
  | BLayer w h x y, Some (l, tile, steps) =>
      let b1 := close4 tol6 (w, h, x, y) l in
      let pattern := negb (match rx, ry with NoRepeat, NoRepeat => true | _, _ => false end) in
      let b4 :=
        if Qeq_bool w 0 || Qeq_bool h 0 then match tile with None => true | Some _ => false end
        else
          match draw_axis rx pw paw w x, draw_axis ry ph pah h y, tile with
          | Some (sx, offx), Some (sy, offy), Some t =>
              (if pattern then close4 tol4 (ox + offx, oy + offy, w, h) t
               else close4 tol4 (ox + x, oy + y, w, h) t) &&
              match steps with
              | Some (a, b) => pattern && step_ok rx pw paw w x a && step_ok ry ph pah h y b
              | None => negb pattern
              end
          | _, _, _ => false
          end in
      let tie := round_tie i size pw ph rx ry in
      (bit 1 (b1 || tie) + bit 4 (b4 || tie) + bit 2 (bg_spec_approx i size pw ph rx ry l))%nat
  | _, _ => 1%nat
  end.
