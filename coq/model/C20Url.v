(* C20 - model of weasyprint/urls.py: url_is_absolute, iri_to_uri, url_join (with urllib.parse.urljoin of
   CPython 3.12 on hierarchical URLs), on the URL shapes the C20 generator produces.
   Strings are byte strings (the UTF-8 encoding of the Python str).  Definitions only. *)
From Coq Require Import List String Ascii Bool Arith NArith.
Import ListNotations.
Open Scope string_scope.

(* ---- url_is_absolute : UNICODE_SCHEME_RE = ^([a-zA-Z][a-zA-Z0-9.+-]+):   (note the +: a one-letter
        "scheme" such as a Windows drive letter is not a scheme) *)
Definition is_alpha (c : ascii) : bool :=
  let n := nat_of_ascii c in ((65 <=? n)%nat && (n <=? 90)%nat) || ((97 <=? n)%nat && (n <=? 122)%nat).
Definition is_digit (c : ascii) : bool :=
  let n := nat_of_ascii c in (48 <=? n)%nat && (n <=? 57)%nat.
Definition is_scheme_char (c : ascii) : bool :=
  is_alpha c || is_digit c || Ascii.eqb c "." || Ascii.eqb c "+" || Ascii.eqb c "-".

Fixpoint scheme_tail (seen : bool) (s : string) : bool :=
  match s with
  | EmptyString => false
  | String c r => if Ascii.eqb c ":" then seen
                  else if is_scheme_char c then scheme_tail true r else false
  end.

Definition url_is_absolute (s : string) : bool :=
  match s with
  | EmptyString => false
  | String c r => is_alpha c && scheme_tail false r
  end.

(* ---- iri_to_uri : data: URLs unchanged, else quote(utf8 bytes, safe="/:?#[]@!$&'()*+,;=~%") *)
Definition safe_extra : list ascii := list_ascii_of_string "_.-~/:?#[]@!$&'()*+,;=%".
Definition safe_char (c : ascii) : bool :=
  is_alpha c || is_digit c || existsb (Ascii.eqb c) safe_extra.
Definition hex_digit (n : nat) : ascii :=
  nth n (list_ascii_of_string "0123456789ABCDEF") "0"%char.
Definition pct (c : ascii) : string :=
  let n := nat_of_ascii c in
  String "%" (String (hex_digit (n / 16)) (String (hex_digit (n mod 16)) EmptyString)).
Fixpoint quote (s : string) : string :=
  match s with
  | EmptyString => EmptyString
  | String c r => if safe_char c then String c (quote r) else pct c ++ quote r
  end.
Definition iri_to_uri (s : string) : string := if prefix "data:" s then s else quote s.

(* ---- structured URLs ----
   base: scheme://auth/seg/.../seg ; b_segs = [] is the empty path, a last segment "" is a directory URL. *)
Record base := { b_scheme : string; b_auth : string; b_segs : list string }.

Inductive ref :=
| RAbs (b : base) (sfx : string)                  (* scheme://auth/path + "" | "?query" | "#fragment" *)
| ROpaque (s : string)                            (* data:... *)
| RRel (segs : list string) (sfx : string)        (* a/b , ../a , ./a , "" (segs = [""]) *)
| RPath (segs : list string) (sfx : string)       (* /a/b *)
| RNet (auth : string) (segs : list string) (sfx : string).   (* //host/a/b *)

Inductive aurl := AHier (b : base) (sfx : string) | AOpaque (s : string).

Definition join_segs (l : list string) : string := String.concat "/" l.
Definition show_path (segs : list string) : string :=
  match segs with [] => "" | _ => "/" ++ join_segs segs end.
Definition show_base (b : base) : string :=
  b_scheme b ++ "://" ++ b_auth b ++ show_path (b_segs b).
Definition show_ref (r : ref) : string :=
  match r with
  | RAbs b sfx => show_base b ++ sfx
  | ROpaque s => s
  | RRel segs sfx => join_segs segs ++ sfx
  | RPath segs sfx => "/" ++ join_segs segs ++ sfx
  | RNet a segs sfx => "//" ++ a ++ show_path segs ++ sfx
  end.
Definition show_aurl (a : aurl) : string :=
  match a with AHier b sfx => show_base b ++ sfx | AOpaque s => s end.

(* ---- urllib.parse.urljoin, the path part *)
Fixpoint res_path (acc : list string) (segs : list string) : list string :=   (* acc: stack, top first *)
  match segs with
  | [] => rev acc
  | s :: r => if s =? ".." then res_path (tl acc) r
              else if s =? "." then res_path acc r
              else res_path (s :: acc) r
  end.

Fixpoint filter_mid (l : list string) : list string :=      (* segments[1:-1] = filter(None, ...) *)
  match l with
  | [] => []
  | x :: r => match r with
              | [] => [x]
              | _ => if x =? "" then filter_mid r else x :: filter_mid r
              end
  end.
Definition filter_interior (l : list string) : list string :=
  match l with [] => [] | x :: r => x :: filter_mid r end.

Definition base_parts (segs : list string) : list string :=
  let parts := "" :: segs in
  if last parts "" =? "" then parts else removelast parts.

Definition ends_with_dots (segs : list string) : bool :=
  let l := last segs "" in (l =? ".") || (l =? "..").

(* resolved path as a list of segments after the leading "/" *)
Definition resolved_segments (segments : list string) : list string :=
  let r := res_path [] segments in
  if ends_with_dots segments then r ++ [""] else r.

(* '/'.join(resolved) or '/', then urlunsplit adds the leading "/" when it is missing; as segments *)
Definition path_of_resolved (r : list string) : list string :=
  match r with
  | [] => [""]                         (* "/" *)
  | "" :: [] => [""]                   (* "" -> "/" *)
  | "" :: rest => rest                 (* "/a/b" *)
  | _ => r                             (* "a/b" -> "/a/b" *)
  end.

Definition is_empty_path (segs : list string) : bool :=
  match segs with [] => true | [s] => s =? "" | _ => false end.

Definition urljoin (b : base) (r : ref) : aurl :=
  match r with
  | RAbs b' sfx => AHier b' sfx
  | ROpaque s => AOpaque s
  | RNet a segs sfx => AHier {| b_scheme := b_scheme b; b_auth := a; b_segs := segs |} sfx
  | RRel segs sfx =>
      if is_empty_path segs then AHier b sfx
      else AHier {| b_scheme := b_scheme b; b_auth := b_auth b;
                    b_segs := path_of_resolved (resolved_segments
                                (filter_interior (base_parts (b_segs b) ++ segs))) |} sfx
  | RPath segs sfx =>
      AHier {| b_scheme := b_scheme b; b_auth := b_auth b;
               b_segs := path_of_resolved (resolved_segments ("" :: segs)) |} sfx
  end.

(* ---- url_join(base_url, url, allow_relative, ...) ; None = "Relative URI reference without a base URI" is
   logged and the reference is dropped *)
Definition as_absolute (r : ref) : aurl :=
  match r with
  | RAbs b sfx => AHier b sfx
  | _ => AOpaque (show_ref r)
  end.

Definition url_join (b : option base) (r : ref) (allow_relative : bool) : option aurl :=
  if url_is_absolute (show_ref r) then Some (as_absolute r)
  else match b with
       | Some b => Some (urljoin b r)
       | None => if allow_relative then Some (AOpaque (show_ref r)) else None
       end.

(* the string handed to the fetcher *)
Definition fetched_string (a : aurl) : string := iri_to_uri (show_aurl a).

(* the base for references found inside the resource fetched at [a] (CSS base_url = the url it was fetched
   at; SVG: svg.url).  A data: URL is no base for hierarchical resolution. *)
Definition quote_base (b : base) : base :=
  {| b_scheme := b_scheme b; b_auth := b_auth b; b_segs := map quote (b_segs b) |}.
Definition base_of (a : aurl) : option base :=
  match a with AHier b _ => Some (quote_base b) | AOpaque _ => None end.

(* schemes urljoin resolves against (uses_relative and uses_netloc) among those the generator uses *)
Definition hier_scheme (s : string) : bool := (s =? "http") || (s =? "https") || (s =? "file") || (s =? "ftp").

(* well-formed segments: no "/" , "?" , "#" , ";" inside (they would change the parse) *)
Definition seg_ok (s : string) : bool :=
  forallb (fun c => negb (existsb (Ascii.eqb c) (list_ascii_of_string "/?#;"))) (list_ascii_of_string s).

(* ---- judge for the correspondence stream "url_join direct":
   case = (base option, ref, allow_relative, ref string the harness used, output of the real url_join)
   bit 0: show_ref differs from the harness' spelling, or the model's output differs *)
Definition opt_string_eqb (a b : option string) : bool :=
  match a, b with
  | Some x, Some y => x =? y
  | None, None => true
  | _, _ => false
  end.

Definition url_judge (c : option base * ref * bool * string * option string) : nat :=
  let '(b, r, allow, spelled, out) := c in
  let m := option_map fetched_string (url_join b r allow) in
  if (show_ref r =? spelled) && opt_string_eqb m out then 0 else 1.

Definition abs_judge (c : string * bool) : nat :=
  let '(s, out) := c in if Bool.eqb (url_is_absolute s) out then 0 else 1.

Definition iri_judge (c : string * string) : nat :=
  let '(s, out) := c in if iri_to_uri s =? out then 0 else 1.

(* byte strings written by the harness for non-ASCII input *)
Definition bytes_str (l : list nat) : string := string_of_list_ascii (map ascii_of_nat l).
