(* C13 - specifications written from the CSS text (CSS 2.1 10.3.2, 10.6.2, 10.4, 10.7; css-images-3 5.5 object-fit,
   object-position; css-backgrounds-3 3.9), independent of the code's control flow.  Definitions only. *)
From Coq Require Import QArith Qminmax List Bool.
Require Import WV.model.C13Replaced.
Import ListNotations.
Open Scope Q_scope.

(* ---- well-formed intrinsic sizes: positive when known, and ratio = width / height when all three are known *)
Definition opos (x : oq) : Prop := match x with Some q => 0 < q | None => True end.
Definition consistent (i : intr) : Prop :=
  match iw i, ih i, ir i with Some w, Some h, Some r => w == h * r | _, _, _ => True end.
Definition wf (i : intr) : Prop := opos (iw i) /\ opos (ih i) /\ opos (ir i) /\ consistent i.

Definition le_inf (x : Q) (m : oq) : Prop := match m with Some m => x <= m | None => True end.

(* ---- CSS 2.1 10.4 / 10.7 for everything but the ratio table: tentative value, then max, then min *)
Definition css_clamp (x mn : Q) (mx : oq) : Q :=
  let x := match mx with Some m => Qmin x m | None => x end in Qmax x mn.

(* ---- CSS 2.1 10.3.2: tentative used width.  cw ch: computed width/height, None = auto.
   uh: the used height when it does not depend on the width (ch not auto).  fill: block-level constraint (point 3) *)
Definition css_width (cw ch : oq) (i : intr) (uh fill : Q) : Q :=
  match cw with
  | Some w => w
  | None =>
      match ch with
      | None =>
          match iw i, ih i, ir i with
          | Some w, _, _ => w                    (* both auto, intrinsic width *)
          | None, Some h, Some r => h * r        (* both auto, no width, height and ratio *)
          | None, None, Some r => fill           (* undefined in CSS 2.1; suggested: block constraint equation *)
          | None, _, None => 300
          end
      | Some _ =>
          match ir i, iw i with
          | Some r, _ => uh * r                  (* width auto, height not auto, ratio: used height * ratio *)
          | None, Some w => w
          | None, None => 300
          end
      end
  end.

(* ---- CSS 2.1 10.6.2: tentative used height; uw = used width *)
Definition css_height (cw ch : oq) (i : intr) (uw : Q) : Q :=
  match ch with
  | Some h => h
  | None =>
      match cw, ih i, ir i with
      | None, Some h, _ => h                     (* both auto, intrinsic height *)
      | _, _, Some r => uw / r                   (* height auto, ratio: used width / ratio *)
      | _, Some h, None => h
      | _, None, None => 150
      end
  end.

(* ---- CSS 2.1 10.4, the table for replaced elements with an intrinsic ratio and both dimensions auto.
   maxw, maxh are already max(min, max) ("so that min <= max holds true"); None = no maximum *)
Inductive table_10_4 (w h minw minh : Q) (maxw maxh : oq) (rw rh : Q) : Prop :=
| row_none : minw <= w -> le_inf w maxw -> minh <= h -> le_inf h maxh ->
    rw == w -> rh == h -> table_10_4 w h minw minh maxw maxh rw rh
| row_wmax mw : maxw = Some mw -> mw < w -> minh <= h -> le_inf h maxh ->
    rw == mw -> rh == Qmax (mw * h / w) minh -> table_10_4 w h minw minh maxw maxh rw rh
| row_wmin : w < minw -> minh <= h -> le_inf h maxh ->
    rw == minw -> rh == qmin_inf (minw * h / w) maxh -> table_10_4 w h minw minh maxw maxh rw rh
| row_hmax mh : maxh = Some mh -> mh < h -> minw <= w -> le_inf w maxw ->
    rw == Qmax (mh * w / h) minw -> rh == mh -> table_10_4 w h minw minh maxw maxh rw rh
| row_hmin : h < minh -> minw <= w -> le_inf w maxw ->
    rw == qmin_inf (minh * w / h) maxw -> rh == minh -> table_10_4 w h minw minh maxw maxh rw rh
| row_wmax_hmax_1 mw mh : maxw = Some mw -> maxh = Some mh -> mw < w -> mh < h -> mw / w <= mh / h ->
    rw == mw -> rh == Qmax minh (mw * h / w) -> table_10_4 w h minw minh maxw maxh rw rh
| row_wmax_hmax_2 mw mh : maxw = Some mw -> maxh = Some mh -> mw < w -> mh < h -> mh / h < mw / w ->
    rw == Qmax minw (mh * w / h) -> rh == mh -> table_10_4 w h minw minh maxw maxh rw rh
| row_wmin_hmin_1 : w < minw -> h < minh -> minw / w <= minh / h ->
    rw == qmin_inf (minh * w / h) maxw -> rh == minh -> table_10_4 w h minw minh maxw maxh rw rh
| row_wmin_hmin_2 : w < minw -> h < minh -> minh / h < minw / w ->
    rw == minw -> rh == qmin_inf (minw * h / w) maxh -> table_10_4 w h minw minh maxw maxh rw rh
| row_wmin_hmax mh : maxh = Some mh -> w < minw -> mh < h ->
    rw == minw -> rh == mh -> table_10_4 w h minw minh maxw maxh rw rh
| row_wmax_hmin mw : maxw = Some mw -> mw < w -> h < minh ->
    rw == mw -> rh == minh -> table_10_4 w h minw minh maxw maxh rw rh.

(* ---- the used size of a replaced element, CSS 2.1 10.3.2 + 10.6.2 + 10.4 + 10.7 *)
Definition css_used_size (cw ch : oq) (i : intr) (fill minw minh : Q) (maxw maxh : oq) (rw rh : Q) : Prop :=
  let maxw' := qmax_inf minw maxw in
  let maxh' := qmax_inf minh maxh in
  match cw, ch, ir i with
  | None, None, Some _ =>
      (* both auto, intrinsic ratio: tentative sizes, then the table *)
      let w0 := css_width None None i 0 fill in
      let h0 := css_height None None i w0 in
      table_10_4 w0 h0 minw minh maxw' maxh' rw rh
  | _, _, _ =>
      (* used height first when it does not depend on the width, then width, then height *)
      let uh := match ch with Some h => css_clamp h minh maxh' | None => 0 end in
      let uw := css_clamp (css_width cw ch i uh fill) minw maxw' in
      rw == uw /\ rh == css_clamp (css_height cw ch i uw) minh maxh'
  end.

(* ---- css-images-3: object-fit as relations between the content box (bw x bh), the ratio and the result *)
Definition contained (bw bh r w h : Q) : Prop := w <= bw /\ h <= bh /\ (w == bw \/ h == bh) /\ w == h * r.
Definition covering (bw bh r w h : Q) : Prop := bw <= w /\ bh <= h /\ (w == bw \/ h == bh) /\ w == h * r.

(* object-position / background-position percentage: the point at p% of the image lies on the point at p% of
   the area *)
Definition aligned (p area img pos : Q) : Prop := pos + img * p / 100 == area * p / 100.

(* ================================================================ decidable renditions, used by the judges *)
Definition opos_b (x : oq) : bool := match x with Some q => Qltb 0 q | None => true end.
Definition consistent_b (i : intr) : bool :=
  match iw i, ih i, ir i with Some w, Some h, Some r => Qeq_bool w (h * r) | _, _, _ => true end.
Definition wf_b (i : intr) : bool := opos_b (iw i) && opos_b (ih i) && opos_b (ir i) && consistent_b i.
Definition le_inf_b (x : Q) (m : oq) : bool := match m with Some m => Qle_bool x m | None => true end.

(* the table as a function (first matching row); total for w, h > 0 *)
Definition table_fn (w h minw minh : Q) (maxw maxh : oq) : Q * Q :=
  let wlo := Qltb w minw in let hlo := Qltb h minh in
  let whi := gt_inf w maxw in let hhi := gt_inf h maxh in
  let mw := match maxw with Some m => m | None => w end in
  let mh := match maxh with Some m => m | None => h end in
  if whi && hhi then
    if Qle_bool (mw / w) (mh / h) then (mw, Qmax minh (mw * h / w)) else (Qmax minw (mh * w / h), mh)
  else if wlo && hlo then
    if Qle_bool (minw / w) (minh / h) then (qmin_inf (minh * w / h) maxw, minh)
    else (minw, qmin_inf (minw * h / w) maxh)
  else if wlo && hhi then (minw, mh)
  else if whi && hlo then (mw, minh)
  else if whi then (mw, Qmax (mw * h / w) minh)
  else if wlo then (minw, qmin_inf (minw * h / w) maxh)
  else if hhi then (Qmax (mh * w / h) minw, mh)
  else if hlo then (qmin_inf (minh * w / h) maxw, minh)
  else (w, h).

Definition css_used_size_fn (cw ch : oq) (i : intr) (fill minw minh : Q) (maxw maxh : oq) : Q * Q :=
  let maxw' := qmax_inf minw maxw in
  let maxh' := qmax_inf minh maxh in
  match cw, ch, ir i with
  | None, None, Some _ =>
      let w0 := css_width None None i 0 fill in
      let h0 := css_height None None i w0 in
      table_fn w0 h0 minw minh maxw' maxh'
  | _, _, _ =>
      let uh := match ch with Some h => css_clamp h minh maxh' | None => 0 end in
      let uw := css_clamp (css_width cw ch i uh fill) minw maxw' in
      (uw, css_clamp (css_height cw ch i uw) minh maxh')
  end.
