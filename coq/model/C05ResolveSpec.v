(* C05 (independent of coq/gen): the hand models [resolve] and [adjust] evaluated on the implementation's outputs of
   resolve_percentages (bit 1 of the resolve-direct stream: the theorems of proofs/C05_gen_resolve.v say the regenerated
   text computes this, and proofs/C05_gen_box_sizing.v that [adjust] meets the box-sizing clause). *)
From Coq Require Import QArith Qminmax List String Bool.
Require Import WV.base.Py WV.model.C05SpecPure WV.model.C05BoxSizing WV.model.C05Resolve.
Import ListNotations.
Open Scope string_scope.
Open Scope list_scope.
Open Scope Q_scope.

Definition numq (v : val) : option Q := match v with VNum q => Some q | _ => None end.
(* the used values of a box that has been through resolve_percentages: the model's answer, None when the model
   says the function raises (a padding / border / maximum size that is not a number) *)
Definition expected_used (kw : string) (collapse : bool) (ha : string -> bool) (s : cstyle) (sbl sbr sbt sbb cbw : Q)
           (cbh : option Q) : option (list val) :=
  let U := resolve s (VNum sbl) (VNum sbr) (VNum sbt) (VNum sbb) (fun x => collapse && ha x) cbw cbh cbw (VNum 0) used0 in
  match sizing_of kw, numq (u_pl U), numq (u_pr U), numq (u_pt U), numq (u_pb U) with
  | Some szk, Some pl, Some pr, Some pt, Some pb =>
      match numq (u_bl U), numq (u_br U), numq (u_bt U), numq (u_bb U), numq (u_maxw U), numq (u_maxh U) with
      | Some bl, Some br, Some bt, Some bb, Some mxw, Some mxh =>
          let zw := adjust szk (mkEdges pl pr bl br) (mkSizes (numq (u_w U)) (numq (u_minw U)) mxw) in
          let zh := adjust szk (mkEdges pt pb bt bb) (mkSizes (numq (u_h U)) (numq (u_minh U)) mxh) in
          Some [u_ml U; u_mr U; u_mt U; u_mb U; VNum pl; VNum pr; VNum pt; VNum pb; VNum bl; VNum br; VNum bt; VNum bb;
                vo (sz zw); vo (sz_min zw); VNum (sz_max zw); vo (sz zh); vo (sz_min zh); VNum (sz_max zh)]
      | _, _, _, _, _, _ => None
      end
  | _, _, _, _, _ => None
  end.
Definition rp_spec_judge (c : (string * bool * (bool * bool * bool * bool)) * list cval * (Q * Q * Q * Q) * (Q * option Q) * list val) : nat :=
  let '((kw, collapse, h4), cs, (sbl, sbr, sbt, sbb), (cbw, cbh), out) := c in
  match style_of_list cs with
  | None => 2%nat
  | Some s => match expected_used kw collapse (ha_of h4) s sbl sbr sbt sbb cbw cbh with
              | Some l => if vals_eqb l out then 0%nat else 2%nat
              | None => 2%nat
              end
  end.
