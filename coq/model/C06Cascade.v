(* C06 - the cascade: hand model of weasyprint/css/__init__.py
     declaration_precedence, the application loops of StyleFor.__init__ (style attributes and presentational
     hints first, then per element every sheet in list order, the matches of a sheet in cssselect2's
     (specificity, order) order, `old_weight is None or old_weight <= weight` keeps the later of equals),
     and StyleFor.add_page_declarations.
   Definitions only.  Property names and pseudo-element types are integers (ids); pseudo 0 = None. *)
From Coq Require Import ZArith List Bool String.
Import ListNotations.
Open Scope Z_scope.

(* ---------------------------------------------------------------- declaration_precedence *)
Inductive origin := UA | User | Author.

Definition origin_str (o : origin) : string :=
  match o with UA => "user agent" | User => "user" | Author => "author" end%string.

(* line by line on the strings; None = the `assert origin == 'user'` of the last branch fails *)
Definition declaration_precedence_str (o : string) (importance : bool) : option Z :=
  if String.eqb o "user agent" then Some 1
  else if String.eqb o "user" && negb importance then Some 2
  else if String.eqb o "author" && negb importance then Some 3
  else if String.eqb o "author" then Some 4
  else if String.eqb o "user" then Some 5 else None.

Definition declaration_precedence (o : origin) (importance : bool) : Z :=
  match o, importance with
  | UA, _ => 1 | User, false => 2 | Author, false => 3 | Author, true => 4 | User, true => 5
  end.

(* ---------------------------------------------------------------- weights
   A specificity is a Python tuple (a, b, c); a is float('inf') for style attributes. Tuples compare
   lexicographically; weight = (precedence, specificity). *)
Inductive xz := Fin (z : Z) | Inf.
Definition xz_compare (a b : xz) : comparison :=
  match a, b with
  | Fin x, Fin y => x ?= y | Fin _, Inf => Lt | Inf, Fin _ => Gt | Inf, Inf => Eq
  end.
Definition lex (c1 c2 : comparison) : comparison := match c1 with Eq => c2 | c => c end.

Definition spec := (xz * Z * Z)%type.
Definition spec_compare (s t : spec) : comparison :=
  let '(a, b, c) := s in let '(a', b', c') := t in
  lex (xz_compare a a') (lex (b ?= b') (c ?= c')).
Definition style_attr_spec : spec := (Inf, 0, 0).       (* find_style_attributes: (float('inf'), 0, 0) *)
Definition hint_spec : spec := (Fin 0, 0, 0).           (* presentational hints: (0, 0, 0) *)
Definition sel (a b c : Z) : spec := (Fin a, b, c).     (* a cssselect2 selector specificity *)

Definition weight := (Z * spec)%type.
Definition weight_compare (v w : weight) : comparison :=
  lex (fst v ?= fst w) (spec_compare (snd v) (snd w)).
Definition weight_leb (v w : weight) : bool :=           (* Python: v <= w *)
  match weight_compare v w with Gt => false | _ => true end.
Definition weight_ltb (v w : weight) : bool :=
  match weight_compare v w with Lt => true | _ => false end.

(* the same orders as propositions (lexicographic reading), used in the statements *)
Definition xlt (a b : xz) : Prop :=
  match a, b with Fin x, Fin y => x < y | Fin _, Inf => True | _, _ => False end.
Definition spec_lt (s t : spec) : Prop :=
  let '(a, b, c) := s in let '(a', b', c') := t in
  xlt a a' \/ (a = a' /\ (b < b' \/ (b = b' /\ c < c'))).
Definition weight_lt (v w : weight) : Prop :=
  fst v < fst w \/ (fst v = fst w /\ spec_lt (snd v) (snd w)).

(* ---------------------------------------------------------------- the fold, for any item type
   cascaded_styles[(element, pseudo)] is a dict name -> (values, weight); we keep the whole declaration
   (values and weight are projections of it).  A dict is a list of items in insertion order. *)
Section Fold.
  Variables (D W : Type) (name : D -> Z) (wt : D -> W) (leb : W -> W -> bool).

  Fixpoint get (st : list (Z * D)) (n : Z) : option D :=
    match st with [] => None | (m, x) :: r => if m =? n then Some x else get r n end.
  Fixpoint set (st : list (Z * D)) (n : Z) (x : D) : list (Z * D) :=
    match st with
    | [] => [(n, x)]
    | (m, y) :: r => if m =? n then (m, x) :: r else (m, y) :: set r n x
    end.

  (*  old_weight = style.get(name, (None, None))[1]
      if old_weight is None or old_weight <= weight: style[name] = values, weight  *)
  Definition apply_decl (st : list (Z * D)) (d : D) : list (Z * D) :=
    match get st (name d) with
    | None => set st (name d) d
    | Some old => if leb (wt old) (wt d) then set st (name d) d else st
    end.
  Definition cascade_fold (ds : list D) : list (Z * D) := fold_left apply_decl ds [].

  (* the same seen from one property name *)
  Definition step (n : Z) (acc : option D) (d : D) : option D :=
    if name d =? n then
      match acc with None => Some d | Some o => if leb (wt o) (wt d) then Some d else Some o end
    else acc.

  (* specification side: stable insertion sort by weight, the winner is its last element *)
  Fixpoint insert_stable (x : D) (s : list D) : list D :=
    match s with
    | [] => [x]
    | y :: r => if leb (wt x) (wt y) then x :: y :: r else y :: insert_stable x r
    end.
  Definition stable_sort (l : list D) : list D := fold_right insert_stable [] l.
  Fixpoint last_opt (l : list D) : option D :=
    match l with [] => None | [x] => Some x | _ :: r => last_opt r end.
  Definition named (n : Z) (l : list D) : list D := filter (fun d => name d =? n) l.
  Definition spec_winner (ds : list D) (n : Z) : option D := last_opt (stable_sort (named n ds)).
End Fold.
Arguments get {D}. Arguments set {D}. Arguments apply_decl {D W}. Arguments cascade_fold {D W}.
Arguments step {D W}. Arguments insert_stable {D W}. Arguments stable_sort {D W}. Arguments last_opt {D}.
Arguments named {D}. Arguments spec_winner {D W}.

(* ---------------------------------------------------------------- declarations and application sequence *)
Section Decls.
  Variable V : Type.

  (* one (name, values, importance) triple as produced by preprocess_declarations *)
  Record rdecl := mkr { r_name : Z; r_val : V; r_imp : bool }.

  (* a declaration in the application sequence of one (element, pseudo-element) *)
  Record decl := mkdecl {
    d_origin : origin; d_imp : bool;
    d_spec : spec;          (* the specificity used in the weight (sheet_specificity or specificity) *)
    d_sheet : Z;            (* index in `sheets`; -1 = style attribute / presentational hint attribute *)
    d_selspec : spec;       (* the selector's own specificity (cssselect2 sorts the matches by it);
                               (0,0,0) for attribute declarations, which have no selector *)
    d_order : Z;            (* cssselect2 order of the rule in its matcher (shared with @import-ed sheets);
                               for attribute declarations: index of the yield of find_style_attributes *)
    d_idx : Z;              (* position of the declaration in its rule *)
    d_name : Z; d_val : V }.

  Definition weight_of (d : decl) : weight := (declaration_precedence (d_origin d) (d_imp d), d_spec d).

  Fixpoint number {A : Type} (k : Z) (l : list A) : list (Z * A) :=
    match l with [] => [] | x :: r => (k, x) :: number (k + 1) r end.

  Definition decls_of (o : origin) (eff selsp : spec) (sheet order : Z) (ds : list rdecl) : list decl :=
    map (fun ir => mkdecl o (r_imp (snd ir)) eff sheet selsp order (fst ir) (r_name (snd ir)) (r_val (snd ir)))
        (number 0 ds).

  (* first loop of StyleFor.__init__: the (specificity, declarations) pairs find_style_attributes yields for
     this element, in order; origin 'author'; they only feed the (element, None) style *)
  Definition attr_seq (attrs : list (spec * list rdecl)) : list decl :=
    flat_map (fun ia => decls_of Author (fst (snd ia)) hint_spec (-1) (fst ia) (snd (snd ia)))
             (number 0 attrs).

  (* a cssselect2 match: (specificity, order, pseudo_type, declarations) *)
  Definition smatch := (spec * Z * Z * list rdecl)%type.
  Definition m_spec (m : smatch) : spec := fst (fst (fst m)).
  Definition m_order (m : smatch) : Z := snd (fst (fst m)).
  Definition m_pseudo (m : smatch) : Z := snd (fst m).
  Definition m_decls (m : smatch) : list rdecl := snd m.
  Definition match_leb (m1 m2 : smatch) : bool :=
    match lex (spec_compare (m_spec m1) (m_spec m2)) (m_order m1 ?= m_order m2) with Gt => false | _ => true end.
  (* Matcher.match: relevant_selectors.sort() on (specificity, order, ...) tuples; orders are distinct *)
  Fixpoint insert_match (m : smatch) (s : list smatch) : list smatch :=
    match s with
    | [] => [m]
    | y :: r => if match_leb m y then m :: y :: r else y :: insert_match m r
    end.
  Definition sort_matches (ms : list smatch) : list smatch := fold_right insert_match [] ms.

  (* a sheet of `sheets`: (origin, sheet_specificity, the selectors of its matcher that match the element) *)
  Definition sheet := (origin * option spec * list smatch)%type.
  Definition eff_spec (ss : option spec) (sp : spec) : spec :=     (* sheet_specificity or specificity *)
    match ss with Some s => s | None => sp end.

  Definition sheet_seq (p : Z) (i : Z) (sh : sheet) : list decl :=
    let '(o, ss, ms) := sh in
    flat_map (fun m => if m_pseudo m =? p
                       then decls_of o (eff_spec ss (m_spec m)) (m_spec m) i (m_order m) (m_decls m)
                       else [])
             (sort_matches ms).

  (* everything that is applied to cascaded_styles[(element, p)], in application order *)
  Definition app_seq (p : Z) (attrs : list (spec * list rdecl)) (sheets : list sheet) : list decl :=
    (if p =? 0 then attr_seq attrs else []) ++
    flat_map (fun ish => sheet_seq p (fst ish) (snd ish)) (number 0 sheets).

  (* d is applied no later than e: position = (sheet index, selector specificity, rule order, index in rule) *)
  Definition pos_le (d e : decl) : Prop :=
    d_sheet d < d_sheet e \/
    (d_sheet d = d_sheet e /\
     (spec_lt (d_selspec d) (d_selspec e) \/
      (d_selspec d = d_selspec e /\
       (d_order d < d_order e \/ (d_order d = d_order e /\ d_idx d <= d_idx e))))).

  Definition cascade (ds : list decl) : list (Z * decl) := cascade_fold d_name weight_of weight_leb ds.
  Definition element_cascade (p : Z) attrs sheets : list (Z * decl) := cascade (app_seq p attrs sheets).
  Definition cascaded_value (st : list (Z * decl)) (n : Z) : option V := option_map d_val (get st n).

  (* ------------------------------------------------------------ add_page_declarations
     page_rules of a sheet: (selector_list, declarations); a selector = (specificity, pseudo_type, whether
     _page_type_match(page_selector_type, page_type) holds).  No sort: sheets, rules, selectors in list order. *)
  Definition page_sel := (spec * Z * bool)%type.
  Definition page_rule := (list page_sel * list rdecl)%type.
  Definition page_sheet := (origin * option spec * list page_rule)%type.
  Definition page_seq (p : Z) (sheets : list page_sheet) : list decl :=
    flat_map (fun ish =>
      let '(i, (o, ss, rules)) := ish in
      flat_map (fun jr =>
        let '(j, (sels, ds)) := jr in
        flat_map (fun s => let '(sp, ps, ok) := s in
                           if ok && (ps =? p) then decls_of o (eff_spec ss sp) sp i j ds else []) sels)
        (number 0 rules))
      (number 0 sheets).
  Definition page_cascade (p : Z) (sheets : list page_sheet) : list (Z * decl) := cascade (page_seq p sheets).
End Decls.
Arguments mkr {V}. Arguments r_name {V}. Arguments r_val {V}. Arguments r_imp {V}.
Arguments mkdecl {V}. Arguments d_origin {V}. Arguments d_imp {V}. Arguments d_spec {V}. Arguments d_sheet {V}.
Arguments d_selspec {V}. Arguments d_order {V}. Arguments d_idx {V}. Arguments d_name {V}. Arguments d_val {V}.
Arguments weight_of {V}. Arguments decls_of {V}. Arguments attr_seq {V}. Arguments sheet_seq {V}.
Arguments app_seq {V}. Arguments cascade {V}. Arguments element_cascade {V}. Arguments cascaded_value {V}.
Arguments pos_le {V}. Arguments page_seq {V}. Arguments page_cascade {V}. Arguments sort_matches {V}.
Arguments insert_match {V}. Arguments match_leb {V}. Arguments m_spec {V}. Arguments m_order {V}.
Arguments m_pseudo {V}. Arguments m_decls {V}. Arguments number {A}.
