(* C09 - the width left to a line box by the floats: weasyprint/layout/float.py `avoid_collisions` called with a
   LineBox (outer=False, no margins).  Model in Q with explicit fuel; the specification is CSS 2.1 9.5.1 with
   half-open vertical extents: a float narrows a line iff its margin box shares some vertical extent with the line
   box; a float whose top edge is the line's bottom edge, or whose bottom edge is the line's top edge, does not.
   Definitions only. *)
From Coq Require Import ZArith QArith Qminmax List Bool.
Import ListNotations.
Open Scope Q_scope.

Record shape := { s_left : bool;       (* float: left (true) / right (false) *)
                  s_x : Q; s_y : Q;    (* margin box position *)
                  s_mw : Q; s_mh : Q }. (* margin_width(), margin_height() *)

Definition Qlt_bool (a b : Q) : bool := negb (Qle_bool b a).

(* the three-clause vertical test of avoid_collisions, box = [y, y + bh], shape = [s_y, s_y + s_mh] *)
Definition collides (y bh : Q) (s : shape) : bool :=
  (Qlt_bool (s_y s) y && Qlt_bool y (s_y s + s_mh s)) ||
  (Qlt_bool (s_y s) (y + bh) && Qlt_bool (y + bh) (s_y s + s_mh s)) ||
  (Qle_bool y (s_y s) && Qle_bool (s_y s + s_mh s) (y + bh)).

(* the specification: the half-open intervals [y, y + bh) and [s_y, s_y + s_mh) intersect *)
Definition overlaps (y bh : Q) (s : shape) : Prop := s_y s < y + bh /\ y < s_y s + s_mh s.
Definition overlaps_b (y bh : Q) (s : shape) : bool := Qlt_bool (s_y s) (y + bh) && Qlt_bool y (s_y s + s_mh s).

Definition bounds (test : shape -> bool) (shapes : list shape) (cbx cbw : Q) : Q * Q :=
  let col := filter test shapes in
  let lefts := map (fun s => s_x s + s_mw s) (filter s_left col) in
  let rights := map s_x (filter (fun s => negb (s_left s)) col) in
  (fold_left Qmax lefts cbx, fold_left Qmin rights (cbx + cbw)).

Inductive avoid_res := Placed (x y avail : Q) | NoFuel.

(* the `while True` loop: when the box is wider than what the colliding floats leave, go down to the lowest position
   where one of them ends, if that is lower *)
Fixpoint avoid (fuel : nat) (shapes : list shape) (cbx cbw : Q) (rtl : bool) (bw bh y : Q) : avoid_res :=
  match fuel with
  | O => NoFuel
  | S f =>
      let col := filter (collides y bh) shapes in
      let '(l, r) := bounds (collides y bh) shapes cbx cbw in
      let done := Placed (if rtl then r else l) y (r - l) in
      match col with
      | [] => done
      | c :: col' =>
          if Qlt_bool (r - l) bw then
            let new_y := fold_left Qmin (map (fun s => s_y s + s_mh s) col') (s_y c + s_mh c) in
            if Qlt_bool y new_y then avoid f shapes cbx cbw rtl bw bh new_y else done
          else done
      end
  end.

(* what CSS asks of the result: at the returned position the interval is the one left by the floats that share
   vertical extent with the box *)
Definition spec_interval (shapes : list shape) (cbx cbw y bh : Q) : Q * Q := bounds (overlaps_b y bh) shapes cbx cbw.
