(* C07 - weasyprint/css/utils.py LENGTHS_TO_PIXELS and weasyprint/css/computed_values.py length() for the
   absolute units.  The table is written here as the exact rationals of the source's decimal literals
   (96. / 2.54 is 9600/254); the harness re-reads the literals from the source on every run.
   Definitions only. *)
From Coq Require Import ZArith QArith List Bool String.
Import ListNotations.
Open Scope string_scope.

(* the source expressions, literal by literal *)
Definition LENGTHS_TO_PIXELS : list (string * Q) :=
  [("px", 1);
   ("pt", 1 / (75 # 100));          (* 1. / 0.75 *)
   ("pc", 16);                      (* 16. *)
   ("in", 96);                      (* 96. *)
   ("cm", 96 / (254 # 100));        (* 96. / 2.54 *)
   ("mm", 96 / (254 # 10));         (* 96. / 25.4 *)
   ("q", 96 / (254 # 10) / 4)]%Q.   (* 96. / 25.4 / 4 *)

Fixpoint factor_in (l : list (string * Q)) (u : string) : option Q :=
  match l with
  | [] => None
  | (k, f) :: r => if String.eqb u k then Some f else factor_in r u
  end.
Definition factor := factor_in LENGTHS_TO_PIXELS.

(* computed_values.length(style, name, Dimension(value, unit), pixels_only=True) for an absolute unit:
   0 -> 0 ; px -> value ; else value * LENGTHS_TO_PIXELS[unit].  None: not an absolute unit (font-relative
   units, percentages: other branches). *)
Definition length_px (value : Q) (unit : string) : option Q :=
  if Qeq_bool value 0 then Some 0%Q
  else if String.eqb unit "px" then Some value
  else match factor unit with
       | Some f => Some (value * f)%Q
       | None => None
       end.

(* CSS Values 3, 5.2: how many of each unit make one inch; 1in = 96px *)
Definition per_inch (u : string) : option Q :=
  if String.eqb u "in" then Some 1%Q
  else if String.eqb u "cm" then Some (254 # 100)%Q
  else if String.eqb u "mm" then Some (254 # 10)%Q
  else if String.eqb u "q" then Some (1016 # 10)%Q
  else if String.eqb u "pt" then Some 72%Q
  else if String.eqb u "pc" then Some 6%Q
  else if String.eqb u "px" then Some 96%Q
  else None.

(* --- judges *)
(* the table re-read from the source (exact rationals of the literals) is this table, in this order *)
Definition table_judge (t : list (string * Q)) : nat :=
  if (fix eq (a b : list (string * Q)) : bool :=
        match a, b with
        | [], [] => true
        | (k, f) :: a', (k', f') :: b' => String.eqb k k' && Qeq_bool f f' && eq a' b'
        | _, _ => false
        end) t LENGTHS_TO_PIXELS then 0%nat else 1%nat.

Definition Qabs_ (x : Q) : Q := if Qle_bool 0 x then x else (- x)%Q.

(* case = (value, unit, what length() returned as the exact rational of the float) ; a float product is
   within 2^-50 relative of the exact one.
   bit 0: model <> implementation ; bit 1: the implementation's pixel length is not 96/per_inch of the value *)
Definition length_judge (c : Q * string * Q) : nat :=
  match c with
  | (v, u, r) =>
      let tol x := (Qabs_ x * (1 # 1125899906842624))%Q in
      ((match length_px v u with
        | Some m => if Qle_bool (Qabs_ (r - m)) (tol m) then 0 else 1
        | None => 1
        end) +
       (match per_inch u with
        | Some p => if Qle_bool (Qabs_ (r - v * 96 / p)) (tol r) then 0 else 2
        | None => 2
        end))%nat
  end.
