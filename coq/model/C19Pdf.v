(* C19 - output options: hand model of the coordinate scaling of generate_pdf (weasyprint/pdf/__init__.py:
   scale = zoom * 0.75; MediaBox / TrimBox / BleedBox; the matrix given to add_links / add_forms / add_annotations and
   to make_bookmark_tree; Page.paint's transform) and of Document.copy (weasyprint/document.py).  Definitions only.
   Lengths are rationals; the code computes in floats: the correspondence judge allows the stated tolerance. *)
From Coq Require Import QArith Qminmax Qabs List Bool.
Import ListNotations.
Open Scope Q_scope.

Record page := pmk { pw : Q; ph : Q; b_left : Q; b_top : Q; b_right : Q; b_bottom : Q }.

Definition scale (zoom : Q) : Q := zoom * (3 # 4).

(* left, top, right, bottom of generate_pdf *)
Definition edges (z : Q) (p : page) : Q * Q * Q * Q :=
  let s := scale z in
  let page_width := s * (pw p + b_left p + b_right p) in
  let page_height := s * (ph p + b_top p + b_bottom p) in
  let left := - s * b_left p in
  let top := - s * b_top p in
  (left, top, left + page_width, top + page_height).

Definition media_box (z : Q) (p : page) : list Q :=
  let '(l, t, r, b) := edges z p in [l; t; r; b].

Definition trim_box (z : Q) (p : page) : list Q :=
  let s := scale z in
  let '(l, t, r, b) := edges z p in
  [l + b_left p * s; t + b_top p * s; r - b_right p * s; b - b_bottom p * s].

(* "at most 10 points from the TrimBox": the constant is not scaled *)
Definition bleed_box (z : Q) (p : page) : list Q :=
  let s := scale z in
  match trim_box z p with
  | [tl; tp; tr; tb] =>
      [tl - Qmin 10 (b_left p * s); tp - Qmin 10 (b_top p * s); tr + Qmin 10 (b_right p * s); tb + Qmin 10 (b_bottom p * s)]
  | _ => []
  end.

(* stream.transform(d=-1, f=page.height*scale) then Page.paint: stream.transform(a=scale, d=scale):
   the matrix in effect for the page content (a b c d e f) *)
Definition ctm (z : Q) (p : page) : list Q :=
  let s := scale z in [s; 0; 0; - s; 0; ph p * s].

(* Matrix(scale, 0, 0, -scale, 0, page.height * scale).transform_point(x, y): link / form / attachment rectangles,
   named destinations, outline destinations *)
Definition point (z : Q) (p : page) (xy : Q * Q) : Q * Q :=
  let s := scale z in (fst xy * s, snd xy * (- s) + ph p * s).

Definition rect (z : Q) (p : page) (r : Q * Q * Q * Q) : list Q :=
  let '(x1, y1, x2, y2) := r in
  let '(a, b) := point z p (x1, y1) in let '(c, d) := point z p (x2, y2) in [a; b; c; d].

(* add_forms (since 4fa9d04): scale = matrix[0][0]; font_size = style['font_size'] * scale (radio: * scale / 1.5) *)
Definition form_font_size (z : Q) (css_font_size : Q) : Q := css_font_size * scale z.
Definition radio_font_size (z : Q) (css_font_size : Q) : Q := css_font_size * scale z / (3 # 2).

(* ---- Document.copy(pages): a new Document with the given pages, the same metadata / fetcher / font configuration
   and an empty font table; write_pdf paints document.pages in order ---- *)
Section Copy.
  Variables Page Meta : Type.
  Record document := dmk { d_pages : list Page; d_meta : Meta; d_fonts : list nat }.
  Inductive selection := All | Pages (l : list Page).
  Definition copy (d : document) (sel : selection) : document :=
    dmk (match sel with All => d_pages d | Pages l => l end) (d_meta d) [].
  (* what write_pdf emits, page by page *)
  Variable Out : Type.
  Variable paint : Page -> Out.
  Definition written (d : document) : list Out := map paint (d_pages d).
End Copy.

(* ---- judge of the correspondence stream ----
   case: zoom, page, tolerance, the implementation's MediaBox, TrimBox, BleedBox, CTM, and a list of
   (css rectangle, pdf Rect) pairs; bit 0: the model's value differs by more than the tolerance; bit 1: a value that the
   property wants linear in the zoom is not z times the model's zoom-1 value (BleedBox is judged by the model only) *)
Definition close (eps a b : Q) : bool :=
  Qle_bool (Qabs (a - b)) (eps * (1 + Qabs b)).
Fixpoint close_list (eps : Q) (a b : list Q) : bool :=
  match a, b with
  | [], [] => true
  | x :: r, y :: s => close eps x y && close_list eps r s
  | _, _ => false
  end.

Definition zcase := (Q * page * Q * list Q * list Q * list Q * list Q * list ((Q * Q * Q * Q) * list Q))%type.

Definition zoom_judge (c : zcase) : nat :=
  let '(z, p, eps, mb, tb, bb, m, rects) := c in
  let same := close_list eps mb (media_box z p) && close_list eps tb (trim_box z p) && close_list eps bb (bleed_box z p) &&
              close_list eps m (ctm z p) &&
              forallb (fun rr => close_list eps (snd rr) (rect z p (fst rr))) rects in
  let lin (f : Q -> list Q) (v : list Q) := close_list eps v (map (Qmult z) (f 1)) in
  let spec := lin (fun z => media_box z p) mb && lin (fun z => trim_box z p) tb && lin (fun z => ctm z p) m &&
              forallb (fun rr => lin (fun z => rect z p (fst rr)) (snd rr)) rects in
  ((if same then 0 else 1) + (if spec then 0 else 2))%nat.
