(* C14 - whole-document judge for the stream pages-render: from the @page rules of the document (abstract
   selectors, as the harness printed them into the style sheet) and the page types the implementation produced,
   the models of C14Page.v (selector parsing, specificity, matching, cascade) and C14Pages.v (page counter)
   predict, for every page, the used page margins, which margin-box rule wins and the number counter(page)
   shows.  Definitions only. *)
From Coq Require Import ZArith List String Bool.
Require Import WV.model.C14Page WV.model.C14Pages.
Import ListNotations.
Open Scope string_scope.
Open Scope list_scope.
Open Scope Z_scope.

(* a rule of the generated sheet: comma-separated selectors (name, pseudo-classes), page declarations and the
   declarations of its @top-left margin box *)
Definition drule := (list (option string * list pseudo) * list decl * list decl)%type.

(* what preprocess_stylesheet appends to page_rules for one @page rule: one entry per selector for the page
   (pseudo_type None) when there are declarations, one per margin rule; a rule with an unparsable selector is
   dropped entirely *)
Definition rule_entries (r : drule) : list prule :=
  let '(sels, ds, mds) := r in
  let parsed := map (fun s => parse_selector (fst s) (snd s)) sels in
  if forallb (fun p => match p with Some _ => true | None => false end) parsed then
    flat_map (fun p => match p with
                       | Some (sel, sp) =>
                           (match ds with [] => [] | _ => [([(sp, None, sel)], ds)] end) ++
                           (match mds with [] => [] | _ => [([(sp, Some "@top-left", sel)], mds)] end)
                       | None => []
                       end) parsed
  else [].

Definition doc_sheets (rules : list drule) : list sheet := [(flat_map rule_entries rules, Author, None)].

(* counter declarations carry their operand in the value: v < 1000 is `page v`, v >= 1000 is `other (v-1000)` *)
Definition decode_ops (e : option (Z * weight)) : option ops :=
  match e with
  | None => None
  | Some (v, _) => Some [if v >=? 1000 then ("other", v - 1000) else ("page", v)]
  end.

Definition page_cstyle (st : store) : cstyle :=
  mkCS (decode_ops (lookup_key (None, "counter_set") st))
       (decode_ops (lookup_key (None, "counter_reset") st))
       (decode_ops (lookup_key (None, "counter_increment") st)).

Definition lookup_val (k : key) (st : store) (default : Z) : Z :=
  match lookup_key k st with Some (v, _) => v | None => default end.

(* per page: (margin_left, margin_right, id of the winning @top-left content or 0, counter(page)) *)
Definition page_obs := (Z * Z * Z * option Z)%type.

Fixpoint doc_model (sheets : list sheet) (defaults : Z * Z) (v : option Z) (pts : list page_type) : list page_obs :=
  match pts with
  | [] => []
  | pt :: r =>
      let st := add_page_declarations sheets pt [] in
      let v' := update_page_counter v (standardize (page_cstyle st) true) in
      (lookup_val (None, "margin_left") st (fst defaults), lookup_val (None, "margin_right") st (snd defaults),
       lookup_val (Some "@top-left", "content") st 0, v') :: doc_model sheets defaults v' r
  end.

Definition obs_eqb (x y : page_obs) : bool :=
  let '(a, b, c, d) := x in let '(a', b', c', d') := y in (a =? a') && (b =? b') && (c =? c') && oz_eqb d d'.
Fixpoint obsl_eqb (x y : list page_obs) : bool :=
  match x, y with [], [] => true | a :: r, b :: s => obs_eqb a b && obsl_eqb r s | _, _ => false end.

(* ---- the reference "one rule per selector" (css-page-3: `@page A, B { body }` means `@page A { body }
   @page B { body }`), written without the dictionary fold and without the code's matching function: every
   (selector of a list, declaration of the body) pair is a candidate, candidates whose selector matches the
   page (match_spec_b) compete by (origin/importance, specificity), the last of the maximal ones wins ---- *)
Definition rule_candidates (r : drule) : list (selector * spec3 * option string * decl) :=
  let '(sels, ds, mds) := r in
  let parsed := map (fun s => parse_selector (fst s) (snd s)) sels in
  if forallb (fun p => match p with Some _ => true | None => false end) parsed then
    flat_map (fun p => match p with
                       | Some (sel, sp) =>
                           map (fun d => (sel, sp, None, d)) ds ++ map (fun d => (sel, sp, Some "@top-left", d)) mds
                       | None => []
                       end) parsed
  else [].

Definition spec_winner (rules : list drule) (pt : page_type) (k : key) : option (Z * weight) :=
  winner_spec
    (flat_map (fun c : selector * spec3 * option string * decl =>
                 let '(sel, sp, pseudo_type, (name, v, imp)) := c in
                 if match_spec_b sel pt && key_eqb k (pseudo_type, name) then [(v, (precedence Author imp, sp))] else [])
              (flat_map rule_candidates rules)).

Definition spec_val (rules : list drule) (pt : page_type) (k : key) (default : Z) : Z :=
  match spec_winner rules pt k with Some (v, _) => v | None => default end.

Fixpoint doc_spec (rules : list drule) (defaults : Z * Z) (v : option Z) (pts : list page_type) : list page_obs :=
  match pts with
  | [] => []
  | pt :: r =>
      let cs := mkCS (decode_ops (spec_winner rules pt (None, "counter_set")))
                     (decode_ops (spec_winner rules pt (None, "counter_reset")))
                     (decode_ops (spec_winner rules pt (None, "counter_increment"))) in
      let v' := update_page_counter v (standardize cs true) in
      (spec_val rules pt (None, "margin_left") (fst defaults), spec_val rules pt (None, "margin_right") (snd defaults),
       spec_val rules pt (Some "@top-left", "content") 0, v') :: doc_spec rules defaults v' r
  end.

(* bit 0: model (preprocess_stylesheet entries + add_page_declarations + page counter) <> implementation;
   bit 1: the implementation's pages are not what the reference "one rule per selector" gives *)
Definition doc_judge (c : list drule * (Z * Z) * list page_type * list page_obs) : nat :=
  let '(rules, defaults, pts, out) := c in
  ((if obsl_eqb (doc_model (doc_sheets rules) defaults None pts) out then 0 else 1) +
   (if obsl_eqb (doc_spec rules defaults None pts) out then 0 else 2))%nat.

(* index of the first page on which the reference and the implementation differ (for the report) *)
Fixpoint first_diff (x y : list page_obs) (i : nat) : nat :=
  match x, y with
  | a :: r, b :: s => if obs_eqb a b then first_diff r s (S i) else i
  | _, _ => i
  end.
