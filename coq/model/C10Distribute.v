(* C10 - model of weasyprint/layout/table.py: distribute_excess_width (hand model, tied by correspondence).
   A column carries what the function reads at index i: truthiness of grid[i], constrainedness[i],
   column_intrinsic_percentages[i], column_max_content_widths[i], column_widths[i]. *)
From Coq Require Import QArith Qminmax List Bool Arith.
Import ListNotations.
Open Scope Q_scope.

Record col := mkcol { c_cell : bool; c_cons : bool; c_pct : Q; c_max : Q; c_w : Q }.

Definition Qlt_bool (a b : Q) : bool := negb (Qle_bool b a).
Definition qsum (l : list Q) : Q := fold_right Qplus 0 l.
Definition qlen {A} (l : list A) : Q := inject_Z (Z.of_nat (length l)).

(* Python's `/` raises ZeroDivisionError: an error value here *)
Definition safe_div (a b : Q) : option Q := if Qeq_bool b 0 then None else Some (a / b).

(* the six membership tests, in the order of the source *)
Definition g1 (c : col) := negb (c_cons c) && Qeq_bool (c_pct c) 0 && Qlt_bool 0 (c_max c).
Definition g2 (c : col) := negb (c_cons c) && Qeq_bool (c_pct c) 0.
Definition g3 (c : col) := c_cons c && Qeq_bool (c_pct c) 0 && Qlt_bool 0 (c_max c).
Definition g4 (c : col) := Qlt_bool 0 (c_pct c) && Qlt_bool 0 (c_max c).
Definition g5 (c : col) := c_cell c.
Definition g6 (c : col) := true.

(* `for i in columns: column_widths[i] += weight[i] * ratio` *)
Definition add_prop (sel : col -> bool) (weight : col -> Q) (ratio : Q) (cols : list col) : list Q :=
  map (fun c => if sel c then c_w c + weight c * ratio else c_w c) cols.
(* `for i in columns: column_widths[i] += excess_width / len(columns)` *)
Definition add_equal (sel : col -> bool) (share : Q) (cols : list col) : list Q :=
  map (fun c => if sel c then c_w c + share else c_w c) cols.

Definition prop_group (sel : col -> bool) (weight : col -> Q) (e : Q) (cols : list col) : option (list Q) :=
  match safe_div e (qsum (map weight (filter sel cols))) with
  | Some r => Some (add_prop sel weight r cols)
  | None => None
  end.
Definition equal_group (sel : col -> bool) (e : Q) (cols : list col) : option (list Q) :=
  match safe_div e (qlen (filter sel cols)) with
  | Some s => Some (add_equal sel s cols)
  | None => None
  end.

(* the function on the columns of the slice; None = the Python code raises *)
Definition dist (e : Q) (cols : list col) : option (list Q) :=
  if existsb g1 cols then prop_group g1 c_max e cols
  else if existsb g2 cols then equal_group g2 e cols
  else if existsb g3 cols then prop_group g3 c_max e cols
  else if existsb g4 cols then prop_group g4 c_pct e cols
  else if existsb g5 cols then equal_group g5 e cols
  else match cols with
       | [] => Some []            (* sixth group over an empty slice: the loop body never runs *)
       | _ => equal_group g6 e cols
       end.

(* which group is taken (0 = empty slice, nothing done) *)
Definition group_taken (cols : list col) : nat :=
  if existsb g1 cols then 1 else if existsb g2 cols then 2 else if existsb g3 cols then 3
  else if existsb g4 cols then 4 else if existsb g5 cols then 5
  else match cols with [] => 0 | _ => 6 end.

(* column_slice = slice(a, b): columns a .. min(b, len)-1 ; the others are not read, not written *)
Definition in_slice (a b : nat) (cols : list col) : list col := firstn (b - a) (skipn a cols).
Definition dist_slice (a b : nat) (e : Q) (cols : list col) : option (list Q) :=
  let mid := in_slice a b cols in
  match dist e mid with
  | Some ws => Some (map c_w (firstn a cols) ++ ws ++ map c_w (skipn (a + length mid) cols))
  | None => None
  end.

(* ---- decidable checks used by the correspondence judge ---- *)
Fixpoint qlist_eqb (a b : list Q) : bool :=
  match a, b with
  | [], [] => true
  | x :: a', y :: b' => Qeq_bool x y && qlist_eqb a' b'
  | _, _ => false
  end.
Definition oqlist_eqb (a b : option (list Q)) : bool :=
  match a, b with
  | Some x, Some y => qlist_eqb x y
  | None, None => true
  | _, _ => false
  end.

(* specification (css-tables-3, "distributing excess width to columns"), decidable, on an output [out]:
   total increase = excess when the slice is not empty; nothing decreases when excess >= 0;
   nothing outside the slice moves; constrained or percentage columns do not move when a
   non-constrained zero-percentage column exists *)
Definition unchanged_b (sel : col -> bool) (cols : list col) (out : list Q) : bool :=
  forallb (fun p => negb (sel (fst p)) || Qeq_bool (c_w (fst p)) (snd p)) (combine cols out).
Definition dist_spec_b (a b : nat) (e : Q) (cols : list col) (out : list Q) : bool :=
  let mid := in_slice a b cols in
  let outmid := firstn (length mid) (skipn a out) in
  Nat.eqb (length out) (length cols) &&
  (match mid with [] => qlist_eqb out (map c_w cols)
              | _ => Qeq_bool (qsum out) (qsum (map c_w cols) + e) end) &&
  qlist_eqb (firstn a out) (map c_w (firstn a cols)) &&
  qlist_eqb (skipn (a + length mid) out) (map c_w (skipn (a + length mid) cols)) &&
  (negb (Qle_bool 0 e) || forallb (fun p => Qle_bool (c_w (fst p)) (snd p)) (combine cols out)) &&
  (negb (existsb g2 mid) || unchanged_b (fun c => negb (g2 c)) mid outmid) &&
  (negb (existsb g1 mid) || unchanged_b (fun c => negb (g1 c)) mid outmid).

(* case = (a, b, e, cols, implementation output) ; bit 0: model <> implementation, bit 1: spec fails *)
Definition dist_judge (c : nat * nat * Q * list col * option (list Q)) : nat :=
  let '(a, b, e, cols, out) := c in
  ((if oqlist_eqb (dist_slice a b e cols) out then 0 else 1) +
   (match out with Some o => if dist_spec_b a b e cols o then 0 else 2 | None => 2 end))%nat.
