(* C20 - model of weasyprint/document.py DiskCache (option cache=<folder>): a dict-like with two layers.
   bytes values go to files named md5(key) in the folder, every other value (RasterImage / SVGImage objects,
   and None = "this image could not be loaded") stays in a memory dict.  __getitem__ looks in the memory layer
   first, then reads the file; __contains__ is "in memory or the file exists".  A second DiskCache on the same
   folder (a second render) has its own private sub-directory: it starts empty and never touches the files of
   the first one.
   The abstract map it must refine is a Python dict (model: association list, newest first).
   Definitions only. *)
From Coq Require Import List String Bool Arith.
Import ListNotations.
Open Scope string_scope.
Open Scope list_scope.

(* VObj None is Python's None: a present key whose value is None *)
Inductive value := VBytes (s : string) | VObj (o : option nat).

Definition is_bytes (v : value) : bool := match v with VBytes _ => true | VObj _ => false end.

Fixpoint afind {A : Type} (l : list (string * A)) (k : string) : option A :=
  match l with
  | [] => None
  | (k', v) :: r => if k' =? k then Some v else afind r k
  end.

Definition is_some {A : Type} (o : option A) : bool := match o with Some _ => true | None => false end.

Record dcache := { dc_mem : list (string * value); dc_disk : list (string * string) }.
Definition dc_empty : dcache := {| dc_mem := []; dc_disk := [] |}.

Section DiskCache.
  Variable digest : string -> string.        (* md5(key).hexdigest(): the file name *)

  Definition dc_set (s : dcache) (k : string) (v : value) : dcache :=
    match v with
    | VBytes b => {| dc_mem := dc_mem s; dc_disk := (digest k, b) :: dc_disk s |}
    | VObj _ => {| dc_mem := (k, v) :: dc_mem s; dc_disk := dc_disk s |}
    end.

  (* None: read_bytes() of a file that does not exist - FileNotFoundError *)
  Definition dc_get (s : dcache) (k : string) : option value :=
    match afind (dc_mem s) k with
    | Some v => Some v
    | None => option_map VBytes (afind (dc_disk s) (digest k))
    end.

  Definition dc_contains (s : dcache) (k : string) : bool :=
    is_some (afind (dc_mem s) k) || is_some (afind (dc_disk s) (digest k)).

  (* DiskCache(folder) again (a second render): every instance stores its files in a private directory made
     in the folder, so the new instance sees neither the objects nor the files of the other ones *)
  Definition dc_reopen (s : dcache) : dcache := dc_empty.

  Inductive op := OSet (k : string) (v : value) | OGet (k : string) | OContains (k : string) | OReopen.
  Inductive obs := ObsSet | ObsGet (v : option value) | ObsIn (b : bool).

  Fixpoint dc_run (s : dcache) (ops : list op) : list obs * dcache :=
    match ops with
    | [] => ([], s)
    | OSet k v :: r => let '(o, s') := dc_run (dc_set s k v) r in (ObsSet :: o, s')
    | OGet k :: r => let '(o, s') := dc_run s r in (ObsGet (dc_get s k) :: o, s')
    | OContains k :: r => let '(o, s') := dc_run s r in (ObsIn (dc_contains s k) :: o, s')
    | OReopen :: r => let '(o, s') := dc_run (dc_reopen s) r in (ObsSet :: o, s')
    end.

  (* the abstract map: a dict *)
  Definition dict := list (string * value).
  Fixpoint dict_run (d : dict) (ops : list op) : list obs * dict :=
    match ops with
    | [] => ([], d)
    | OSet k v :: r => let '(o, d') := dict_run ((k, v) :: d) r in (ObsSet :: o, d')
    | OGet k :: r => let '(o, d') := dict_run d r in (ObsGet (afind d k) :: o, d')
    | OContains k :: r => let '(o, d') := dict_run d r in (ObsIn (is_some (afind d k)) :: o, d')
    | OReopen :: r => let '(o, d') := dict_run d r in (ObsSet :: o, d')
    end.

  (* the discipline of the callers (images.py): a key is either a bytes key ("<md5>-<slot>-<dpi>", LazyImage)
     or an object key (the URL, get_image_from_uri), never both *)
  Definition disciplined (bytes_key : string -> bool) (ops : list op) : Prop :=
    Forall (fun o => match o with OSet k v => is_bytes v = bytes_key k | OReopen => False | _ => True end) ops.
End DiskCache.

(* ---- judge of the correspondence stream "diskcache-ops": operation sequences run on a real DiskCache in a
   temporary folder; the file name function is taken injective (identity) - md5 collisions are not exercised *)
Definition value_eqb (a b : value) : bool :=
  match a, b with
  | VBytes x, VBytes y => x =? y
  | VObj None, VObj None => true
  | VObj (Some x), VObj (Some y) => Nat.eqb x y
  | _, _ => false
  end.
Definition obs_eqb (a b : obs) : bool :=
  match a, b with
  | ObsSet, ObsSet => true
  | ObsGet None, ObsGet None => true
  | ObsGet (Some x), ObsGet (Some y) => value_eqb x y
  | ObsIn x, ObsIn y => Bool.eqb x y
  | _, _ => false
  end.
Fixpoint obs_list_eqb (a b : list obs) : bool :=
  match a, b with
  | [], [] => true
  | x :: a', y :: b' => obs_eqb x y && obs_list_eqb a' b'
  | _, _ => false
  end.

(* bit 0: the model of DiskCache differs from the real one; bit 1: on a disciplined sequence without reopen
   the real DiskCache differs from a dict (the property: the cache kind must not be observable) *)
Definition cache_judge (c : list op * list obs * bool) : nat :=
  let '(ops, real, disciplined_no_reopen) := c in
  (if obs_list_eqb (fst (dc_run (fun k => k) dc_empty ops)) real then 0 else 1) +
  (if disciplined_no_reopen && negb (obs_list_eqb (fst (dict_run [] ops)) real) then 2 else 0).
