(* C15 - what the slices of CounterStyle.render_value regenerated from weasyprint/css/counters.py (gen/GenCounters.v)
   are compared with: the values of the embedding base/Py.v that stand for the Python objects the code reads
   (symbols, the counter dict), and Python strings against the model's lists of code points.  The operations used
   there - len, x[i], %, //, abs, ''.join(reversed(..)) - are primitives of base/Py.v (prim_apply).
   Definitions only. *)
From Coq Require Import ZArith QArith List String Bool Ascii.
Require Import WV.base.Py WV.model.C15Style.
Import ListNotations.
Open Scope string_scope.

(* Python strings are Coq strings in base/Py.v (one character = one [ascii]); the hand model C15Style.v has lists
   of code points.  [dec] is injective and [enc] its left inverse. *)
Definition dec (s : string) : text := map (fun a => Z.of_N (N_of_ascii a)) (list_ascii_of_string s).
Definition enc (t : text) : string := string_of_list_ascii (map (fun z => ascii_of_N (Z.to_N z)) t).

(* a symbol of a counter style as the Python code holds it: ('string', s) or ('url', u) *)
Inductive psym := PStr (s : string) | PUrl (u : string).
Definition vsym (p : psym) : val :=
  match p with PStr s => VList [VStr "string"; VStr s] | PUrl u => VList [VStr "url"; VStr u] end.
Definition msym (p : psym) : sym := match p with PStr s => SStr (dec s) | PUrl _ => SUrl end.
Definition psym_str (p : psym) : string := match p with PStr s => s | PUrl _ => "" end.

(* counter['symbols']: None, or a tuple of symbols *)
Definition vsyms (o : option (list psym)) : val :=
  match o with Some l => VList (map vsym l) | None => VNone end.
Definition msyms (o : option (list psym)) : option (list sym) :=
  match o with Some l => Some (map msym l) | None => None end.

(* the dict `counter`: the descriptors the slices read ('symbols', 'fallback'), and any other entries *)
Definition vfallback (o : option string) : val := match o with Some f => VStr f | None => VNone end.
Definition vcounter (syms : option (list psym)) (fb : option string) (rest : list (string * val)) : val :=
  VObj (("symbols", vsyms syms) :: ("fallback", vfallback fb) :: rest).

(* what the recursive call self.render_value(value, name, previous_types=prev) is asked *)
Definition rv_args (self : val) (v : Z) (name : string) (prev : val) : list val :=
  [self; vint v; VStr name; VNone; prev].
