(* C16 - the Stream object of weasyprint/pdf/stream.py as a value of the embedding base/Py.v, for the theorems about the
   method bodies REGENERATED from the source (gen/GenStream.v, proofs/C16_gen_stream.v): the attributes of `self` as
   the fields of an object value, the encoding of a state of the hand model model/C16Stream.v into such an object, and
   the specification of what the methods of the base class pydyf.Stream (not in the repository) do when they are
   called through super(): each appends its operator(s) to self.stream.  Definitions only. *)
From Coq Require Import ZArith QArith List String Bool.
Require Import WV.base.Py.
Require WV.model.C16Stream.
Import ListNotations.
Open Scope string_scope.
Open Scope list_scope.

Module M := WV.model.C16Stream.

(* ------------------------------------------------------------------------------- the object *)
(* the attributes that the bookkeeping methods read or write, then every other attribute (page_rectangle, _fonts,
   _images, compress, ...) in `others` *)
Definition obj (stream ctm : list val) (cc ccs ca cas cf ofo res : val) (marked : list val) (mark : val)
               (others : list (string * val)) : val :=
  VObj (("stream", VList stream) :: ("_ctm_stack", VList ctm) ::
        ("_current_color", cc) :: ("_current_color_stroke", ccs) ::
        ("_current_alpha", ca) :: ("_current_alpha_stroke", cas) ::
        ("_current_font", cf) :: ("_old_font", ofo) :: ("_resources", res) ::
        ("marked", VList marked) :: ("_mark", mark) :: others).

(* ------------------------------------------------------------------------------- encoding of the model *)
Definition vz (z : Z) : val := VNum (inject_Z z).
(* Matrix(a, b, c, d, e, f) is the list of rows [[a, b, 0], [c, d, 0], [e, f, 1]] (weasyprint/matrix.py) *)
Definition emat (m : M.mat) : val :=
  let '(a, b, c, d, e, f) := m in
  VList [VList [vz a; vz b; vz 0]; VList [vz c; vz d; vz 0]; VList [vz e; vz f; vz 1]].
Definition epair (p : Z * Z) : val := VList [vz (fst p); vz (snd p)].
Definition eopt {A} (f : A -> val) (o : option A) : val := match o with Some a => f a | None => VNone end.
(* the alpha keys f'A{alpha}' / f'a{alpha}' and the state keys f's{n}' are strings in Python; here: their parts *)
Definition ekey (k : M.key) : val :=
  match k with
  | M.KA stroke a isint => VList [VStr (if stroke then "A" else "a"); vz a; VBool isint]
  | M.KS n => VList [VStr "s"; vz n]
  end.
Definition egsval (v : M.gsval) : val := VList [eopt vz (fst v); eopt vz (snd v)].
Definition eegs (d : M.egsd) : val := VList (map (fun kv => VList [ekey (fst kv); egsval (snd kv)]) d).

(* one item of Stream.stream.  The bracket operators are the bytes literals of pydyf (printed by the translator as the
   text of their repr); every other item is a list value, never equal to one of them *)
Definition etok (t : M.tok) : val :=
  match t with
  | M.Tq => VStr "b'q'" | M.TQ => VStr "b'Q'" | M.TBT => VStr "b'BT'" | M.TET => VStr "b'ET'"
  | M.TBMC => VStr "b'BMC'" | M.TBDC => VStr "b'BDC'" | M.TEMC => VStr "b'EMC'"
  | M.Tfont f => VList [VStr "Tf"; vz (fst f); vz (snd f)]
  | M.Ttag => VList [VStr "/tag"]
  | M.Tprops n => VList [VStr "MCID"; vz n]
  | M.Tgs k v => VList [VStr "gs"; ekey k; egsval v]
  | M.Trg s c => VList [VStr "rg"; VBool s; epair c]
  | M.Tcs s g => VList [VStr "cs"; VBool s; vz g]
  | M.Tscn s c => VList [VStr "scn"; VBool s; epair c]
  | M.Tpat s p => VList [VStr "pattern"; VBool s; vz p]
  | M.Tcm m => VList [VStr "cm"; emat m]
  | M.Ttm m => VList [VStr "Tm"; emat m]
  | M.Tother k => VList [VStr "op"; vz k]
  end.

(* `marked` is the list of the (tag, box) pairs of Stream.marked: the model keeps its length only *)
Definition enc (marked : list val) (others : list (string * val)) (s : M.st) : val :=
  obj (map etok (rev (M.toks s))) (map emat (rev (M.ctms s)))
      (eopt epair (M.ccol s)) (eopt epair (M.ccols s)) (eopt ekey (M.calpha s)) (eopt ekey (M.calphas s))
      (eopt epair (M.cfont s)) (eopt epair (M.ofont s))
      (VObj [("ExtGState", eegs (M.egs s))]) marked (VBool (M.markon s)) others.
Definition marked_ok (marked : list val) (s : M.st) : Prop := M.nmark s = Z.of_nat (List.length marked).

(* ------------------------------------------------------------------------------- pydyf through super() *)
(* `super().m(self, ...)` answers [returned value; self after the call]: pydyf.Stream.m appends to self.stream *)
Definition app_stream (self : val) (items : list val) : val :=
  match self with
  | VObj f => match lookup "stream" f with
              | VList l => VList [VNone; VObj (update "stream" (VList (l ++ items)) f)]
              | VErr m => VErr m
              | _ => VErr "AttributeError"
              end
  | VErr m => VErr m
  | _ => VErr "AttributeError"
  end.

(* tagf: what Stream.get_marked_content_tag answers for an element tag (a str; its text is not modelled: the item
   f'/{tag}' that pydyf appends is the token Ttag whatever the tag) *)
Definition pydyf_call (tagf : val -> string) (f : string) (args : list val) : val :=
  if String.eqb f "super.push_state" then match args with [s] => app_stream s [VStr "b'q'"] | _ => VErr "TypeError" end
  else if String.eqb f "super.pop_state" then match args with [s] => app_stream s [VStr "b'Q'"] | _ => VErr "TypeError" end
  else if String.eqb f "super.begin_text" then match args with [s] => app_stream s [VStr "b'BT'"] | _ => VErr "TypeError" end
  else if String.eqb f "super.end_text" then match args with [s] => app_stream s [VStr "b'ET'"] | _ => VErr "TypeError" end
  else if String.eqb f "super.end_marked_content" then
    match args with [s] => app_stream s [VStr "b'EMC'"] | _ => VErr "TypeError" end
  else if String.eqb f "super.set_font_size" then
    match args with [s; font; size] => app_stream s [VList [VStr "Tf"; font; size]] | _ => VErr "TypeError" end
  else if String.eqb f "super.begin_marked_content" then
    match args with
    | [s; tag; VNone] => app_stream s [VList [VStr "/tag"]; VStr "b'BMC'"]
    | [s; tag; pl] => app_stream s [VList [VStr "/tag"]; pl; VStr "b'BDC'"]
    | _ => VErr "TypeError"
    end
  else if String.eqb f "super.set_matrix" then
    (* pydyf.Stream.set_matrix(a, b, c, d, e, f) appends the six operands and b'cm': the item Tcm (a b c d e f),
       written with the rows of Matrix(a, b, c, d, e, f) as etok does *)
    match args with
    | [s; a; b; c; d; e; f'] =>
        app_stream s [VList [VStr "cm"; VList [VList [a; b; vz 0]; VList [c; d; vz 0]; VList [e; f'; vz 1]]]]
    | _ => VErr "TypeError"
    end
  else if String.eqb f "pydyf.Dictionary" then
    (* pydyf.Dictionary({'MCID': n}): the property list of a marked-content sequence, the item Tprops n *)
    match args with [VList [VList [VStr "MCID"; n]]] => VList [VStr "MCID"; n] | _ => VErr "TypeError" end
  else if String.eqb f ".get_marked_content_tag" then
    match args with [s; t] => VStr (tagf t) | _ => VErr "TypeError" end
  else VErr "NameError".
