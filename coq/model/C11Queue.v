(* C11 - floats met inside a line box: hand-written model of the queue of waiting floats of
   weasyprint/layout/inline.py (split_inline_box / _out_of_flow_layout / get_next_linebox).

   While the children of a line box are laid out from left to right, `position_x` is the end of the inline content
   placed so far and `max_x` the end of the room on the line.  A float met in the line is
     - laid out at once (float_layout, at the top of the line) when its shrink-to-fit content width, less the trailing
       white space of the last non-floating child, fits in `max_x - position_x` AND no float is waiting;
     - otherwise appended to `waiting_floats`; the waiting floats are laid out, in list order, after the line
       (get_next_linebox: `for waiting_float in waiting_floats: ... float_layout(...)`, at the bottom of the line).
   A float laid out at once takes its margin width off the room: a left float (child of the line box) advances
   position_x by max(margin width, 0) (the helper returns the new position), any other one makes the caller do
   `max_x -= child.margin_width()`.
   Definitions only; theorems in proofs/C11_queue.v. *)
From Coq Require Import QArith List Bool.
Import ListNotations.
Open Scope Q_scope.

Definition Qlt_b (a b : Q) : bool := negb (Qle_bool b a).

(* a child of the line: inline content of a given width ending with `trailing` of collapsible white space
   (both as measured by Pango: oracles), or a float with its shrink-to-fit content width and its margin width *)
Definition Qmax0 (a : Q) : Q := if Qle_bool 0 a then a else 0.

Inductive item :=
| Txt (width trailing : Q)
| Flt (is_left : bool) (content_width margin_width : Q).

Record qstate := mk_q {
  q_pos : Q;                 (* position_x, from the start of the line *)
  q_maxx : Q;                (* max_x *)
  q_trail : option Q;        (* trailing white space of the last non-floating child, None when there is none yet *)
  q_next : nat;              (* rank, in source order, of the next float *)
  q_now : list nat;          (* floats laid out at once, in the order of their float_layout calls *)
  q_wait : list nat }.       (* waiting_floats *)

Definition is_nil {A} (l : list A) : bool := match l with [] => true | _ => false end.

Definition step (st : qstate) (it : item) : qstate :=
  match it with
  | Txt w t => mk_q (q_pos st + w) (q_maxx st) (Some t) (q_next st) (q_now st) (q_wait st)
  | Flt is_left cw mw =>
      let float_width := cw - match q_trail st with Some t => t | None => 0 end in
      if Qlt_b (q_maxx st - q_pos st) float_width || negb (is_nil (q_wait st))
      then mk_q (q_pos st) (q_maxx st) (q_trail st) (S (q_next st)) (q_now st) (q_wait st ++ [q_next st])
      else
        (* dx = max(margin_width, 0); a left float whose parent is the line box advances position_x (the helper
           returns it and the caller takes it when it changed), any other float laid out at once shortens max_x *)
        let dx := Qmax0 mw in
        if is_left && negb (Qeq_bool (q_pos st + dx) (q_pos st))
        then mk_q (q_pos st + dx) (q_maxx st) (q_trail st) (S (q_next st)) (q_now st ++ [q_next st]) (q_wait st)
        else mk_q (q_pos st) (q_maxx st - mw) (q_trail st) (S (q_next st)) (q_now st ++ [q_next st]) (q_wait st)
  end.

Definition run_line (room : Q) (items : list item) : qstate :=
  fold_left step items (mk_q 0 room None 0 [] []).

(* the order of the float_layout calls for the floats of the line: those laid out at once, then the waiting ones *)
Definition call_order (st : qstate) : list nat := q_now st ++ q_wait st.

Definition count_floats (items : list item) : nat :=
  length (filter (fun it => match it with Flt _ _ _ => true | _ => false end) items).

(* judge of the render tie.  case: room on the line, the children in source order, and for every float_layout call
   observed in the render, in call order, (rank of the float in source order, laid out at the top of the line?).
   bit 0: the model predicts another sequence; bit 1: the observed calls are not in source order, or a float was
   laid out at once after an earlier one had to wait (CSS 2.1 9.5.1 rule 5 would then depend on luck). *)
Definition queue_case := (Q * list item * list (nat * bool))%type.

Fixpoint list_eqb {A} (eqb : A -> A -> bool) (a b : list A) : bool :=
  match a, b with
  | [], [] => true
  | x :: a', y :: b' => eqb x y && list_eqb eqb a' b'
  | _, _ => false
  end.
Definition obs_eqb (a b : nat * bool) : bool := Nat.eqb (fst a) (fst b) && Bool.eqb (snd a) (snd b).

Fixpoint sticky (obs : list (nat * bool)) (waiting_seen : bool) : bool :=
  match obs with
  | [] => true
  | (_, at_once) :: rest => negb (at_once && waiting_seen) && sticky rest (waiting_seen || negb at_once)
  end.

Definition queue_judge (c : queue_case) : nat :=
  let '(room, items, obs) := c in
  let st := run_line room items in
  let predicted := map (fun i => (i, true)) (q_now st) ++ map (fun i => (i, false)) (q_wait st) in
  ((if list_eqb obs_eqb predicted obs then 0 else 1) +
   (if list_eqb Nat.eqb (map fst obs) (seq 0 (count_floats items)) && sticky obs false then 0 else 2))%nat.
