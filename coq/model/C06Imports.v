(* C06 - the order in which the rules of a stylesheet reach its matcher: hand model of the walk of
   preprocess_stylesheet (weasyprint/css/__init__.py) over qualified rules, @import and @media, with the
   `ignore_imports` flag, and of CSS.__init__ loading an imported sheet into the SAME matcher (same order counter).
   Seen from one element: a selector carries whether it matches that element.  Definitions only.

   The walk is recursive through the files (an @import loads the file and walks it, every time it is met); a
   stylesheet that imports itself recurses without bound in the code: here the fuel runs out and the result is
   None.  Every theorem is about results `Some`; the result does not depend on the fuel once it is `Some`. *)
From Coq Require Import ZArith List Bool.
Require Import WV.model.C06Cascade.
Import ListNotations.
Open Scope Z_scope.

Section Imports.
  Variable V : Type.

  (* a selector of a rule: (specificity, pseudo-element type, does it match the element) *)
  Definition isel := (spec * Z * bool)%type.
  (* a rule that reaches the matcher *)
  Definition frule := (list isel * list (rdecl V))%type.

  Inductive item :=
  | IRule (valid : bool) (sels : list isel) (decls : list (rdecl V))
        (* valid = false: the selector list does not compile (SelectorError): skipped, flag untouched *)
  | IImport (url : Z) (media_ok : bool)
        (* media_ok: evaluate_media_query of the media list after the URL *)
  | IMedia (media_ok : bool) (body : list item).

  Definition files := list (Z * list item).
  Fixpoint file (fs : files) (u : Z) : list item :=
    match fs with [] => [] | (k, x) :: r => if k =? u then x else file r u end.

  Definition bind {A B} (o : option A) (f : A -> option B) : option B :=
    match o with Some x => f x | None => None end.

  (* preprocess_stylesheet(..., ignore_imports = negb allow): the rules added to the matcher, in order *)
  Fixpoint flat (fuel : nat) (fs : files) (allow : bool) (items : list item) : option (list frule) :=
    match fuel with
    | O => None
    | S f =>
        match items with
        | [] => Some []
        | IRule valid sels ds :: r =>
            if valid then bind (flat f fs false r) (fun b => Some ((sels, ds) :: b))
            else flat f fs allow r
        | IImport u ok :: r =>
            (* `if ignore_imports: continue` ... `if not evaluate_media_query(...): continue` ...
               CSS(url=url, matcher=matcher, ...): a fresh walk of the file, imports allowed at its top *)
            if allow && ok
            then bind (flat f fs true (file fs u)) (fun a => bind (flat f fs allow r) (fun b => Some (a ++ b)))
            else flat f fs allow r
        | IMedia ok body :: r =>
            (* ignore_imports = True, also for the rules that follow *)
            if ok
            then bind (flat f fs false body) (fun a => bind (flat f fs false r) (fun b => Some (a ++ b)))
            else flat f fs false r
        end
    end.

  (* ---- specification side: substitute the text of every honoured @import at its place (each time it is
     met), drop the others; what is left has no @import *)
  Fixpoint inline (fuel : nat) (fs : files) (allow : bool) (items : list item) : option (list item) :=
    match fuel with
    | O => None
    | S f =>
        match items with
        | [] => Some []
        | IRule valid sels ds :: r =>
            bind (inline f fs (if valid then false else allow) r) (fun b => Some (IRule valid sels ds :: b))
        | IImport u ok :: r =>
            if allow && ok
            then bind (inline f fs true (file fs u)) (fun a => bind (inline f fs allow r) (fun b => Some (a ++ b)))
            else inline f fs allow r
        | IMedia ok body :: r =>
            if ok
            then bind (inline f fs false body)
                      (fun a => bind (inline f fs false r) (fun b => Some (IMedia true a :: b)))
            else bind (inline f fs false r) (fun b => Some (IMedia false [] :: b))   (* contributes nothing *)
        end
    end.
  Fixpoint item_has_import (i : item) : bool :=
    match i with
    | IImport _ _ => true
    | IRule _ _ _ => false
    | IMedia _ body => existsb item_has_import body
    end.
  Definition has_import (items : list item) : bool := existsb item_has_import items.
  (* the rules of an import-free sheet in text order (valid rules; @media blocks that apply) *)
  Fixpoint item_rules (i : item) : list frule :=
    match i with
    | IRule valid sels ds => if valid then [(sels, ds)] else []
    | IImport _ _ => []
    | IMedia ok body => if ok then flat_map item_rules body else []
    end.
  Definition text_rules (items : list item) : list frule := flat_map item_rules items.

  (* ---- Matcher.add_selector: one order number per selector, in the order of arrival; the element's matches *)
  Fixpoint sel_matches (k : Z) (sels : list isel) (ds : list (rdecl V)) : list (smatch V) :=
    match sels with
    | [] => []
    | (sp, ps, m) :: t => (if m then [(sp, k, ps, ds)] else []) ++ sel_matches (k + 1) t ds
    end.
  Fixpoint matches_from (k : Z) (rules : list frule) : list (smatch V) :=
    match rules with
    | [] => []
    | (sels, ds) :: r => sel_matches k sels ds ++ matches_from (k + Z.of_nat (List.length sels)) r
    end.
  Definition nsel (rules : list frule) : Z :=
    fold_right (fun r acc => Z.of_nat (List.length (fst r)) + acc) 0 rules.
  Definition sheet_of_rules (o : origin) (rules : list frule) : sheet V := (o, None, matches_from 1 rules).

  (* a top-level stylesheet (UA, <style>, <link>, user): origin and its items *)
  Definition load_sheet (fuel : nat) (fs : files) (os : origin * list item) : option (sheet V) :=
    bind (flat fuel fs true (snd os)) (fun l => Some (sheet_of_rules (fst os) l)).
  Fixpoint load_sheets (fuel : nat) (fs : files) (l : list (origin * list item)) : option (list (sheet V)) :=
    match l with
    | [] => Some []
    | os :: r => bind (load_sheet fuel fs os) (fun s => bind (load_sheets fuel fs r) (fun t => Some (s :: t)))
    end.
End Imports.
Arguments IRule {V}. Arguments IImport {V}. Arguments IMedia {V}. Arguments file {V}. Arguments flat {V}.
Arguments inline {V}. Arguments item_has_import {V}. Arguments has_import {V}. Arguments item_rules {V}. Arguments text_rules {V}. Arguments nsel {V}. Arguments sel_matches {V}.
Arguments matches_from {V}. Arguments sheet_of_rules {V}. Arguments load_sheet {V}. Arguments load_sheets {V}.
Arguments bind {A B}.
