(* C12 - flex: the row pipeline (order -> lines -> 9.7 -> step 12) of the code and of css-flexbox, and the
   judge evaluated on rendered outputs.  Definitions only. *)
From Coq Require Import QArith Qminmax Qabs List Bool ZArith Lia.
Require Import WV.model.C12Flex WV.model.C12FlexLines.
Import ListNotations.
Open Scope Q_scope.

(* a flex item as the style sheet gives it (main axis): used flex basis, min/max main size, factors,
   paddings, borders (sums of both sides), margins (None = auto), order, identifier *)
Record ritem := mkR {
  rid : Z; rorder : Z; rbase : Q; rmin : Q; rmax : option Q; rgrow : Q; rshrink : Q;
  rpad : Q; rbord : Q; rml : option Q; rmr : option Q }.

(* flex.py 3.A *)
Definition to_item (r : ritem) : item :=
  mkItem (rbase r) (rmin r) (rmax r) (rgrow r) (rshrink r) (rpad r + rbord r + oz (rml r) + oz (rmr r)).

Inductive jkw := KNormal | KFlexStart | KFlexEnd | KStart | KEnd | KLeft | KRight | KCenter
               | KBetween | KAround | KEvenly | KStretch.

(* step 12 prologue: 'normal' and 'stretch' are flex-start; *-reverse swaps flex-start/flex-end; then the
   membership tests ('start', 'left' fall through: no offset) *)
Definition jmap_code (reverse : bool) (k : jkw) : justify :=
  let k0 := match k with KNormal | KStretch => KFlexStart | x => x end in
  let k1 := if reverse then match k0 with KFlexStart => KFlexEnd | KFlexEnd => KFlexStart | x => x end else k0 in
  match k1 with
  | KEnd | KFlexEnd | KRight => JEnd
  | KCenter => JCenter
  | KAround => JAround
  | KEvenly => JEvenly
  | KBetween => JBetween
  | _ => JStart
  end.
(* css-align / css-flexbox 8.2, horizontal ltr; lines are laid out left to right after reversal *)
Definition jmap_css (column reverse : bool) (k : jkw) : justify :=
  match k with
  | KNormal | KFlexStart | KStretch => if reverse then JEnd else JStart
  | KFlexEnd => if reverse then JStart else JEnd
  | KStart | KLeft => JStart
  | KRight => if column then JStart else JEnd   (* left/right behave as start on the block axis *)
  | KEnd => JEnd
  | KCenter => JCenter
  | KBetween => JBetween
  | KAround => JAround
  | KEvenly => JEvenly
  end.

(* `zero_auto`: flex.py step 7 overwrites margin_top / margin_bottom 'auto' with 0 ("TODO: Fix this value")
   before step 12 runs, so in a column container the main-axis auto margins are 0 *)
Definition to_jitem (zero_auto : bool) (r : ritem) (t : Q) : jitem :=
  mkJ (rid r) t (rpad r + rbord r)
      (if zero_auto then Some (oz (rml r)) else rml r) (if zero_auto then Some (oz (rmr r)) else rmr r).

Fixpoint zipj (zero_auto : bool) (rs : list ritem) (ts : list Q) : list jitem :=
  match rs, ts with
  | r :: rs', t :: ts' => to_jitem zero_auto r t :: zipj zero_auto rs' ts'
  | _, _ => []
  end.

(* wrap mode: 0 nowrap, 1 wrap, 2 wrap-reverse *)
Definition lines_code (wrapm : nat) (reverse : bool) (W gap : Q) (items : list ritem) : list (list ritem) :=
  let sorted := sort_ord rorder items in
  let ls := collect (fun r => ihyp (to_item r) + iextra (to_item r)) (negb (Nat.eqb wrapm 0)) W gap sorted in
  let ls := if Nat.eqb wrapm 2 then rev ls else ls in
  if reverse then map (@rev ritem) ls else ls.

Fixpoint all_some {A : Type} (l : list (option A)) : option (list A) :=
  match l with
  | [] => Some []
  | None :: _ => None
  | Some x :: t => match all_some t with None => None | Some r => Some (x :: r) end
  end.

Definition row_code (column : bool) (wrapm : nat) (reverse : bool) (k : jkw) (origin W gap : Q) (items : list ritem)
  : option (list (list placed)) :=
  all_some (map (fun line =>
    match targets (resolve (map to_item line) gap W) with
    | None => None
    | Some ts => Some (justify_line reverse (jmap_code reverse k) origin W gap (zipj column line ts))
    end) (lines_code wrapm reverse W gap items)).

(* css-flexbox reference of the same pipeline *)
Definition lines_css (wrapm : nat) (reverse : bool) (W gap : Q) (items : list ritem) : list (list ritem) :=
  let sorted := sort_ord rorder items in
  let ls := collect_css (fun r => ihyp (to_item r) + iextra (to_item r))
                        (negb (Nat.eqb wrapm 0)) W gap sorted in
  let ls := if Nat.eqb wrapm 2 then rev ls else ls in
  if reverse then map (@rev ritem) ls else ls.

Definition row_css (column : bool) (wrapm : nat) (reverse : bool) (k : jkw) (origin W gap : Q) (items : list ritem)
  : option (list (list placed)) :=
  all_some (map (fun line =>
    match targets (resolve (map to_item line) gap W) with
    | None => None
    | Some ts => Some (justify_line reverse (jmap_css column reverse k) origin W gap (zipj false line ts))
    end) (lines_css wrapm reverse W gap items)).

(* ---- judge.  Implementation output: per item (id, line index, position_x, width) *)
Definition eps : Q := 1 # 1000000.

Fixpoint find_placed (i : Z) (line_no : Z) (ls : list (list placed)) : option (Z * placed) :=
  match ls with
  | [] => None
  | l :: t => match find (fun p => Z.eqb (pid p) i) l with
              | Some p => Some (line_no, p)
              | None => find_placed i (line_no + 1)%Z t
              end
  end.

Definition agree (ls : option (list (list placed))) (out : list (Z * Z * Q * Q)) : bool :=
  match ls with
  | None => false
  | Some ls =>
      Nat.eqb (length (concat ls)) (length out) &&
      forallb (fun o => let '(i, ln, x, w) := o in
                        match find_placed i 0%Z ls with
                        | Some (ln', p) => Z.eqb ln ln' && Qabs_le_b (px p - x) eps && Qabs_le_b (pw p - w) eps
                        | None => false
                        end) out
  end.

(* some line of the css pipeline has negative free space before step 12 (diagnostic, bit 2) *)
Definition css_negative_free (wrapm : nat) (reverse : bool) (W gap : Q) (items : list ritem) : bool :=
  existsb (fun line =>
    match targets (resolve (map to_item line) gap W) with
    | None => false
    | Some ts => if Qlt_le_dec (jfree W gap (zipj false line ts)) 0 then true else false
    end) (lines_css wrapm reverse W gap items).

Definition row_case : Type := (bool * nat * bool * jkw * (Q * Q * Q) * list ritem * list (Z * Z * Q * Q))%type.

(* main axis = x for rows, y for columns (`column`).
   bit 0: model of the code <> implementation; bit 1: implementation <> css-flexbox reference;
   bit 2: (diagnostic) negative free space on some line *)
Definition row_judge (c : row_case) : nat :=
  let '(column, wrapm, reverse, k, (origin, W, gap), items, out) := c in
  ((if agree (row_code column wrapm reverse k origin W gap items) out then 0 else 1) +
   (if agree (row_css column wrapm reverse k origin W gap items) out then 0 else 2) +
   (if css_negative_free wrapm reverse W gap items then 4 else 0))%nat.
