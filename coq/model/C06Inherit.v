(* C06 - inheritance and initial values: hand model of ComputedStyle.__missing__ (non-pending path, without the
   text-decoration / page / custom-property branches), AnonymousStyle.__missing__ and the shortcut of
   computed_from_cascaded (weasyprint/css/__init__.py).  Definitions only.
   Property names are integers; V is the type of (specified = computed) values. *)
From Coq Require Import ZArith List Bool.
Import ListNotations.
Open Scope Z_scope.

Section Inherit.
  Variable V : Type.

  (* a cascaded value: the keywords 'inherit' / 'initial', or a proper value *)
  Inductive cval := CInherit | CInitial | CVal (v : V).

  Variable initial : Z -> V.            (* INITIAL_VALUES[key] *)
  Variable inherited : Z -> bool.       (* key in INHERITED *)
  Variable not_computed : Z -> bool.    (* key in INITIAL_NOT_COMPUTED *)
  (* COMPUTER_FUNCTIONS[key](style, key, value) as a function of the parent's computed style (None on the root);
     the identity for keys without computer function *)
  Variable compute : Z -> option (Z -> V) -> V -> V.

  Definition style := Z -> V.

  Fixpoint lookup (c : list (Z * cval)) (k : Z) : option cval :=
    match c with [] => None | (m, x) :: r => if m =? k then Some x else lookup r k end.

  (* the computed value of the initial value *)
  Definition initial_value (parent : option style) (k : Z) : V :=
    if not_computed k then compute k parent (initial k) else initial k.

  (* ComputedStyle.__missing__(key) *)
  Definition missing (parent : option style) (casc : list (Z * cval)) (k : Z) : V :=
    let value :=
      match lookup casc k with
      | Some c => c
      | None => if inherited k then CInherit else CInitial
      end in
    let value := match value, parent with CInherit, None => CInitial | v, _ => v end in
    match value with
    | CInitial => initial_value parent k
    | CInherit => match parent with Some p => p k | None => initial_value parent k end
    | CVal v => compute k parent v
    end.

  (* AnonymousStyle.__missing__ for an element: border/outline widths are preset to 0 by __init__ *)
  Variable preset_zero : Z -> option V.    (* Some 0 for border_*_width and outline_width *)
  Definition anonymous (p : style) (k : Z) : V :=
    match preset_zero k with
    | Some z => z
    | None => if inherited k then p k else initial k
    end.

  (* computed_from_cascaded: `if not cascaded and parent_style is not None: return AnonymousStyle(parent_style)` *)
  Definition element_style (parent : option style) (casc : list (Z * cval)) : style :=
    match parent, casc with
    | Some p, [] => anonymous p
    | _, _ => missing parent casc
    end.

  (* the document tree: each element with its cascaded style (pseudo-elements are children of their element) *)
  Inductive tree := Node (casc : list (Z * cval)) (kids : list tree).
  Definition t_casc (t : tree) := match t with Node c _ => c end.
  Definition t_kids (t : tree) := match t with Node _ k => k end.

  (* the computed style of the element reached from t by a path of child indices *)
  Fixpoint style_at (parent : option style) (t : tree) (path : list nat) : option style :=
    let s := element_style parent (t_casc t) in
    match path with
    | [] => Some s
    | i :: r => match nth_error (t_kids t) i with Some c => style_at (Some s) c r | None => None end
    end.

  (* no element strictly below t on the path has a declaration for k other than 'inherit' *)
  Definition transparent (t : tree) (k : Z) : Prop :=
    lookup (t_casc t) k = None \/ lookup (t_casc t) k = Some CInherit.
  Fixpoint transparent_below (t : tree) (path : list nat) (k : Z) : Prop :=
    match path with
    | [] => True
    | i :: r => match nth_error (t_kids t) i with
                | Some c => transparent c k /\ transparent_below c r k
                | None => True
                end
    end.

  (* all computed styles in preorder (used by the correspondence judge) *)
  Fixpoint styles (parent : option style) (t : tree) : list style :=
    let s := element_style parent (t_casc t) in
    s :: (fix go (l : list tree) : list style :=
            match l with [] => [] | c :: r => styles (Some s) c ++ go r end) (t_kids t).
End Inherit.
Arguments CInherit {V}. Arguments CInitial {V}. Arguments CVal {V}. Arguments lookup {V}.
Arguments Node {V}. Arguments t_casc {V}. Arguments t_kids {V}.
Arguments transparent {V}. Arguments transparent_below {V}.
