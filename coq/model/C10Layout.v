(* C10 - models of weasyprint/layout/table.py: fixed_table_layout and auto_table_layout (hand models, tied by
   correspondence).  The min/max-content widths, intrinsic percentages and constrainedness of the columns
   (outputs of preferred.py: table_and_columns_preferred_widths) are INPUTS here. *)
From Coq Require Import QArith Qminmax List Bool Arith.
Require Import WV.model.C10Distribute.
Import ListNotations.
Open Scope Q_scope.

Definition qnat (n : nat) : Q := inject_Z (Z.of_nat n).

(* ------------------------------------------------------------------------------------------------ fixed *)
(* computed width of a column / cell: auto, px, % (of the table width) *)
Inductive decl := DAuto | DPx (v : Q) | DPct (v : Q).
Definition resolve (d : decl) (refer : Q) : option Q :=
  match d with DAuto => None | DPx v => Some v | DPct v => Some (refer * v / 100) end.

(* a cell of the first row: colspan, computed width, paddings + borders (border_width() = width + fc_bp) *)
Record fcell := mkfcell { fc_span : nat; fc_width : decl; fc_bp : Q }.

Definition oval (o : option Q) : Q := match o with Some w => w | None => 0 end.
Definition is_none (o : option Q) : bool := match o with None => true | Some _ => false end.
Definition osum (l : list (option Q)) : Q := qsum (map oval l).             (* sum(w for w in ... if w is not None) *)
Definition nnone (l : list (option Q)) : nat := length (filter is_none l).   (* len(columns_without_width) *)
Definition fill (v : Q) (l : list (option Q)) : list (option Q) :=
  map (fun o => match o with None => Some v | s => s end) l.

Definition spans (cells : list fcell) : nat := fold_right (fun c n => (fc_span c + n)%nat) 0%nat cells.

(* the loop "Set width on cells of the first row": the index i advances by colspan, so the list of column
   widths is consumed segment by segment.  None as a result = IndexError (excluded by num_columns >= spans) *)
Definition cell_segment (W spacing : Q) (c : fcell) (seg : list (option Q)) : list (option Q) :=
  match resolve (fc_width c) W with
  | None => seg
  | Some w =>
      let width := w + fc_bp c - spacing * (qnat (fc_span c) - 1) - osum seg in
      match nnone seg with
      | O => seg
      | k => fill (Qmax 0 width / qnat k) seg        (* max(0, width) / len(columns_without_width) *)
      end
  end.
Fixpoint cells_loop (W spacing : Q) (cells : list fcell) (cw : list (option Q)) : option (list (option Q)) :=
  match cells with
  | [] => Some cw
  | c :: rest =>
      let seg := firstn (fc_span c) cw in
      if (length seg <? fc_span c)%nat then None
      else match cells_loop W spacing rest (skipn (fc_span c) cw) with
           | Some t => Some (cell_segment W spacing c seg ++ t)
           | None => None
           end
  end.

Definition fixed_init (W : Q) (cols : list decl) (cells : list fcell) : list (option Q) :=
  let n := Nat.max (length cols) (spans cells) in
  map (fun d => resolve d W) cols ++ repeat None (n - length cols).

(* the part after the cell loop: equal shares for columns still unknown, then the final adjustment *)
Definition fixed_finish (W spacing : Q) (cw1 : list (option Q)) : Q * list Q :=
  let n := length cw1 in
  let allsp := spacing * (qnat n + 1) in
  let minw := osum cw1 + allsp in
  let k := nnone cw1 in
  let cw2 := if (0 <? k)%nat && Qle_bool minw W then fill ((W - minw) / qnat k) cw1 else fill 0 cw1 in
  let ws := map oval cw2 in
  let extra := W - qsum ws - allsp in
  if Qle_bool extra 0 then (W - extra, ws)
  else match n with
       | O => (W, ws)
       | _ => (W, map (fun w => w + extra / qnat n) ws)
       end.

(* returns (table.width, table.column_widths) after the call *)
Definition fixed_layout (W spacing : Q) (cols : list decl) (cells : list fcell) : option (Q * list Q) :=
  match cells_loop W spacing cells (fixed_init W cols cells) with
  | None => None
  | Some cw1 => Some (fixed_finish W spacing cw1)
  end.

(* ------------------------------------------------------------------------------------------------- auto *)
(* per column oracle outputs *)
Record acol := mkacol { a_cell : bool; a_cons : bool; a_pct : Q; a_max : Q; a_min : Q }.

Definition has_pct (c : acol) : bool := negb (Qeq_bool (a_pct c) 0).
Definition pct_guess (A : Q) (c : acol) : Q := Qmax (a_pct c / 100 * A) (a_min c).
(* the four guesses, as functions of the column (A = assignable width) *)
Definition guess0 (A : Q) (c : acol) : Q := a_min c.
Definition guess1 (A : Q) (c : acol) : Q := if has_pct c then pct_guess A c else a_min c.
Definition guess2 (A : Q) (c : acol) : Q :=
  if has_pct c then pct_guess A c else if a_cons c then a_max c else a_min c.
Definition guess3 (A : Q) (c : acol) : Q := if has_pct c then pct_guess A c else a_max c.

(* `for guess in guesses: if test(guess): x = guess  else: break` *)
Fixpoint last_while {T} (p : T -> bool) (l : list T) (d : T) : T :=
  match l with
  | [] => d
  | x :: r => if p x then last_while p r x else d
  end.

Definition used_table_width (tw : option Q) (avail tmin tmax : Q) : Q :=
  match tw with
  | None => if Qle_bool avail tmin then tmin else if Qlt_bool avail tmax then avail else tmax
  | Some w => if Qlt_bool w tmin then tmin else w
  end.

Definition to_col (A : Q) (c : acol) : col := mkcol (a_cell c) (a_cons c) (a_pct c) (a_max c) (guess3 A c).

Definition gsum (f : acol -> Q) (cols : list acol) : Q := qsum (map f cols).

(* eps is the 1e-9 of the source.  Returns (table.width, table.column_widths); None = the code raises *)
Definition auto_layout (eps : Q) (tw : option Q) (avail tmin tmax ths : Q) (cols : list acol)
  : option (Q * list Q) :=
  let W := used_table_width tw avail tmin tmax in
  match cols with
  | [] => Some (W, [])
  | _ =>
    let A := W - ths in
    if Qlt_bool A (gsum (guess3 A) cols) then
      let lower := last_while (fun g => Qle_bool (gsum g cols) (A * (1 + eps)))
                              [guess0 A; guess1 A; guess2 A; guess3 A] (guess0 A) in
      let upper := last_while (fun g => Qle_bool (A * (1 - eps)) (gsum g cols))
                              [guess3 A; guess2 A; guess1 A; guess0 A] (guess3 A) in
      if qlist_eqb (map upper cols) (map lower cols) then Some (W, map upper cols)
      else match safe_div (A - gsum lower cols) (gsum (fun c => upper c - lower c) cols) with
           | None => None
           | Some ratio => Some (W, map (fun c => lower c + (upper c - lower c) * ratio) cols)
           end
    else
      match dist (A - gsum (guess3 A) cols) (map (to_col A) cols) with
      | None => None
      | Some ws => Some (W, ws)
      end
  end.

(* ------------------------------------------------------------------------------------- correspondence *)
(* comparisons up to a tolerance: 0 for direct calls with exact rationals, > 0 for renders (floats) *)
Definition close (tol a b : Q) : bool := Qle_bool (a - b) tol && Qle_bool (b - a) tol.
Definition leq (tol a b : Q) : bool := Qle_bool a (b + tol).
Fixpoint qlist_close (tol : Q) (a b : list Q) : bool :=
  match a, b with
  | [], [] => true
  | x :: a', y :: b' => close tol x y && qlist_close tol a' b'
  | _, _ => false
  end.

Definition out_close (tol : Q) (a b : option (Q * list Q)) : bool :=
  match a, b with
  | Some (w, l), Some (w', l') => close tol w w' && qlist_close tol l l'
  | None, None => true
  | _, _ => false
  end.

(* decidable spec for fixed layout outputs (CSS 2.1 17.5.2.1), written on the outputs only:
   - the sum; the table is never narrowed;
   - every column with a declared width has that width plus a common bonus; every first-row cell with a width,
     one of whose columns has no declared width, has its columns + inner spacings = its border box (or what the
     declared widths of its columns already take, if that is more) + span * bonus;
   - no column is negative when no declared width is;
   - the bonus is >= 0, and is 0 unless the table keeps its width *)
Fixpoint cell_bonuses (W spacing : Q) (init : list (option Q)) (ws : list Q) (cells : list fcell) (off : nat) : list Q :=
  match cells with
  | [] => []
  | c :: rest =>
      let span := fc_span c in
      let seg0 := firstn span (skipn off init) in
      let segw := firstn span (skipn off ws) in
      (match resolve (fc_width c) W with
       | Some w => if (0 <? nnone seg0)%nat && (0 <? span)%nat
                   then [(qsum segw + spacing * (qnat span - 1)
                          - Qmax (w + fc_bp c) (osum seg0 + spacing * (qnat span - 1))) / qnat span] else []
       | None => []
       end) ++ cell_bonuses W spacing init ws rest (off + span)
  end.
Definition column_bonuses (W : Q) (cols : list decl) (ws : list Q) : list Q :=
  flat_map (fun p => match resolve (fst p) W with Some v => [snd p - v] | None => [] end) (combine cols ws).

Definition fixed_spec_b (tol : Q) (W spacing : Q) (cols : list decl) (cells : list fcell) (out : Q * list Q) : bool :=
  let '(W', ws) := out in
  let n := length ws in
  Nat.eqb n (Nat.max (length cols) (spans cells)) &&
  ((Nat.eqb n 0 && negb (Qle_bool W spacing)) || close tol W' (qsum ws + spacing * (qnat n + 1))) &&
  leq tol W W' &&
  (* no column is negative when no declared width is *)
  (negb (forallb (fun d => match resolve d W with Some v => Qle_bool 0 v | None => true end) cols && Qle_bool 0 spacing) ||
   forallb (fun w => leq tol 0 w) ws) &&
  match column_bonuses W cols ws ++ cell_bonuses W spacing (fixed_init W cols cells) ws cells 0 with
  | [] => true
  | b0 :: rest => leq tol 0 b0 && forallb (close tol b0) rest && (close tol b0 0 || close tol W' W)
  end.

Definition fixed_judge_tol (tol : Q) (c : Q * Q * list decl * list fcell * option (Q * list Q)) : nat :=
  let '(W, spacing, cols, cells, out) := c in
  ((if out_close tol (fixed_layout W spacing cols cells) out then 0 else 1) +
   (match out with Some o => if fixed_spec_b tol W spacing cols cells o then 0 else 2 | None => 2 end))%nat.
Definition tolr : Q := 1 # 100000.
Definition fixed_judge := fixed_judge_tol 0.
(* direct calls: tolerance chosen per case (0 when the implementation's output is made of exact rationals; the source
   mixes a float 0.0 into the column widths when it floors a remainder with max(0, width) / n) *)
Definition fixed_judge_t (c : Q * (Q * Q * list decl * list fcell * option (Q * list Q))) : nat :=
  fixed_judge_tol (fst c) (snd c).
Definition fixed_judge_r := fixed_judge_tol tolr.

Definition eps9 : Q := 1 # 1000000000.

(* decidable spec for auto layout outputs, under the oracle sanity hypotheses (checked here too: when they do not
   hold the spec bit is not raised; bit 2 = 4 reports that the oracle hypotheses do not hold) *)
Definition oracle_ok_b (tol tmin tmax ths : Q) (cols : list acol) : bool :=
  forallb (fun c => leq tol 0 (a_min c) && leq tol (a_min c) (a_max c)) cols &&
  leq tol (ths + gsum a_min cols) tmin && leq tol tmin tmax.
Definition auto_spec_b (tol : Q) (tw : option Q) (avail tmin tmax ths : Q) (cols : list acol) (out : Q * list Q) : bool :=
  let '(W, ws) := out in
  let A := W - ths in
  Nat.eqb (length ws) (length cols) &&
  leq tol tmin W &&
  (match tw with None => negb (Qle_bool tmin avail) || leq tol W avail | Some w => leq tol w W end) &&
  (match cols with [] => true | _ =>
     leq tol (A * (1 - eps9)) (qsum ws) && leq tol (qsum ws) (A * (1 + eps9)) end) &&
  forallb (fun p => leq tol (a_min (fst p) - eps9 * A) (snd p)) (combine cols ws).

Definition auto_judge_tol (tol : Q) (c : option Q * (Q * Q * Q * Q) * list acol * option (Q * list Q)) : nat :=
  let '(tw, (avail, tmin, tmax, ths), cols, out) := c in
  let ok := oracle_ok_b tol tmin tmax ths cols in
  ((if out_close tol (auto_layout eps9 tw avail tmin tmax ths cols) out then 0 else 1) +
   (match out with
    | Some o => if negb ok || auto_spec_b tol tw avail tmin tmax ths cols o then 0 else 2
    | None => if ok then 2 else 0
    end) +
   (if ok then 0 else 4))%nat.
Definition auto_judge := auto_judge_tol 0.
Definition auto_judge_r := auto_judge_tol tolr.
