(* C10 - model of collapse_table_borders (weasyprint/layout/table.py): the score, the fold set_one_border performs
   on one edge, the order of contributors, and which boxes touch which edge of the grid. *)
From Coq Require Import QArith List Bool Arith.
Require Import WV.model.C10Distribute.
Import ListNotations.
Open Scope Q_scope.

Inductive bstyle := Snone | Sinset | Sgroove | Soutset | Sridge | Sdotted | Sdashed | Ssolid | Sdouble | Shidden.

(* style_scores of the source: position in reversed(['hidden','double','solid','dashed','dotted','ridge','outset',
   'groove','inset','none']) *)
Definition style_score (s : bstyle) : nat :=
  match s with
  | Snone => 0 | Sinset => 1 | Sgroove => 2 | Soutset => 3 | Sridge => 4
  | Sdotted => 5 | Sdashed => 6 | Ssolid => 7 | Sdouble => 8 | Shidden => 9
  end%nat.
Definition style_map (s : bstyle) : bstyle := match s with Sinset => Sridge | Soutset => Sgroove | x => x end.
Definition bstyle_eqb (a b : bstyle) : bool := Nat.eqb (style_score a) (style_score b).

(* computed border of one side of one box; the colour is an identifier (0 = transparent) *)
Record border := mkb { b_style : bstyle; b_width : Q; b_color : Z }.

Definition score : Type := (nat * Q * nat)%type.
Definition score_of (b : border) : score :=
  ((match b_style b with Shidden => 1 | _ => 0 end)%nat, b_width b, style_score (b_style b)).
(* Python tuple comparison a < b *)
Definition score_lt (a b : score) : bool :=
  let '(h1, w1, s1) := a in let '(h2, w2, s2) := b in
  (h1 <? h2)%nat || ((h1 =? h2)%nat && (Qlt_bool w1 w2 || (Qeq_bool w1 w2 && (s1 <? s2)%nat))).

Definition stored : Type := (score * border)%type.
Definition weak_null : stored := ((0%nat, 0, 0%nat), mkb Snone 0 0%Z).
Definition strong_null : stored := ((1%nat, 0, 9%nat), mkb Shidden 0 0%Z).

(* what happens to one edge: a contributor is offered (set_one_border) or the edge is forced to the strong
   null border (inside a spanning cell) *)
Inductive event := EReset | ESet (b : border).
Definition step (cur : stored) (ev : event) : stored :=
  match ev with
  | EReset => strong_null
  | ESet b => if score_lt (fst cur) (score_of b)
              then (score_of b, mkb (style_map (b_style b)) (b_width b) (b_color b)) else cur
  end.
Definition resolve_edge (evs : list event) : stored := fold_left step evs weak_null.

(* ------------------------------------------------------------------------- the boxes of a table *)
Inductive kind := KCell | KRow | KGroup | KCol | KColGroup | KTable.
Definition kind_rank (k : kind) : nat :=
  match k with KCell => 0 | KRow => 1 | KGroup => 2 | KCol => 3 | KColGroup => 4 | KTable => 5 end%nat.
Record tbox := mktb { tb_kind : kind; tb_x : nat; tb_y : nat; tb_w : nat; tb_h : nat;
                      tb_top : border; tb_right : border; tb_bottom : border; tb_left : border }.

(* order of the calls: all cells (document order), rows, row groups, columns, column groups, table *)
Definition of_kind (k : kind) (boxes : list tbox) : list tbox :=
  filter (fun b => Nat.eqb (kind_rank (tb_kind b)) (kind_rank k)) boxes.
Definition call_order (boxes : list tbox) : list tbox :=
  of_kind KCell boxes ++ of_kind KRow boxes ++ of_kind KGroup boxes ++ of_kind KCol boxes ++
  of_kind KColGroup boxes ++ of_kind KTable boxes.

Definition is_cell (b : tbox) : bool := match tb_kind b with KCell => true | _ => false end.
(* graphical left/right grid lines of a box (x is logical: counted from the right in rtl) *)
Definition gleft (rtl : bool) (gw : nat) (b : tbox) : nat := if rtl then (gw - tb_x b - tb_w b)%nat else tb_x b.
Definition gright (rtl : bool) (gw : nat) (b : tbox) : nat := (gleft rtl gw b + tb_w b)%nat.
Definition rows_cover (b : tbox) (Y : nat) : bool := (tb_y b <=? Y)%nat && (Y <? tb_y b + tb_h b)%nat.
Definition cols_cover (rtl : bool) (gw : nat) (b : tbox) (X : nat) : bool :=
  (gleft rtl gw b <=? X)%nat && (X <? gright rtl gw b)%nat.

(* events on the vertical edge at grid line X (0..gw) of row Y, caused by one box *)
Definition vevents (rtl : bool) (gw X Y : nat) (b : tbox) : list event :=
  (if is_cell b && rows_cover b Y && (gleft rtl gw b <? X)%nat && (X <? gright rtl gw b)%nat then [EReset] else []) ++
  (if rows_cover b Y then
     (if Nat.eqb X (gleft rtl gw b) then [ESet (tb_left b)] else []) ++
     (if Nat.eqb X (gright rtl gw b) then [ESet (tb_right b)] else [])
   else []).
(* events on the horizontal edge at grid line Y (0..gh) of column X *)
Definition hevents (rtl : bool) (gw X Y : nat) (b : tbox) : list event :=
  (if is_cell b && cols_cover rtl gw b X && (tb_y b <? Y)%nat && (Y <? tb_y b + tb_h b)%nat then [EReset] else []) ++
  (if cols_cover rtl gw b X then
     (if Nat.eqb Y (tb_y b) then [ESet (tb_top b)] else []) ++
     (if Nat.eqb Y (tb_y b + tb_h b) then [ESet (tb_bottom b)] else [])
   else []).

Definition vertical_edge (rtl : bool) (gw : nat) (boxes : list tbox) (X Y : nat) : stored :=
  resolve_edge (flat_map (vevents rtl gw X Y) (call_order boxes)).
Definition horizontal_edge (rtl : bool) (gw : nat) (boxes : list tbox) (X Y : nat) : stored :=
  resolve_edge (flat_map (hevents rtl gw X Y) (call_order boxes)).

(* ------------------------------------------------------------------------- CSS 2.1 section 17.6.2, decidable *)
Definition is_hidden (b : border) : bool := match b_style b with Shidden => true | _ => false end.
Definition is_bnone (b : border) : bool := match b_style b with Snone => true | _ => false end.
(* [a] is at least as strong as [b]: 1. hidden wins; 2. none loses; 3. wider wins, then the style order *)
Definition css_ge_b (a b : border) : bool :=
  is_hidden a ||
  (negb (is_hidden b) &&
   (is_bnone b ||
    (negb (is_bnone a) &&
     (Qlt_bool (b_width b) (b_width a) ||
      (Qeq_bool (b_width a) (b_width b) && (style_score (b_style b) <=? style_score (b_style a))%nat))))).

Definition contributors (evs : list event) : list border :=
  flat_map (fun e => match e with ESet b => [b] | EReset => [] end) evs.
Definition has_reset (evs : list event) : bool := existsb (fun e => match e with EReset => true | _ => false end) evs.

Definition border_eqb (a b : border) : bool :=
  bstyle_eqb (b_style a) (b_style b) && Qeq_bool (b_width a) (b_width b) && Z.eqb (b_color a) (b_color b).

(* the first contributor that is at least as strong as every contributor *)
Definition css_winner (cs : list border) : option border :=
  find (fun c => forallb (css_ge_b c) cs) cs.
(* the border an edge must carry according to the specification, given its events *)
Definition edge_spec_b (evs : list event) (impl : border) : bool :=
  if has_reset evs then is_hidden impl || is_bnone impl
  else
    let cs := contributors evs in
    match css_winner cs with
    | Some w => if is_bnone w then is_bnone impl && Qeq_bool (b_width impl) 0
                else border_eqb impl (mkb (style_map (b_style w)) (b_width w) (b_color w))
    | None => match cs with [] => is_bnone impl | _ => false end
    end.

(* case = rtl, gw, gh, boxes, implementation's vertical grid (gh rows of gw+1), horizontal grid (gh+1 rows of gw) *)
Definition grid_of (f : nat -> nat -> bool) (rows cols : nat) : bool :=
  forallb (fun y => forallb (fun x => f x y) (seq 0 cols)) (seq 0 rows).
Definition nth2 (g : list (list border)) (x y : nat) : option border :=
  match nth_error g y with Some r => nth_error r x | None => None end.
Definition opt_b (o : option border) (f : border -> bool) : bool := match o with Some b => f b | None => false end.

Definition borders_judge (c : bool * nat * nat * list tbox * list (list border) * list (list border)) : nat :=
  let '(rtl, gw, gh, boxes, vg, hg) := c in
  let ord := call_order boxes in
  let vev x y := flat_map (vevents rtl gw x y) ord in
  let hev x y := flat_map (hevents rtl gw x y) ord in
  ((if Nat.eqb (length vg) gh && Nat.eqb (length hg) (S gh) &&
       forallb (fun r => Nat.eqb (length r) (S gw)) vg && forallb (fun r => Nat.eqb (length r) gw) hg &&
       grid_of (fun x y => opt_b (nth2 vg x y) (border_eqb (snd (resolve_edge (vev x y))))) gh (S gw) &&
       grid_of (fun x y => opt_b (nth2 hg x y) (border_eqb (snd (resolve_edge (hev x y))))) (S gh) gw
    then 0 else 1) +
   (if grid_of (fun x y => opt_b (nth2 vg x y) (edge_spec_b (vev x y))) gh (S gw) &&
       grid_of (fun x y => opt_b (nth2 hg x y) (edge_spec_b (hev x y))) (S gh) gw
    then 0 else 2))%nat.
