(* C07 - EXPANDERS.get(name, validate_non_shorthand) for the modelled shorthands, the whole of
   preprocess_declarations over component values, and the judges of the direct streams.  Definitions only. *)
From Coq Require Import ZArith QArith List Bool String Ascii.
Require Import WV.model.C07Tok WV.model.C07Decl WV.model.C07Expand.
Import ListNotations.
Open Scope string_scope.

Definition FOUR_SIDES := ["border-color"; "border-style"; "border-width"; "margin"; "padding"; "bleed"].
Definition BORDER_SIDES := ["border-top"; "border-right"; "border-bottom"; "border-left"; "column-rule"; "outline"].

Section Dispatch.
  Variable V0 : Type.
  Variable known supported : string -> bool.
  Variable prop_validator : string -> list tok -> option V0.
  Variable is_color is_border_width is_border_style is_column_width is_column_count is_flex_basis : tok -> bool.
  Variable flex_factor : tok -> option (Q * option Z).
  (* the expanders that are not modelled (background, font, grid, ...): exercised through the oracle stream *)
  Variable other_expander : string -> option (list tok -> res (list (string * value V0))).

  Definition dispatch (name : string) (tokens : list tok) : res (list (string * value V0)) :=
    if str_in name FOUR_SIDES then expand_four_sides V0 known supported prop_validator tokens name
    else if str_in name BORDER_SIDES then
      expand_border_side V0 known supported prop_validator is_color is_border_width is_border_style tokens name
    else if String.eqb name "border" then
      expand_border V0 known supported prop_validator is_color is_border_width is_border_style tokens name
    else if String.eqb name "border-radius" then expand_border_radius V0 known supported prop_validator tokens name
    else if String.eqb name "columns" then
      expand_columns V0 known supported prop_validator is_column_width is_column_count tokens name
    else if String.eqb name "flex" then
      expand_flex V0 known supported prop_validator is_flex_basis flex_factor tokens name
    else match other_expander name with
         | Some f => f tokens
         | None => validate_non_shorthand V0 known supported prop_validator tokens name false
         end.

  Variable not_print proprietary unstable : string -> bool.

  Definition full_pp : list (item (list tok)) -> res (list (string * value V0 * bool)) :=
    pp (list tok) (list tok) (value V0) remove_whitespace
       (fun ts => match ts with [] => true | _ => false end) dispatch not_print proprietary unstable.
End Dispatch.

(* ------------------------------------------------------------------------------------------ judges *)

Fixpoint lookup_by {K A} (eqb : K -> K -> bool) (k : K) (l : list (K * A)) : option A :=
  match l with
  | [] => None
  | (k', v) :: r => if eqb k k' then Some v else lookup_by eqb k r
  end.

(* --- stream pp-skeleton: the validator is an oracle (the real validator called on each declaration alone),
   values are interned as numbers.
   item = (kind, name, lower_name, non-empty?, important, oracle) ; kind 0 = declaration, 1 = error,
   2 = qualified rule, 3 = at-rule, 4 = whitespace/comment ;
   oracle = [(looked-up name, None = InvalidValues | Some [(longhand, value id)])]. *)
Definition okind := (bool * list (string * option (list (string * Z))))%type.
Definition jitem := (nat * string * string * bool * bool * list (string * option (list (string * Z))))%type.

Definition to_item (j : jitem) : item okind :=
  match j with
  | (k, name, lname, nonempty, imp, oracle) =>
      match k with
      | 0%nat => IDecl name lname (nonempty, oracle) imp
      | 1%nat => IError
      | 2%nat => IQRule
      | 3%nat => IAtRule
      | _ => IOther
      end
  end.

Definition oracle_validator (n : string) (t : okind) : res (list (string * Z)) :=
  match lookup_by String.eqb n (snd t) with
  | Some (Some l) => Ok l
  | Some None => Invalid
  | None => Crash                 (* the model looked a name up that the implementation did not *)
  end.

Definition out_eqb (a b : string * Z * bool) : bool :=
  match a, b with (n, v, i), (n', v', i') => String.eqb n n' && Z.eqb v v' && Bool.eqb i i' end.

Fixpoint list_eqb {A} (eqb : A -> A -> bool) (xs ys : list A) : bool :=
  match xs, ys with
  | [], [] => true
  | x :: xs', y :: ys' => eqb x y && list_eqb eqb xs' ys'
  | _, _ => false
  end.

Section PPJudge.
  Variable not_print proprietary unstable : list string.

  Definition model_pp (items : list jitem) : res (list (string * Z * bool)) :=
    pp okind okind Z (fun x => x) (fun t => negb (fst t)) oracle_validator
       (fun s => str_in s not_print) (fun s => str_in s proprietary) (fun s => str_in s unstable)
       (map to_item items).

  (* case = (items, output of the real function on the block, its outputs on each item alone,
             its output on the block without the items that yield nothing alone) ;
     bit 0: the model's output differs ; bit 1: the block's output is not the concatenation of the items' own
     outputs, or changes when the vanishing items are taken out *)
  Definition pp_judge (c : list jitem * list (string * Z * bool) * list (list (string * Z * bool))
                           * list (string * Z * bool)) : nat :=
    match c with
    | (items, full, singles, filtered) =>
        (match model_pp items with
         | Ok m => if list_eqb out_eqb m full then 0 else 1
         | _ => 1
         end) +
        (if list_eqb out_eqb full (List.concat singles) && list_eqb out_eqb full filtered then 0 else 2)
    end%nat.
End PPJudge.

(* --- stream dispatch-direct: real component values, the individual validators are oracles.
   vtab: [((longhand, tokens), value id)] = PROPERTIES[longhand](tokens) when not None ;
   ctab: [(token, mask)] bits: 0 color, 1 border width, 2 border style, 3 column width, 4 column count,
         5 flex basis ; ftab: [(token, (number, int))] = flex_grow_shrink *)
Definition key_eqb (a b : string * list tok) : bool := String.eqb (fst a) (fst b) && toks_eqb (snd a) (snd b).

(* the implementation's 'initial' / 'inherit' are plain strings, indistinguishable from a validator's result:
   [kwid] gives the value id of a keyword *)
Definition value_eqb (kwid : string -> Z) (a b : value Z) : bool :=
  match a, b with
  | VRaw x, VRaw y => toks_eqb x y
  | VKeyword x, VKeyword y => String.eqb x y
  | VKeyword x, VVal y => Z.eqb (kwid x) y
  | VPendingProp x n, VPendingProp y m => toks_eqb x y && String.eqb n m
  | VPendingExp x n, VPendingExp y m => toks_eqb x y && String.eqb n m
  | VVal x, VVal y => Z.eqb x y
  | _, _ => false
  end.

Definition nv_eqb (kwid : string -> Z) (a b : string * value Z) : bool :=
  String.eqb (fst a) (fst b) && value_eqb kwid (snd a) (snd b).

Section DispatchJudge.
  Variable known supported : list string.
  Variable id_initial id_inherit : Z.
  Definition kwid (k : string) : Z := if String.eqb k "initial" then id_initial else id_inherit.

  Definition cls (ctab : list (tok * Z)) (bit : Z) (t : tok) : bool :=
    match lookup_by tok_eqb t ctab with Some m => Z.testbit m bit | None => false end.

  Definition model_dispatch (vtab : list ((string * list tok) * Z)) (ctab : list (tok * Z))
             (ftab : list (tok * (Q * option Z))) (name : string) (tokens : list tok) :=
    dispatch Z (fun s => str_in s known) (fun s => str_in s supported)
             (fun n ts => lookup_by key_eqb (n, ts) vtab)
             (cls ctab 0) (cls ctab 1) (cls ctab 2) (cls ctab 3) (cls ctab 4) (cls ctab 5)
             (fun t => lookup_by tok_eqb t ftab)
             (fun _ => None) name tokens.

  (* impl: 0 = InvalidValues, 1 = another exception, 2 = returned *)
  Definition dispatch_judge (c : string * list tok * list ((string * list tok) * Z) * list (tok * Z)
                                 * list (tok * (Q * option Z)) * (nat * list (string * value Z))) : nat :=
    match c with
    | (name, tokens, vtab, ctab, ftab, (code, outs)) =>
        match model_dispatch vtab ctab ftab name tokens, code with
        | Ok m, 2%nat => if list_eqb (nv_eqb kwid) m outs then 0%nat else 1%nat
        | Invalid, 0%nat => 0%nat
        | Crash, 1%nat => 0%nat
        | _, _ => 1%nat
        end
    end.
End DispatchJudge.
