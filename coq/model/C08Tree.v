(* C08 - well-formedness of a box tree: the test suite's _sanity_checks (tests/testing_utils.py, table
   PROPER_CHILDREN) plus the clauses of property C08, as a decidable specification.  Definitions only.
   Written from the class hierarchy of weasyprint/formatting_structure/boxes.py, CSS 2.1 9.2.1 / 9.2.2 / 17.2.1. *)
From Coq Require Import Bool List Arith.
Import ListNotations.

Inductive kind :=
| KBlock | KInline | KInlineBlock | KTable | KInlineTable | KFlex | KInlineFlex | KGrid | KInlineGrid
| KRow | KRowGroup | KCol | KColGroup | KCell | KCaption | KLine | KText | KBlockRepl | KInlineRepl
| KPage | KMargin | KOther.

(* a box: class, is_in_normal_flow(), is_table_wrapper, (TextBox only) text == '', children *)
Inductive tree := N (k : kind) (flow wrapper empty : bool) (kids : list tree).

Definition kd (t : tree) : kind := match t with N k _ _ _ _ => k end.
Definition fl (t : tree) : bool := match t with N _ f _ _ _ => f end.
Definition wr (t : tree) : bool := match t with N _ _ w _ _ => w end.
Definition kids_of (t : tree) : list tree := match t with N _ _ _ _ l => l end.

Definition kind_eqb (a b : kind) : bool :=
  match a, b with
  | KBlock, KBlock | KInline, KInline | KInlineBlock, KInlineBlock | KTable, KTable | KInlineTable, KInlineTable
  | KFlex, KFlex | KInlineFlex, KInlineFlex | KGrid, KGrid | KInlineGrid, KInlineGrid | KRow, KRow
  | KRowGroup, KRowGroup | KCol, KCol | KColGroup, KColGroup | KCell, KCell | KCaption, KCaption | KLine, KLine
  | KText, KText | KBlockRepl, KBlockRepl | KInlineRepl, KInlineRepl | KPage, KPage | KMargin, KMargin
  | KOther, KOther => true
  | _, _ => false
  end.

(* isinstance(box, BlockLevelBox) / InlineLevelBox / BlockContainerBox *)
Definition block_level (k : kind) : bool :=
  match k with KBlock | KTable | KInlineTable | KFlex | KGrid | KCaption | KBlockRepl => true | _ => false end.
Definition inline_level (k : kind) : bool :=
  match k with KInline | KInlineBlock | KInlineFlex | KInlineGrid | KText | KInlineRepl => true | _ => false end.
Definition block_container (k : kind) : bool :=
  match k with KBlock | KInlineBlock | KCell | KCaption | KMargin => true | _ => false end.
Definition is_table (k : kind) : bool := match k with KTable | KInlineTable => true | _ => false end.
Definition table_child (k : kind) : bool :=
  match k with KCaption | KColGroup | KCol | KRowGroup | KRow => true | _ => false end.

Definition all_or_out (P : kind -> bool) (l : list tree) : bool := forallb (fun c => P (kd c) || negb (fl c)) l.
Definition is_k (k : kind) (k' : kind) : bool := kind_eqb k k'.

(* ---- _sanity_checks: PROPER_CHILDREN, children may also be out of flow ---- *)
Definition sanity_here (k : kind) (l : list tree) : bool :=
  if block_container k then all_or_out block_level l || all_or_out (is_k KLine) l
  else match k with
       | KLine | KInline => all_or_out inline_level l
       | KTable | KInlineTable => all_or_out table_child l
       | KColGroup => all_or_out (is_k KCol) l
       | KRowGroup => all_or_out (is_k KRow) l
       | KRow => all_or_out (is_k KCell) l
       | _ => true
       end.

(* ---- the clauses of the property ----
   post = false: the tree returned by build_formatting_structure (one LineBox per inline formatting context);
   post = true : a laid-out page (one LineBox per line). *)
Definition ifc_here (post : bool) (k : kind) (l : list tree) : bool :=
  if block_container k then
    (forallb (fun c => negb (is_k KLine (kd c))) l && all_or_out block_level l)
    || (if post then negb (match l with [] => true | _ => false end) && forallb (fun c => is_k KLine (kd c)) l
        else match l with [c] => is_k KLine (kd c) | _ => false end)
  else match k with
       | KLine | KInline => all_or_out inline_level l
       | KFlex | KInlineFlex | KGrid | KInlineGrid => all_or_out block_level l
       | _ => true
       end.

(* wrapper > table > row group > row > cell ; pk / pw = class and is_table_wrapper of the parent *)
Definition table_here (pk : kind) (pw : bool) (k : kind) (w : bool) (l : list tree) : bool :=
  (* what this box may contain *)
  (match k with
   | KTable | KInlineTable => forallb (fun c => is_k KRowGroup (kd c)) l
   | KRowGroup => forallb (fun c => is_k KRow (kd c)) l
   | KRow => forallb (fun c => is_k KCell (kd c)) l
   | _ => true
   end)
  && (if w then (match k with KBlock | KInlineBlock => true | _ => false end)
                && forallb (fun c => is_table (kd c) || is_k KCaption (kd c)) l
                && Nat.eqb (length (filter (fun c => is_table (kd c)) l)) 1
      else true)
  (* where this box may be *)
  && (match k with
      | KTable => is_k KBlock pk && pw
      | KInlineTable => (is_k KInlineBlock pk || is_k KBlock pk) && pw   (* block: an inline-table flex / grid item *)
      | KRowGroup => is_table pk
      | KRow => is_k KRowGroup pk
      | KCell => is_k KRow pk
      | KCaption => pw
      | KCol | KColGroup => false           (* columns live in table.column_groups, not among the children *)
      | KLine => block_container pk
      | _ => true
      end).

(* a text box has no children; right after the build it is not empty (inline_in_block removes the text boxes that
   process_whitespace emptied; layout may empty one again when it drops a trailing space) *)
Definition text_here (post : bool) (k : kind) (e : bool) (l : list tree) : bool :=
  match k with KText => (post || negb e) && match l with [] => true | _ => false end | _ => true end.

(* a clause holds at every node of the tree; pk / pw = class and is_table_wrapper of the parent *)
Fixpoint all_nodes (P : kind -> bool -> kind -> bool -> bool -> list tree -> bool) (pk : kind) (pw : bool) (t : tree) : bool :=
  match t with
  | N k f w e l =>
      P pk pw k w e l &&
      (fix go (l : list tree) : bool := match l with [] => true | c :: r => all_nodes P k w c && go r end) l
  end.

Definition clause_sanity : kind -> bool -> kind -> bool -> bool -> list tree -> bool := fun _ _ k _ _ l => sanity_here k l.
Definition clause_ifc (post : bool) : kind -> bool -> kind -> bool -> bool -> list tree -> bool := fun _ _ k _ _ l => ifc_here post k l.
Definition clause_table : kind -> bool -> kind -> bool -> bool -> list tree -> bool := fun pk pw k w _ l => table_here pk pw k w l.
Definition clause_text (post : bool) : kind -> bool -> kind -> bool -> bool -> list tree -> bool := fun _ _ k _ e l => text_here post k e l.

(* the root is given a neutral parent *)
Definition spec_wf_tree (post : bool) (t : tree) : bool :=
  all_nodes clause_sanity KOther false t && all_nodes (clause_ifc post) KOther false t
  && all_nodes clause_table KOther false t && all_nodes (clause_text post) KOther false t.

(* judge for the monitor: (post-layout?, root box) -> bit mask of the clauses failing somewhere in the tree:
   1 _sanity_checks, 2 block container / inline content, 4 table structure, 8 text boxes *)
Definition wf_judge (c : bool * tree) : nat :=
  let '(post, t) := c in
  (if all_nodes clause_sanity KOther false t then 0 else 1) + (if all_nodes (clause_ifc post) KOther false t then 0 else 2)
  + (if all_nodes clause_table KOther false t then 0 else 4) + (if all_nodes (clause_text post) KOther false t then 0 else 8).

(* column groups of a table: TableColumnGroupBox > TableColumnBox, nothing else *)
Definition colgroups_judge (l : list tree) : nat :=
  if forallb (fun g => is_k KColGroup (kd g) && forallb (fun c => is_k KCol (kd c) && match kids_of c with [] => true | _ => false end) (kids_of g)) l
  then 0 else 1.
