(* C11 - absolutely positioned boxes: hand-written models of weasyprint/layout/absolute.py
   (absolute_width, absolute_height, absolute_replaced), of the handle_min_max_width wrapper
   (weasyprint/layout/min_max.py) and of the glue of absolute_block that turns the returned translation into
   the final position; decidable renditions of the CSS 2.1 10.3.7 / 10.3.8 / 10.6.4 / 10.6.5 clauses; judges for
   the correspondence streams.  'auto' is None.  Definitions only; theorems in proofs/C11_abs.v. *)
From Coq Require Import QArith Qminmax List Bool.
Import ListNotations.
Open Scope Q_scope.

Definition oq := option Q.
Definition is_auto (o : oq) : bool := match o with None => true | Some _ => false end.
Definition specified (o : oq) : bool := negb (is_auto o).
Definition num0 (o : oq) : Q := match o with Some q => q | None => 0 end.
Definition impl (a b : bool) : bool := negb a || b.

(* ------------------------------------------------------------------------------------------------------
   One axis of a box as the code sees it.  Horizontal reading: a_start=left a_end=right a_size=width
   a_ms=margin_left a_me=margin_right a_pad = padding_left + padding_right + border_left_width +
   border_right_width (the code only uses the sum `paddings_borders`), a_pos=position_x.
   Vertical reading: top, bottom, height, margin_top, margin_bottom, position_y. *)
Record axis := mk_axis {
  a_start : oq; a_end : oq; a_size : oq; a_ms : oq; a_me : oq;
  a_pad : Q; a_pos : Q }.

Definition set_size (b : axis) (v : Q) : axis :=
  mk_axis (a_start b) (a_end b) (Some v) (a_ms b) (a_me b) (a_pad b) (a_pos b).
Definition set_ms (b : axis) (v : Q) : axis :=
  mk_axis (a_start b) (a_end b) (a_size b) (Some v) (a_me b) (a_pad b) (a_pos b).
Definition set_me (b : axis) (v : Q) : axis :=
  mk_axis (a_start b) (a_end b) (a_size b) (a_ms b) (Some v) (a_pad b) (a_pos b).
Definition set_margins (b : axis) (s e : oq) : axis :=
  mk_axis (a_start b) (a_end b) (a_size b) s e (a_pad b) (a_pos b).
Definition set_start (b : axis) (v : Q) : axis :=
  mk_axis (Some v) (a_end b) (a_size b) (a_ms b) (a_me b) (a_pad b) (a_pos b).
Definition set_end (b : axis) (v : Q) : axis :=
  mk_axis (a_start b) (Some v) (a_size b) (a_ms b) (a_me b) (a_pad b) (a_pos b).
Definition set_pos (b : axis) (v : Q) : axis :=
  mk_axis (a_start b) (a_end b) (a_size b) (a_ms b) (a_me b) (a_pad b) v.

(* `if box.margin_left == 'auto': box.margin_left = 0` (twice) *)
Definition zero_auto_margins (b : axis) : axis := set_margins b (Some (num0 (a_ms b))) (Some (num0 (a_me b))).

(* result of absolute_width / absolute_height: the mutated box, translate_box_width, translate_x *)
Definition ares := (axis * (bool * Q))%type.

(* ---- absolute_width.without_min_max(box, context, cb_x, cb_y, cb_width, cb_height)
   ltr = box.style.parent_style is None or parent_style['direction'] == 'ltr'
   stf a = shrink_to_fit(context, box, a)  (an oracle: preferred widths of the content) *)
Definition abs_width (ltr : bool) (stf : Q -> Q) (cbx cbw : Q) (b : axis) : ares :=
  let pb := a_pad b in
  let dtx := cbx - a_pos b in
  match a_start b, a_end b, a_size b with
  | None, None, None =>
      let b1 := zero_auto_margins b in
      let avail := cbw - (pb + num0 (a_ms b1) + num0 (a_me b1)) in
      let b2 := set_size b1 (stf avail) in
      if ltr then (b2, (false, 0)) else (b2, (true, dtx + avail))
  | Some l, Some r, Some w =>
      let wfm := cbw - (r + l + w + pb) in
      let b1 :=
        match a_ms b, a_me b with
        | None, None =>
            if Qle_bool (w + pb + r + l) cbw then set_me (set_ms b (wfm / 2)) (wfm / 2)
            else if ltr then set_me (set_ms b 0) wfm else set_me (set_ms b wfm) 0
        | None, Some me => set_ms b (wfm - me)
        | Some ms, None => set_me b (wfm - ms)
        | Some ms, Some me => if ltr then set_me b (wfm - ms) else set_ms b (wfm - me)
        end in
      (b1, (false, l + dtx))
  | left_, right_, width_ =>
      let b1 := zero_auto_margins b in
      let spacing := pb + num0 (a_ms b1) + num0 (a_me b1) in
      match left_, right_, width_ with
      | None, Some r, None =>                       (* box.left == box.width == 'auto' *)
          (set_size b1 (stf (cbw - spacing - r)), (true, cbw - r - spacing + dtx))
      | None, None, Some _ =>                       (* box.left == box.right == 'auto' *)
          if ltr then (b1, (false, 0)) else (b1, (true, dtx + (cbw - spacing)))
      | Some l, None, None =>                       (* box.width == box.right == 'auto' *)
          (set_size b1 (stf (cbw - spacing - l)), (false, l + dtx))
      | None, Some r, Some w =>                     (* box.left == 'auto' *)
          (b1, (false, cbw + dtx - (r + spacing + w)))
      | Some l, Some r, None =>                     (* box.width == 'auto' *)
          (set_size b1 (cbw - r - l - spacing), (false, l + dtx))
      | Some l, None, Some _ =>                     (* box.right == 'auto' *)
          (b1, (false, l + dtx))
      | _, _, _ => (b1, (false, 0))                 (* not reachable: the two first cases above *)
      end
  end.

(* ---- absolute_height(box, context, cb_x, cb_y, cb_width, cb_height): no direction, no shrink-to-fit,
   the height may stay 'auto' (the content decides later) *)
Definition abs_height (cby cbh : Q) (b : axis) : ares :=
  let pb := a_pad b in
  let dty := cby - a_pos b in
  match a_start b, a_end b, a_size b with
  | None, None, None => (zero_auto_margins b, (false, 0))
  | Some t, Some bo, Some h =>
      let hfm := cbh - (t + bo + h + pb) in
      let b1 :=
        match a_ms b, a_me b with
        | None, None => set_me (set_ms b (hfm / 2)) (hfm / 2)
        | None, Some me => set_ms b (hfm - me)
        | Some ms, None => set_me b (hfm - ms)
        | Some ms, Some _ => set_me b (hfm - ms)
        end in
      (b1, (false, t + dty))
  | top_, bottom_, height_ =>
      let b1 := zero_auto_margins b in
      let spacing := pb + num0 (a_ms b1) + num0 (a_me b1) in
      match top_, bottom_, height_ with
      | None, Some bo, None => (b1, (true, cbh - bo - spacing + dty))
      | None, None, Some _ => (b1, (false, 0))
      | Some t, None, None => (b1, (false, t + dty))
      | None, Some bo, Some h => (b1, (false, cbh + dty - (bo + spacing + h)))
      | Some t, Some bo, None => (set_size b1 (cbh - bo - t - spacing), (false, t + dty))
      | Some t, None, Some _ => (b1, (false, t + dty))
      | _, _, _ => (b1, (false, 0))
      end
  end.

(* ---- handle_min_max_width(function)(box, *args); max_width None = inf.  A comparison with 'auto'
   raises in Python: None here. *)
Definition gtb (a b : Q) : bool := negb (Qle_bool a b).
Definition handle_min_max (f : axis -> ares) (minw : Q) (maxw : oq) (b : axis) : option ares :=
  let computed_ms := a_ms b in
  let computed_me := a_me b in
  let position := a_pos b in
  let r1 := f b in
  match a_size (fst r1) with
  | None => None
  | Some w1 =>
      let r2 :=
        if (match maxw with Some m => gtb w1 m | None => false end)
        then f (set_pos (set_margins (set_size (fst r1) (num0 maxw)) computed_ms computed_me) position)
        else r1 in
      match a_size (fst r2) with
      | None => None
      | Some w2 =>
          Some (if gtb minw w2
                then f (set_pos (set_margins (set_size (fst r2) minw) computed_ms computed_me) position)
                else r2)
      end
  end.

(* ---- handle_min_max_height(function)(box, *args): like the width wrapper without the position, and it returns
   at once while the height is still 'auto' (the content decides it later, block layout clamps it) *)
Definition handle_min_max_h (f : axis -> ares) (minh : Q) (maxh : oq) (b : axis) : ares :=
  let computed_ms := a_ms b in
  let computed_me := a_me b in
  let r1 := f b in
  match a_size (fst r1) with
  | None => r1
  | Some h1 =>
      let r2 :=
        if (match maxh with Some m => gtb h1 m | None => false end)
        then f (set_margins (set_size (fst r1) (num0 maxh)) computed_ms computed_me)
        else r1 in
      match a_size (fst r2) with
      | None => r2
      | Some h2 =>
          if gtb minh h2
          then f (set_margins (set_size (fst r2) minh) computed_ms computed_me)
          else r2
      end
  end.

(* ---- absolute_block: `if translate_box_width: translate_x -= new_box.width; new_box.translate(translate_x, _)`
   final_size = new_box.width (resp. new_box.height, the height after the content has been laid out) *)
Definition final_pos (pos0 : Q) (final_size : Q) (r : bool * Q) : Q :=
  pos0 + (snd r - (if fst r then final_size else 0)).

(* ---- absolute_replaced, one axis, after inline_replaced_box_width_height has set width and height.
   horizontal = true: the static-position and over-constrained branches depend on ltr;
   horizontal = false: the vertical part (always "ltr"-like, no negative-remaining test).
   mw = box.margin_width() = size + pad + margins, bw = box.border_width() = size + pad. *)
Definition abs_replaced_axis (horizontal ltr : bool) (cb0 cbs : Q) (b : axis) : option axis :=
  match a_size b with
  | None => None
  | Some w =>
      let b0 :=
        match a_start b, a_end b with
        | None, None =>
            if ltr then set_start b (a_pos b - cb0) else set_end b (cb0 + cbs - a_pos b)
        | _, _ => b
        end in
      let b1 :=
        match a_start b0, a_end b0 with
        | Some l, Some r =>
            match a_ms b0, a_me b0 with
            | None, None =>
                let remaining := cbs - (w + a_pad b0 + l + r) in
                if negb horizontal || Qle_bool 0 remaining
                then set_me (set_ms b0 (remaining / 2)) (remaining / 2)
                else if ltr then set_me (set_ms b0 0) remaining else set_me (set_ms b0 remaining) 0
            | None, Some me => set_ms b0 (cbs - (w + a_pad b0 + l + r) - me)
            | Some ms, None => set_me b0 (cbs - (w + a_pad b0 + l + r) - ms)
            | Some ms, Some me =>
                (* over-constrained *)
                if ltr then set_end b0 (cbs - ((w + a_pad b0 + ms + me) + l))
                else set_start b0 (cbs - ((w + a_pad b0 + ms + me) + r))
            end
        | l0, r0 =>
            let bz := zero_auto_margins b0 in
            let remaining := cbs - (w + a_pad bz + num0 (a_ms bz) + num0 (a_me bz)) in
            let bl := match l0 with None => set_start bz (remaining - num0 r0) | Some _ => bz end in
            match r0 with None => set_end bl (remaining - num0 (a_start bl)) | Some _ => bl end
        end in
      (* box.position_x = cb_x + box.left *)
      Some (set_pos b1 (cb0 + num0 (a_start b1)))
  end.

(* ======================================================================================================
   Specification: CSS 2.1 10.3.7 (10.6.4 vertically), geometric reading.  From the final margin-box
   position X and the used margins / size, the used offsets are
       start_used = X - cb0          end_used = cb0 + cbs - (X + MS + pad + SIZE + ME)
   so the constraint  start + MS + pad + SIZE + ME + end = cbs  holds by construction for the used offsets;
   what the clause demands is that every *specified* term is the used one, and how the auto ones are solved. *)
Record placed := mk_placed { p_x : Q; p_ms : Q; p_me : Q; p_size : Q }.

Definition start_used (cb0 : Q) (p : placed) : Q := p_x p - cb0.
Definition end_used (cb0 cbs pad : Q) (p : placed) : Q := cb0 + cbs - (p_x p + p_ms p + pad + p_size p + p_me p).

(* all of start, end, size and both margins specified *)
Definition over_constrained (b : axis) : bool :=
  specified (a_start b) && specified (a_end b) && specified (a_size b) && specified (a_ms b) && specified (a_me b).
Definition all3 (b : axis) : bool := specified (a_start b) && specified (a_end b) && specified (a_size b).

(* Prop form (readable in the theorems) *)
Definition constraint_spec (cb0 cbs : Q) (b : axis) (p : placed) : Prop :=
  (forall l, a_start b = Some l -> start_used cb0 p == l) /\
  (forall r, a_end b = Some r -> end_used cb0 cbs (a_pad b) p == r) /\
  (forall w, a_size b = Some w -> p_size p == w) /\
  (forall m, a_ms b = Some m -> p_ms p == m) /\
  (forall m, a_me b = Some m -> p_me p == m) /\
  (* an auto margin is 0 unless start, end and size are all specified *)
  (all3 b = false -> (a_ms b = None -> p_ms p == 0) /\ (a_me b = None -> p_me p == 0)).

(* boolean form (evaluated on implementation outputs) *)
Definition oq_honoured (o : oq) (v : Q) : bool := match o with Some x => Qeq_bool v x | None => true end.
Definition constraint_spec_b (cb0 cbs : Q) (b : axis) (p : placed) : bool :=
  oq_honoured (a_start b) (start_used cb0 p) &&
  oq_honoured (a_end b) (end_used cb0 cbs (a_pad b) p) &&
  oq_honoured (a_size b) (p_size p) &&
  oq_honoured (a_ms b) (p_ms p) &&
  oq_honoured (a_me b) (p_me p) &&
  impl (negb (all3 b)) (impl (is_auto (a_ms b)) (Qeq_bool (p_ms p) 0) && impl (is_auto (a_me b)) (Qeq_bool (p_me p) 0)).

(* two auto margins with start, end, size specified: equal when the box fits, otherwise the start-side one
   (ltr; end-side in rtl) is 0.  `check_neg` = the clause has the "unless negative" exception (10.3.7 has it,
   10.6.4 has not). *)
Definition fits (cbs : Q) (b : axis) : bool :=
  Qle_bool (num0 (a_start b) + a_pad b + num0 (a_size b) + num0 (a_end b)) cbs.
Definition centred_spec_b (check_neg ltr : bool) (cbs : Q) (b : axis) (p : placed) : bool :=
  impl (all3 b && is_auto (a_ms b) && is_auto (a_me b))
       (if negb check_neg || fits cbs b then Qeq_bool (p_ms p) (p_me p)
        else if ltr then Qeq_bool (p_ms p) 0 else Qeq_bool (p_me p) 0).

(* over-constrained (10.3.7: "ignore the value for left (rtl) / right (ltr) and solve for it"): the start
   offset and margin win in ltr, the end offset and margin in rtl *)
Definition overconstrained_spec (ltr : bool) (cb0 cbs : Q) (b : axis) (p : placed) : Prop :=
  (forall w, a_size b = Some w -> p_size p == w) /\
  (if ltr then (forall l, a_start b = Some l -> start_used cb0 p == l) /\ (forall m, a_ms b = Some m -> p_ms p == m)
   else (forall r, a_end b = Some r -> end_used cb0 cbs (a_pad b) p == r) /\ (forall m, a_me b = Some m -> p_me p == m)).
Definition overconstrained_spec_b (ltr : bool) (cb0 cbs : Q) (b : axis) (p : placed) : bool :=
  impl (over_constrained b)
       (oq_honoured (a_size b) (p_size p) &&
        if ltr then oq_honoured (a_start b) (start_used cb0 p) && oq_honoured (a_ms b) (p_ms p)
        else oq_honoured (a_end b) (end_used cb0 cbs (a_pad b) p) && oq_honoured (a_me b) (p_me p)).

(* start and end both auto (ltr, or vertically): the box keeps its static position *)
Definition static_spec_b (ltr : bool) (b : axis) (p : placed) : bool :=
  impl (is_auto (a_start b) && is_auto (a_end b) && ltr) (Qeq_bool (p_x p) (a_pos b)).

(* the whole decidable horizontal/vertical spec used by the judges *)
Definition axis_spec_b (check_neg ltr : bool) (cb0 cbs : Q) (b : axis) (p : placed) : bool :=
  (if over_constrained b then overconstrained_spec_b ltr cb0 cbs b p else constraint_spec_b cb0 cbs b p) &&
  centred_spec_b check_neg ltr cbs b p && static_spec_b ltr b p.

(* the final geometry of the box: used margins, used size (the content height when the height stays auto)
   and the position after absolute_block's translation *)
Definition placed_of (b : axis) (r : ares) (content : Q) : option placed :=
  match a_ms (fst r), a_me (fst r) with
  | Some MS, Some ME =>
      let S := match a_size (fst r) with Some s => s | None => content end in
      Some (mk_placed (final_pos (a_pos b) S (snd r)) MS ME S)
  | _, _ => None
  end.

(* ======================================================================================================
   Judges.  bit 0: model <> implementation ; bit 1: the implementation's output violates the specification. *)
Definition oq_eqb (a b : oq) : bool :=
  match a, b with Some x, Some y => Qeq_bool x y | None, None => true | _, _ => false end.

Definition clamp_stf (mn mx : Q) (a : Q) : Q := Qmin (Qmax mn a) mx.

(* the box the spec is applied to when min/max-width apply: CSS 2.1 10.4, "the rules above are applied again,
   but this time using the computed value of max-width as the computed value for width" *)
Definition clamped_width (w : Q) (minw : Q) (maxw : oq) : Q :=
  let w1 := match maxw with Some m => if gtb w m then m else w | None => w end in
  if gtb minw w1 then minw else w1.

(* case: ltr, (left,right,width,ml,mr), (pad, px), (cbx, cbw), (stf_min, stf_max), (min_width, max_width),
         implementation output (width, margin_left, margin_right, translate_box_width, translate_x) *)
Definition absw_case := (bool * (oq * oq * oq * oq * oq) * (Q * Q) * (Q * Q) * (Q * Q) * (Q * oq) *
                         (oq * oq * oq * bool * Q))%type.

Definition absw_judge (c : absw_case) : nat :=
  let '(ltr, (l, r, w, ml, mr), (pad, px), (cbx, cbw), (mn, mx), (minw, maxw), (ow, oml, omr, otbw, otx)) := c in
  let b := mk_axis l r w ml mr pad px in
  let model := handle_min_max (abs_width ltr (clamp_stf mn mx) cbx cbw) minw maxw b in
  let same :=
    match model with
    | Some (b', (tbw, tx)) =>
        oq_eqb (a_size b') ow && oq_eqb (a_ms b') oml && oq_eqb (a_me b') omr && Bool.eqb tbw otbw && Qeq_bool tx otx
    | None => false
    end in
  let spec_ok :=
    match ow, oml, omr with
    | Some W, Some ML, Some MR =>
        let p := mk_placed (final_pos px W (otbw, otx)) ML MR W in
        (* the width the clause is applied to: the specified one, clamped (CSS 2.1 10.4); for an auto width
           either the auto rules hold or (clamped) the rules with the used width as the specified one *)
        (match w with
         | Some w0 => axis_spec_b true ltr cbx cbw (set_size b (clamped_width w0 minw maxw)) p
         | None => axis_spec_b true ltr cbx cbw b p || axis_spec_b true ltr cbx cbw (set_size b W) p
         end) &&
        Qle_bool minw W && (match maxw with Some m => Qle_bool W m || Qle_bool m minw | None => true end)
    | _, _, _ => false
    end in
  ((if same then 0 else 1) + (if spec_ok then 0 else 2))%nat.

(* case: (top,bottom,height,mt,mb), (pad, py), (cby, cbh), content height, (min_height, max_height),
         implementation output (height, margin_top, margin_bottom, translate_box_height, translate_y) *)
Definition absh_case := ((oq * oq * oq * oq * oq) * (Q * Q) * (Q * Q) * Q * (Q * oq) * (oq * oq * oq * bool * Q))%type.

Definition absh_judge (c : absh_case) : nat :=
  let '((t, bo, h, mt, mb), (pad, py), (cby, cbh), content, (minh, maxh), (oh, omt, omb, otbh, oty)) := c in
  let b := mk_axis t bo h mt mb pad py in
  let '(b', (tbh, ty)) := handle_min_max_h (abs_height cby cbh) minh maxh b in
  let same := oq_eqb (a_size b') oh && oq_eqb (a_ms b') omt && oq_eqb (a_me b') omb && Bool.eqb tbh otbh && Qeq_bool ty oty in
  let spec_ok :=
    match omt, omb with
    | Some MT, Some MB =>
        let H := match oh with Some x => x | None => content end in
        let p := mk_placed (final_pos py H (otbh, oty)) MT MB H in
        (* CSS 2.1 10.7: the rules are applied with the clamped height as the specified one *)
        match h with
        | Some h0 => axis_spec_b false true cby cbh (set_size b (clamped_width h0 minh maxh)) p
        | None =>
            match oh with
            | Some H' => (axis_spec_b false true cby cbh b p || axis_spec_b false true cby cbh (set_size b H') p) &&
                         Qle_bool minh H' && (match maxh with Some m => Qle_bool H' m || Qle_bool m minh | None => true end)
            | None => axis_spec_b false true cby cbh b p
            end
        end
    | _, _ => false
    end in
  ((if same then 0 else 1) + (if spec_ok then 0 else 2))%nat.

(* case: ltr, horizontal (left,right,width,ml,mr), (pad, px), (cbx, cbw), vertical likewise,
         implementation output (left,right,ml,mr,position_x), (top,bottom,mt,mb,position_y) *)
Definition absr_case := (bool * (oq * oq * oq * oq * oq) * (Q * Q) * (Q * Q) *
                         (oq * oq * oq * oq * oq) * (Q * Q) * (Q * Q) *
                         (oq * oq * oq * oq * Q) * (oq * oq * oq * oq * Q))%type.

Definition absr_axis_judge (horizontal ltr : bool) (b : axis) (cb0 cbs : Q) (out : oq * oq * oq * oq * Q) : nat :=
  let '(ol, or, oml, omr, ox) := out in
  let same :=
    match abs_replaced_axis horizontal ltr cb0 cbs b with
    | Some b' => oq_eqb (a_start b') ol && oq_eqb (a_end b') or && oq_eqb (a_ms b') oml && oq_eqb (a_me b') omr &&
                 Qeq_bool (a_pos b') ox
    | None => false
    end in
  let spec_ok :=
    match oml, omr, a_size b with
    | Some ML, Some MR, Some W => axis_spec_b horizontal ltr cb0 cbs b (mk_placed ox ML MR W)
    | _, _, _ => false
    end in
  ((if same then 0 else 1) + (if spec_ok then 0 else 2))%nat.

Definition nat_or (a b : nat) : nat :=
  ((if orb (Nat.odd a) (Nat.odd b) then 1 else 0) + (if orb (Nat.leb 2 a) (Nat.leb 2 b) then 2 else 0))%nat.

Definition absr_judge (c : absr_case) : nat :=
  let '(ltr, (l, r, w, ml, mr), (padh, px), (cbx, cbw), (t, bo, h, mt, mb), (padv, py), (cby, cbh), outh, outv) := c in
  nat_or (absr_axis_judge true ltr (mk_axis l r w ml mr padh px) cbx cbw outh)
         (absr_axis_judge false true (mk_axis t bo h mt mb padv py) cby cbh outv).
