(* C08 - table slot assignment: hand model of the grid loop of
   weasyprint/formatting_structure/build.py wrap_table (grid_x / colspan / rowspan).  Definitions only.

     for group in row_groups:
         occupied_cells_by_row = [set() for row in group.children]
         for row in group.children:
             occupied_cells_in_this_row = occupied_cells_by_row.pop(0)
             grid_x = 0
             for cell in row.children:
                 while grid_x in occupied_cells_in_this_row: grid_x += 1
                 cell.grid_x = grid_x
                 new_grid_x = grid_x + cell.colspan
                 if cell.rowspan != 1:
                     max_rowspan = len(occupied_cells_by_row) + 1
                     if cell.rowspan == 0: spanned_rows = occupied_cells_by_row ; cell.rowspan = max_rowspan
                     else: cell.rowspan = min(cell.rowspan, max_rowspan)
                           spanned_rows = occupied_cells_by_row[:cell.rowspan - 1]
                     for occupied_cells in spanned_rows: occupied_cells.update(range(grid_x, new_grid_x))
                 grid_x = new_grid_x
                 grid_width = max(grid_width, grid_x)

   A cell comes in as (colspan, rowspan); TableCellBox.__init__ guarantees colspan >= 1 and rowspan >= 0
   (max(int(...), 1) / max(int(...), 0)); outside that domain the model returns the error value None.
   A cell goes out as (grid_x, colspan, rowspan). Sets of columns are lists. *)
From Coq Require Import ZArith List Bool Lia.
Import ListNotations.
Local Open Scope Z_scope.

Definition cellin := (Z * Z)%type.
Definition cellout := (Z * Z * Z)%type.
Definition gx (c : cellout) : Z := fst (fst c).
Definition cs (c : cellout) : Z := snd (fst c).
Definition rs (c : cellout) : Z := snd c.

Definition zmem (x : Z) (l : list Z) : bool := existsb (Z.eqb x) l.

(* while grid_x in occupied: grid_x += 1   -- at most len(occupied) iterations; None = out of fuel *)
Fixpoint first_free (fuel : nat) (occ : list Z) (x : Z) : option Z :=
  match fuel with
  | O => None
  | S n => if zmem x occ then first_free n occ (x + 1) else Some x
  end.

(* range(x, x + n) *)
Definition zrange (x n : Z) : list Z := map (fun i => x + Z.of_nat i) (seq 0 (Z.to_nat n)).

(* for occupied_cells in rows[:k]: occupied_cells.update(cols) *)
Definition mark (rows : list (list Z)) (k : nat) (cols : list Z) : list (list Z) :=
  map (fun r => r ++ cols) (firstn k rows) ++ skipn k rows.

Fixpoint do_row (occ_this : list Z) (occ_next : list (list Z)) (x gw : Z) (cells : list cellin)
  : option (list cellout * list (list Z) * Z) :=
  match cells with
  | [] => Some ([], occ_next, gw)
  | (c, r) :: rest =>
      if (c <? 1) || (r <? 0) then None else
      match first_free (S (length occ_this)) occ_this x with
      | None => None
      | Some g =>
          let nx := g + c in
          let maxr := Z.of_nat (length occ_next) + 1 in
          let r' := if r =? 1 then 1 else if r =? 0 then maxr else Z.min r maxr in
          let occ' := if r =? 1 then occ_next else mark occ_next (Z.to_nat (r' - 1)) (zrange g c) in
          match do_row occ_this occ' nx (Z.max gw nx) rest with
          | None => None
          | Some (outs, o, w) => Some ((g, c, r') :: outs, o, w)
          end
      end
  end.

Fixpoint do_rows (occ : list (list Z)) (gw : Z) (rows : list (list cellin)) : option (list (list cellout) * Z) :=
  match rows with
  | [] => Some ([], gw)
  | row :: rest =>
      match occ with
      | [] => None                                  (* never: one set per row *)
      | o :: occ' =>
          match do_row o occ' 0 gw row with
          | None => None
          | Some (outs, occ'', gw') =>
              match do_rows occ'' gw' rest with
              | None => None
              | Some (routs, w) => Some (outs :: routs, w)
              end
          end
      end
  end.

Definition do_group (gw : Z) (rows : list (list cellin)) : option (list (list cellout) * Z) :=
  do_rows (map (fun _ => []) rows) gw rows.

(* the row groups of a table in their final order; gw = the width given by the columns *)
Fixpoint do_table (gw : Z) (groups : list (list (list cellin))) : option (list (list (list cellout)) * Z) :=
  match groups with
  | [] => Some ([], gw)
  | g :: rest =>
      match do_group gw g with
      | None => None
      | Some (o, w) => match do_table w rest with None => None | Some (os, w') => Some (o :: os, w') end
      end
  end.

(* ---- specification vocabulary: the rectangle of grid slots a cell owns, inside its row group ---- *)
Definition cell_at (outs : list (list cellout)) (y k : nat) : option cellout :=
  match nth_error outs y with Some row => nth_error row k | None => None end.

(* cell c of row y owns slot (r, x) *)
Definition rect (y : nat) (c : cellout) (r : nat) (x : Z) : Prop :=
  (Z.of_nat y <= Z.of_nat r < Z.of_nat y + rs c) /\ (gx c <= x < gx c + cs c).

(* slot x of row y belongs to a cell of an earlier row *)
Definition from_above (outs : list (list cellout)) (y : nat) (x : Z) : Prop :=
  exists y0 k0 c0, (y0 < y)%nat /\ cell_at outs y0 k0 = Some c0 /\ rect y0 c0 y x.

(* where the previous cell of the row ends (0 for the first cell) *)
Definition prev_end (outs : list (list cellout)) (y k : nat) : Z :=
  match k with
  | O => 0
  | S k' => match cell_at outs y k' with Some c => gx c + cs c | None => 0 end
  end.

Definition is_first_free (S : Z -> Prop) (from g : Z) : Prop :=
  from <= g /\ ~ S g /\ forall x, from <= x < g -> S x.

(* rowspan as HTML defines it: 0 = to the end of the group, otherwise clipped to the rows left in the group *)
Definition clip (r left : Z) : Z := if r =? 0 then left else Z.min r left.

Fixpoint spans_ok (rows : list (list cellin)) (outs : list (list cellout)) : Prop :=
  match rows, outs with
  | [], [] => True
  | row :: rr, orow :: ro =>
      Forall2 (fun (i : cellin) (o : cellout) => cs o = fst i /\ rs o = clip (snd i) (Z.of_nat (length rows))) row orow
      /\ spans_ok rr ro
  | _, _ => False
  end.

Definition no_overlap (outs : list (list cellout)) : Prop :=
  forall y1 k1 c1 y2 k2 c2,
    cell_at outs y1 k1 = Some c1 -> cell_at outs y2 k2 = Some c2 -> (y1, k1) <> (y2, k2) ->
    forall r x, ~ (rect y1 c1 r x /\ rect y2 c2 r x).

(* the side condition: no cell reaches, with any of its columns, a slot still occupied from above
   (its first column never does; this is about colspan > 1) *)
Definition clear_below (outs : list (list cellout)) : Prop :=
  forall y k c, cell_at outs y k = Some c -> forall x, gx c <= x < gx c + cs c -> ~ from_above outs y x.

(* ---- decidable versions, for judging implementation outputs ---- *)
Definition rect_b (y : nat) (c : cellout) (r : nat) (x : Z) : bool :=
  (Z.of_nat y <=? Z.of_nat r) && (Z.of_nat r <? Z.of_nat y + rs c) && (gx c <=? x) && (x <? gx c + cs c).

Fixpoint index_rows {A} (y : nat) (l : list (list A)) : list (nat * nat * A) :=
  match l with
  | [] => []
  | row :: r => map (fun p => (y, fst p, snd p)) (combine (seq 0 (length row)) row) ++ index_rows (S y) r
  end.

Definition from_above_b (outs : list (list cellout)) (y : nat) (x : Z) : bool :=
  existsb (fun p => let '(y0, _, c0) := p in (y0 <? y)%nat && rect_b y0 c0 y x) (index_rows 0 outs).

Definition clear_below_b (outs : list (list cellout)) : bool :=
  forallb (fun p => let '(y, _, c) := p in forallb (fun x => negb (from_above_b outs y x)) (zrange (gx c) (cs c)))
          (index_rows 0 outs).

Definition overlap_b (p q : nat * nat * cellout) : bool :=
  let '(y1, k1, c1) := p in let '(y2, k2, c2) := q in
  negb ((y1 =? y2)%nat && (k1 =? k2)%nat) &&
  (* rows intersect and columns intersect *)
  (Z.max (Z.of_nat y1) (Z.of_nat y2) <? Z.min (Z.of_nat y1 + rs c1) (Z.of_nat y2 + rs c2)) &&
  (Z.max (gx c1) (gx c2) <? Z.min (gx c1 + cs c1) (gx c2 + cs c2)).

Definition no_overlap_b (outs : list (list cellout)) : bool :=
  let cells := index_rows 0 outs in
  forallb (fun p => forallb (fun q => negb (overlap_b p q)) cells) cells.

(* each cell starts on the first free slot at or after the end of the previous cell of its row *)
Fixpoint row_starts_b (outs : list (list cellout)) (y : nat) (from : Z) (row : list cellout) : bool :=
  match row with
  | [] => true
  | c :: r =>
      (from <=? gx c) && negb (from_above_b outs y (gx c))
      && forallb (fun x => from_above_b outs y x) (zrange from (gx c - from))
      && row_starts_b outs y (gx c + cs c) r
  end.
Definition starts_b (outs : list (list cellout)) : bool :=
  forallb (fun p => row_starts_b outs (fst p) 0 (snd p)) (combine (seq 0 (length outs)) outs).

Fixpoint spans_b (rows : list (list cellin)) (outs : list (list cellout)) : bool :=
  match rows, outs with
  | [], [] => true
  | row :: rr, orow :: ro =>
      (length row =? length orow)%nat &&
      forallb (fun p => let '(i, o) := p in (cs o =? fst i) && (rs o =? clip (snd i) (Z.of_nat (length rows))))
              (combine row orow)
      && spans_b rr ro
  | _, _ => false
  end.

Definition width_b (w : Z) (outs : list (list cellout)) : bool :=
  forallb (forallb (fun c => gx c + cs c <=? w)) outs.

Definition outs_eqb (a b : list (list (list cellout))) : bool :=
  let ceq (c d : cellout) := (gx c =? gx d) && (cs c =? cs d) && (rs c =? rs d) in
  let fix leq {A} (e : A -> A -> bool) (x y : list A) : bool :=
    match x, y with [], [] => true | p :: x', q :: y' => e p q && leq e x' y' | _, _ => false end in
  leq (leq (leq ceq)) a b.

(* correspondence case: (width from the columns, groups in, groups out of the implementation, grid width of the
   implementation or -1 when it was not observable).
   bit 0: model <> implementation; bit 1: a proved clause fails on the implementation's output (cell start,
   rowspan clipping, width cover, overlap although the side condition holds); bit 2: the side condition does not
   hold (the table is outside the partial no-overlap theorem); bit 3: two cells overlap *)
Definition table_judge (c : Z * list (list (list cellin)) * list (list (list cellout)) * Z) : nat :=
  let '(gw, groups, out, w) := c in
  let corr := match do_table gw groups with
              | Some (m, mw) => outs_eqb m out && ((w =? -1) || (w =? mw))
              | None => false end in
  let side := forallb clear_below_b out in
  let novl := forallb no_overlap_b out in
  let spec := forallb starts_b out
              && (fix go (g : list (list (list cellin))) (o : list (list (list cellout))) : bool :=
                    match g, o with [], [] => true | a :: g', b :: o' => spans_b a b && go g' o' | _, _ => false end) groups out
              && ((w =? -1) || forallb (width_b w) out)
              && (negb side || novl) in
  ((if corr then 0 else 1) + (if spec then 0 else 2) + (if side then 0 else 4) + (if novl then 0 else 8))%nat.
