(* C15 - executable model of weasyprint/css/counters.py : CounterStyle.resolve_counter, render_value,
   render_marker (hand-written, follows the Python control flow, quirks included).

   Representation
   - text           : list of code points (Python str; len() = List.length)
   - sym            : ('string', v) | ('url', v)        ; symbol() gives the text, '' for an url
   - cstyle         : one dict entry of CounterStyle (every descriptor may be None)
   - styles         : the CounterStyle dict as an association list (first match wins)
   - cname          : what callers pass as counter_name: an identifier, ('symbols()', (system, s1, ...)),
                      or ('string', s)
   - previous_types : option (list cname)   (None, or the shared mutable list; appended at the END as Python does)
   - outcome        : ROk text | RExc (a Python exception escapes) | RFuel (recursion/loop budget exhausted:
                      the Python code does not terminate or hits RecursionError)

   One activation of render_value is [render_step]; it either returns or makes ONE tail call
   (render_value(v,'decimal') with fresh previous_types, or the fallback call sharing previous_types).
   [render] iterates activations with fuel. *)
From Coq Require Import ZArith List String Bool Lia.
Import ListNotations.
Open Scope Z_scope.

Definition text := list Z.

Inductive sym := SStr (t : text) | SUrl.
Definition symbol (s : sym) : text := match s with SStr t => t | SUrl => [] end.

Inductive bound := BNegInf | BInt (z : Z) | BPosInf.
(* an item of counter['range'] when it is a tuple: a (lo, hi) pair, or the string 'auto' that the descriptor
   validator stores for "range: auto" *)
Inductive ritem := RItemAuto | RItem (lo hi : bound).
Inductive crange := RAuto | RList (l : list ritem).

Record csystem := mkSys { s_ext : bool; s_name : string; s_fixed : option Z }.

Record cstyle := mkStyle {
  c_system : option csystem;
  c_negative : option (sym * sym);
  c_prefix : option sym;
  c_suffix : option sym;
  c_range : option crange;
  c_pad : option (Z * sym);
  c_fallback : option string;
  c_symbols : option (list sym);
  c_additive : option (list (Z * sym)) }.

Definition styles := list (string * cstyle).

Inductive cname := CName (n : string) | CSymbols (system : string) (args : list text) | CString (t : text).

Inductive outcome := ROk (t : text) | RExc | RFuel.

(* ------------------------------------------------------------------------------------------ helpers *)
Fixpoint lookup (n : string) (S : styles) : option cstyle :=
  match S with
  | [] => None
  | (k, c) :: tl => if String.eqb k n then Some c else lookup n tl
  end.
Definition has (S : styles) (n : string) : bool := match lookup n S with Some _ => true | None => false end.

(* Python: `name in previous_types` for a str name (tuples in the list never equal a str) *)
Definition mem_name (n : string) (l : list cname) : bool :=
  existsb (fun x => match x with CName m => String.eqb m n | _ => false end) l.

Definition text_eqb (a b : text) : bool :=
  (Nat.eqb (List.length a) (List.length b)) && forallb (fun p => Z.eqb (fst p) (snd p)) (combine a b).
Fixpoint texts_eqb (a b : list text) : bool :=
  match a, b with
  | [], [] => true
  | x :: a', y :: b' => text_eqb x y && texts_eqb a' b'
  | _, _ => false
  end.
Definition cname_eqb (a b : cname) : bool :=
  match a, b with
  | CName x, CName y => String.eqb x y
  | CSymbols s x, CSymbols t y => String.eqb s t && texts_eqb x y
  | CString x, CString y => text_eqb x y
  | _, _ => false
  end.
Definition mem_cname (c : cname) (l : list cname) : bool := existsb (cname_eqb c) l.

Definition orelse {A} (o : option A) (d : A) : A := match o with Some x => x | None => d end.

Definition dash : text := [45].
Definition default_negative : sym * sym := (SStr dash, SStr []).

(* (extends, system) as read by resolve_counter; with fixed_number as read by render_value *)
Definition sys_of (c : cstyle) : bool * string * option Z :=
  match c_system c with
  | Some s => (s_ext s, s_name s, s_fixed s)
  | None => (false, "symbolic"%string, None)
  end.

Definition set_system (c : cstyle) (s : option csystem) : cstyle :=
  mkStyle s (c_negative c) (c_prefix c) (c_suffix c) (c_range c) (c_pad c) (c_fallback c) (c_symbols c)
          (c_additive c).

Definition keep {A} (mine theirs : option A) : option A := match mine with None => theirs | _ => mine end.
(* for name, value in extended_counter.items(): if counter[name] is None and value is not None: copy *)
Definition merge (c ec : cstyle) : cstyle :=
  mkStyle (keep (c_system c) (c_system ec)) (keep (c_negative c) (c_negative ec))
          (keep (c_prefix c) (c_prefix ec)) (keep (c_suffix c) (c_suffix ec)) (keep (c_range c) (c_range ec))
          (keep (c_pad c) (c_pad ec)) (keep (c_fallback c) (c_fallback ec)) (keep (c_symbols c) (c_symbols ec))
          (keep (c_additive c) (c_additive ec)).

Definition loop_fuel (S : styles) : nat := Datatypes.S (Datatypes.S (Datatypes.S (List.length S))).

(* ---------------------------------------------------------------------------------- resolve_counter *)
Inductive rl_result := RLFuel | RLDone (c : cstyle) (pt : list cname).

(* the `while extends:` loop of resolve_counter *)
Fixpoint resolve_loop (fuel : nat) (S : styles) (c : cstyle) (ext : bool) (sys : string) (et : list cname)
  : rl_result :=
  (* et = extended_types: the names met on this extends chain (its own list, not the fallback list) *)
  if negb ext then RLDone c et else
  match fuel with
  | O => RLFuel
  | Datatypes.S f =>
    (* if system not in self and 'decimal' in self: system = 'decimal'   (extending an undefined style) *)
    let sys' := if has S sys then sys else if has S "decimal" then "decimal"%string else sys in
    match lookup sys' S with
    | None => RLDone c et                                        (* else: return counter *)
    | Some ec =>
      let c1 := set_system c (c_system ec) in
      let et1 := et ++ [CName sys'] in
      let '(ext1, sys1, _) := sys_of c1 in
      if ext1 && mem_name sys1 et1
      then (* a cycle: go on with ('extends', 'decimal'); the descriptors of the extended style are copied only
              when it is the cycle's entry point, i.e. a style that extends itself (cycle_start == extended_name) *)
           if String.eqb sys1 sys' then resolve_loop f S (merge c1 ec) true "decimal"%string et1
           else resolve_loop f S c1 true "decimal"%string et1
      else resolve_loop f S (merge c1 ec) ext1 sys1 et1
    end
  end.

Inductive resolved := ResNone | ResFuel | ResSome (c : cstyle).

Definition anonymous_style (system : csystem) (symbols : list sym) (suffix : text) : cstyle :=
  mkStyle (Some system) (Some default_negative) (Some (SStr [])) (Some (SStr suffix)) (Some RAuto)
          (Some (0, SStr [])) (Some "decimal"%string) (Some symbols) (Some []).

(* returns the counter and the previous_types list as the CALLER sees it afterwards *)
Definition resolve (S : styles) (cn : cname) (prev : option (list cname)) : resolved * option (list cname) :=
  match cn with
  | CString t =>
      (ResSome (anonymous_style (mkSys false "cyclic" None) [SStr t] []), prev)
  | CSymbols system args =>
      (ResSome (anonymous_style (mkSys false system (if String.eqb system "fixed" then Some 1 else None))
                                (map SStr args) [32]), prev)
  | CName n =>
      match lookup n S with
      | None => (ResNone, prev)
      | Some c0 =>
        if (match prev with Some l => mem_cname cn l | None => false end) then (ResNone, prev) else
        (* previous_types.append(counter_name); extended_types = [counter_name] *)
        let '(ext, sys, _) := sys_of c0 in
        match resolve_loop (loop_fuel S) S c0 ext sys [cn] with
        | RLFuel => (ResFuel, prev)
        | RLDone c _ => (ResSome c, match prev with Some l => Some (l ++ [cn]) | None => None end)
        end
      end
  end.

(* ------------------------------------------------------------------------------- the six algorithms *)
Inductive repr := RpInitial (t : text) | RpDecimal | RpFallback | RpExc | RpFuel.

Definition nth_sym (l : list sym) (i : Z) : text := symbol (nth (Z.to_nat i) l SUrl).
Definition zlen {A} (l : list A) : Z := Z.of_nat (List.length l).
Fixpoint rep_text (n : nat) (t : text) : text := match n with O => [] | Datatypes.S m => t ++ rep_text m t end.
Definition join_idx (l : list sym) (idx : list Z) : text := List.concat (map (nth_sym l) idx).

(* while v != 0: v -= 1; parts.append(v % k); v //= k   -- result most significant first *)
Fixpoint alpha_loop (fuel : nat) (k v : Z) (acc : list Z) : option (list Z) :=
  if v =? 0 then Some acc else
  match fuel with
  | O => None
  | Datatypes.S f => alpha_loop f k ((v - 1) / k) (((v - 1) mod k) :: acc)
  end.
(* while v != 0: parts.append(v % k); v //= k *)
Fixpoint num_loop (fuel : nat) (k v : Z) (acc : list Z) : option (list Z) :=
  if v =? 0 then Some acc else
  match fuel with
  | O => None
  | Datatypes.S f => num_loop f k (v / k) ((v mod k) :: acc)
  end.
Definition digit_fuel (v : Z) : nat := Datatypes.S (Z.to_nat (Z.log2 (Z.abs v))).

(* the additive loop; the chosen (weight, symbol) occurrences are returned in order *)
Fixpoint add_loop (l : list (Z * sym)) (rem : Z) (parts : list (Z * sym)) : option (list (Z * sym)) :=
  match l with
  | [] => None
  | (w, s) :: tl =>
    if w =? 0 then add_loop tl rem parts else
    let reps := rem / w in
    let parts' := parts ++ repeat (w, s) (Z.to_nat reps) in
    let rem' := rem - w * reps in
    if rem' =? 0 then Some parts' else add_loop tl rem' parts'
  end.
Definition add_zero (l : list (Z * sym)) : option text :=
  fold_left (fun acc ws => if fst ws =? 0 then Some (symbol (snd ws)) else acc) l None.
Definition join_parts (p : list (Z * sym)) : text := List.concat (map (fun ws => symbol (snd ws)) p).

Definition represent (c : cstyle) (sys : string) (fx : option Z) (v : Z) : repr :=
  if String.eqb sys "cyclic" then
    match c_symbols c with
    | None => RpExc
    | Some l => if zlen l <? 1 then RpDecimal else RpInitial (nth_sym l ((v - 1) mod zlen l))
    end
  else if String.eqb sys "fixed" then
    match c_symbols c with
    | None => RpExc
    | Some l =>
      if zlen l <? 1 then RpDecimal else
      match fx with
      | None => RpExc
      | Some first => let i := v - first in
                      if (0 <=? i) && (i <? zlen l) then RpInitial (nth_sym l i) else RpFallback
      end
    end
  else if String.eqb sys "symbolic" then
    match c_symbols c with
    | None => RpExc
    | Some l =>
      if zlen l <? 1 then RpDecimal else
      RpInitial (rep_text (Z.to_nat ((v - 1) / zlen l + 1)) (nth_sym l ((v - 1) mod zlen l)))
    end
  else if String.eqb sys "alphabetic" then
    match c_symbols c with
    | None => RpExc
    | Some l =>
      if zlen l <? 2 then RpDecimal else
      match alpha_loop (digit_fuel v) (zlen l) v [] with
      | None => RpFuel
      | Some idx => RpInitial (join_idx l idx)
      end
    end
  else if String.eqb sys "numeric" then
    match c_symbols c with
    | None => RpExc
    | Some l =>
      if v =? 0 then (match l with [] => RpExc | s :: _ => RpInitial (symbol s) end) else
      if zlen l <? 2 then RpDecimal else
      match num_loop (digit_fuel v) (zlen l) (Z.abs v) [] with
      | None => RpFuel
      | Some idx => RpInitial (join_idx l idx)
      end
    end
  else if String.eqb sys "additive" then
    match c_additive c with
    | None => RpExc
    | Some l =>
      if v =? 0 then (match add_zero l with Some t => RpInitial t | None => RpFallback end) else
      if zlen l <? 1 then RpDecimal else
      match add_loop l v [] with
      | Some parts => RpInitial (join_parts parts)
      | None => RpFallback
      end
    end
  else RpExc.   (* no branch taken: assert initial is not None *)

Definition uses_negative (sys : string) : bool :=
  String.eqb sys "symbolic" || String.eqb sys "alphabetic" || String.eqb sys "numeric" || String.eqb sys "additive".

(* steps 4-6 *)
Definition finish (c : cstyle) (use_neg : bool) (initial : text) : text :=
  let '(np, ns) := orelse (c_negative c) default_negative in
  let pad := orelse (c_pad c) (0, SStr []) in
  let diff := fst pad - zlen initial - (if use_neg then zlen (symbol np) + zlen (symbol ns) else 0) in
  let padded := if diff >? 0 then rep_text (Z.to_nat diff) (symbol (snd pad)) ++ initial else initial in
  if use_neg then symbol np ++ padded ++ symbol ns else padded.

(* step 2 *)
Definition le_lo (lo : bound) (v : Z) : bool :=
  match lo with BNegInf => true | BInt z => z <=? v | BPosInf => false end.
Definition le_hi (v : Z) (hi : bound) : bool :=
  match hi with BPosInf => true | BInt z => v <=? z | BNegInf => false end.
Inductive range_check := RgIn | RgOut | RgExc.
Fixpoint check_ranges (l : list ritem) (v : Z) : range_check :=
  match l with
  | [] => RgOut
  | RItemAuto :: _ => RgExc                     (* unpacking 'auto' would raise; unreachable through ranges_of *)
  | RItem lo hi :: tl => if le_lo lo v && le_hi v hi then RgIn else check_ranges tl v
  end.
Definition auto_range (sys : string) : ritem :=
  if String.eqb sys "alphabetic" || String.eqb sys "symbolic" then RItem (BInt 1) BPosInf
  else if String.eqb sys "additive" then RItem (BInt 0) BPosInf
  else RItem BNegInf BPosInf.
(* if counter['range'] is None or 'auto' in counter['range']: ... else: counter_ranges = counter['range'] *)
Definition has_auto_item (l : list ritem) : bool :=
  existsb (fun i => match i with RItemAuto => true | _ => false end) l.
Definition ranges_of (c : cstyle) (sys : string) : list ritem :=
  match c_range c with
  | None | Some RAuto => [auto_range sys]
  | Some (RList l) => if has_auto_item l then [auto_range sys] else l
  end.
Definition fallback_of (c : cstyle) : string := orelse (c_fallback c) "decimal"%string.

(* -------------------------------------------------------------------------------------- render_value *)
Inductive step :=
| Done (r : outcome)
| CallDecimal (v : Z)                                   (* return self.render_value(v, 'decimal') *)
| CallFallback (v : Z) (name : string) (prev : list cname).

(* the `while extends:` loop of render_value *)
Inductive el_result := ELFuel | ELDecimal | ELOk (c : cstyle) (sys : string) (fx : option Z) (pt : list cname).
Fixpoint extend_loop (fuel : nat) (S : styles) (c : cstyle) (ext : bool) (sys : string) (fx : option Z)
         (pt : list cname) : el_result :=
  if negb ext then ELOk c sys fx pt else
  match fuel with
  | O => ELFuel
  | Datatypes.S f =>
    match lookup sys S with
    | None => ELDecimal
    | Some ec =>
      let c1 := set_system c (c_system ec) in
      let '(ext1, sys1, fx1) := sys_of c1 in
      if mem_name sys1 pt then ELDecimal
      else extend_loop f S (merge c1 ec) ext1 sys1 fx1 (pt ++ [CName sys1])
    end
  end.

Definition render_resolved (c : cstyle) (sys : string) (fx : option Z) (prev : list cname) (v : Z) : step :=
  match check_ranges (ranges_of c sys) v with
  | RgExc => Done RExc
  | RgOut => CallFallback v (fallback_of c) prev
  | RgIn =>
    let use_neg := (v <? 0) && uses_negative sys in
    let v' := if use_neg then Z.abs v else v in
    match represent c sys fx v' with
    | RpExc => Done RExc
    | RpFuel => Done RFuel
    | RpDecimal => CallDecimal v'
    | RpFallback =>
        (* additive branch: `if is_negative: counter_value = -counter_value` before the fallback call *)
        CallFallback (if (v <? 0) && String.eqb sys "additive" then - v' else v') (fallback_of c) prev
    | RpInitial t => Done (ROk (finish c use_neg t))
    end
  end.

Definition render_step (S : styles) (v : Z) (cn : cname) (prev : option (list cname)) : step :=
  match resolve S cn prev with
  | (ResFuel, _) => Done RFuel
  | (ResNone, _) => if has S "decimal" then CallDecimal v else Done (ROk [])
  | (ResSome c, prev1) =>
    let '(ext, sys, fx) := sys_of c in
    (* circular fallbacks are avoided by resolve_counter: no test on the system keyword any more *)
    match extend_loop (loop_fuel S) S c ext sys fx (orelse prev1 [] ++ [cn]) with
    | ELFuel => Done RFuel
    | ELDecimal => CallDecimal v
    | ELOk c' sys' fx' pt => render_resolved c' sys' fx' pt v
    end
  end.

Fixpoint render (fuel : nat) (S : styles) (v : Z) (cn : cname) (prev : option (list cname)) : outcome :=
  match fuel with
  | O => RFuel
  | Datatypes.S f =>
    match render_step S v cn prev with
    | Done r => r
    | CallDecimal v' => render f S v' (CName "decimal") None
    | CallFallback v' n p => render f S v' (CName n) (Some p)
    end
  end.

(* enough for every well-formed dictionary (proofs/C15_total.v: render_fuel_sufficient) *)
Definition render_fuel (S : styles) : nat := (List.length S + 4)%nat.
Definition render_value (S : styles) (v : Z) (cn : cname) : outcome := render (render_fuel S) S v cn None.

(* render_marker *)
Definition dot_space : text := [46; 32].
Definition render_marker (S : styles) (cn : cname) (v : Z) : outcome :=
  let go (cn : cname) (c : cstyle) :=
    match render_value S v cn with
    | ROk t => ROk (symbol (orelse (c_prefix c) (SStr [])) ++ t ++ symbol (orelse (c_suffix c) (SStr dot_space)))
    | r => r
    end in
  match resolve S cn None with
  | (ResFuel, _) => RFuel
  | (ResSome c, _) => go cn c
  | (ResNone, _) =>
    if has S "decimal" then
      match resolve S (CName "decimal") None with
      | (ResSome c, _) => go (CName "decimal") c
      | (ResFuel, _) => RFuel
      | (ResNone, _) => RFuel      (* unreachable: 'decimal' in self *)
      end
    else ROk []
  end.

(* -------------------------------------------------------------------------- correspondence judge *)
(* texts are written in the case files as UTF-8 string literals (cheap to parse) and decoded here *)
From Coq Require Import Ascii.
Fixpoint utf8_decode (l : list Z) : list Z :=
  match l with
  | [] => []
  | b :: tl =>
    if b <? 128 then b :: utf8_decode tl
    else if b <? 224 then
      match tl with c :: tl2 => ((b - 192) * 64 + (c - 128)) :: utf8_decode tl2 | _ => [] end
    else if b <? 240 then
      match tl with c :: d :: tl3 => ((b - 224) * 4096 + (c - 128) * 64 + (d - 128)) :: utf8_decode tl3 | _ => [] end
    else
      match tl with
      | c :: d :: e :: tl4 => ((b - 240) * 262144 + (c - 128) * 4096 + (d - 128) * 64 + (e - 128)) :: utf8_decode tl4
      | _ => []
      end
  end.
Definition u (s : string) : text := utf8_decode (map (fun a => Z.of_N (N_of_ascii a)) (list_ascii_of_string s)).

Definition outcome_eqb (a b : outcome) : bool :=
  match a, b with
  | ROk x, ROk y => text_eqb x y
  | RExc, RExc => true
  | RFuel, RFuel => true
  | _, _ => false
  end.
