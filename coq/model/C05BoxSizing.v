(* C05: box-sizing (layout/percent.py adjust_box_sizing) - hand model, specification, box layout.  Definitions only. *)
From Coq Require Import QArith Qminmax List String Bool.
Require Import WV.base.Py.
Import ListNotations.
Open Scope string_scope.
Open Scope Q_scope.

Inductive sizing := ContentBox | PaddingBox | BorderBox.
Definition sizing_kw (s : sizing) : string :=
  match s with ContentBox => "content-box" | PaddingBox => "padding-box" | BorderBox => "border-box" end.
Definition sizing_of (s : string) : option sizing :=
  if String.eqb s "border-box" then Some BorderBox
  else if String.eqb s "padding-box" then Some PaddingBox
  else if String.eqb s "content-box" then Some ContentBox else None.

(* the used paddings and border widths on one axis (left/right or top/bottom) *)
Record edges := mkEdges { pad_a : Q; pad_b : Q; bor_a : Q; bor_b : Q }.
Definition edges_nonneg (e : edges) : Prop := 0 <= pad_a e /\ 0 <= pad_b e /\ 0 <= bor_a e /\ 0 <= bor_b e.
(* the three sizes of one axis as resolve_percentages leaves them: size and min-size may be 'auto' (None) *)
Record sizes := mkSizes { sz : option Q; sz_min : option Q; sz_max : Q }.

(* ---- model: follows the Python text of adjust_box_sizing *)
Definition bs_delta (s : sizing) (e : edges) : Q :=
  match s with
  | BorderBox => pad_a e + pad_b e + bor_a e + bor_b e
  | PaddingBox => pad_a e + pad_b e
  | ContentBox => 0
  end.
Definition shrink (d x : Q) : Q := Qmax 0 (x - d).
Definition adjust (s : sizing) (e : edges) (z : sizes) : sizes :=
  let d := bs_delta s e in
  if Qle_bool d 0 then z       (* `if delta > 0:` *)
  else mkSizes (option_map (shrink d) (sz z)) (option_map (shrink d) (sz_min z)) (shrink d (sz_max z)).

(* ---- specification, from the property text: box-sizing names the box that the declared size measures.
   [extent s e c] is the size, on this axis, of that box when the content box has size c. *)
Definition extent (s : sizing) (e : edges) (c : Q) : Q :=
  match s with
  | ContentBox => c
  | PaddingBox => pad_a e + c + pad_b e
  | BorderBox => bor_a e + pad_a e + c + pad_b e + bor_b e
  end.
(* declared size d, used content size c: the named box measures d; when the paddings/borders alone exceed d the
   content size is floored at 0 (CSS Basic UI 3, box-sizing: "the content width and height are floored at 0") *)
Definition measures (s : sizing) (e : edges) (d c : Q) : Prop :=
  (extent s e 0 <= d -> extent s e c == d) /\ (~ extent s e 0 <= d -> c == 0).
Definition measures_opt (s : sizing) (e : edges) (d c : option Q) : Prop :=
  match d, c with
  | Some d, Some c => 0 <= d -> measures s e d c
  | None, None => True          (* auto stays auto *)
  | _, _ => False
  end.
Definition adjust_spec (s : sizing) (e : edges) (z z' : sizes) : Prop :=
  measures_opt s e (sz z) (sz z') /\ measures_opt s e (sz_min z) (sz_min z') /\
  (0 <= sz_max z -> measures s e (sz_max z) (sz_max z')).

(* ---- values of the embedding *)
Definition vo (o : option Q) : val := match o with Some q => VNum q | None => VStr "auto" end.
(* v represents o, numbers up to == *)
Definition rep (v : val) (o : option Q) : Prop :=
  match v, o with VNum x, Some y => x == y | VStr s, None => s = "auto" | _, _ => False end.
Definition repq (v : val) (q : Q) : Prop := match v with VNum x => x == q | _ => False end.

(* a box: the style (box_sizing first), the eight edges, the six sizes; [srest], [rest]: any other entries.
   (objects are association lists in Py.v; the order of the entries cannot be observed by the translated code) *)
Definition bsbox (bsz : val) (srest : list (string * val)) (pl pr pt pb bl br bt bb w mnw mxw h mnh mxh : val)
           (rest : list (string * val)) : val :=
  VObj (("style", VObj (("box_sizing", bsz) :: srest)) ::
        ("padding_left", pl) :: ("padding_right", pr) :: ("padding_top", pt) :: ("padding_bottom", pb) ::
        ("border_left_width", bl) :: ("border_right_width", br) :: ("border_top_width", bt) :: ("border_bottom_width", bb) ::
        ("width", w) :: ("min_width", mnw) :: ("max_width", mxw) ::
        ("height", h) :: ("min_height", mnh) :: ("max_height", mxh) :: rest).
