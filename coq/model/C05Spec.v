(* C05: the regenerated models against the implementation (depends on coq/gen). *)
From Coq Require Import QArith Qminmax List String Bool.
Require Import WV.base.Py WV.gen.GenBlock.
Require Export WV.model.C05SpecPure.
Import ListNotations.
Open Scope string_scope.
Open Scope list_scope.
Open Scope Q_scope.

(* model output: the four mutated fields, or VErr when the run raises *)
Definition blw_model (ml mr w : val) (pl pr bl br px cbw : Q) (mode : nat) : list val :=
  run real_ops block_level_width_body (mk_env ml mr w pl pr bl br px cbw mode)
      (fun rho _ => let b := lookup "box" rho in
                    [fld b "margin_left"; fld b "margin_right"; fld b "width"; fld b "position_x"])
      (fun m => [VErr m]).

(* bit 0: model <> implementation ; bit 1: implementation output violates the specification *)
Definition blw_judge (c : (val * val * val) * (Q * Q * Q * Q * Q * Q) * nat * list val) : nat :=
  let '(ml, mr, w, (pl, pr, bl, br, px, cbw), mode, out) := c in
  ((if vals_eqb (blw_model ml mr w pl pr bl br px cbw mode) out then 0 else 1) +
  (if width_spec_b ml mr w pl pr bl br px cbw mode out then 0 else 2))%nat.

(* collapse_margin *)
Definition collapse_model (ms : list Q) : val :=
  run real_ops collapse_margin_body [("adjoining_margins", VList (map VNum ms))]
      (fun _ r => match r with Some v => v | None => VNone end) (fun m => VErr m).
Definition collapse_judge (c : list Q * val) : nat :=
  let '(ms, out) := c in
  ((if val_eqb (collapse_model ms) out then 0 else 1) +
  (if val_eqb (VNum (collapse_spec_q ms)) out then 0 else 2))%nat.
