(* C09 - the specification of the first line of a text run, written from the property text / CSS Text 3, not
   from the code: greedy (first-fit) choice among the break opportunities allowed by white-space / hyphens /
   overflow-wrap / word-break.  Definitions only. *)
From Coq Require Import ZArith QArith List Bool.
Require Import WV.model.C09Line.
Import ListNotations.
Open Scope Z_scope.

(* soft wrap opportunities inside a paragraph p (positions 1..len-1): after a run of spaces, after a soft hyphen
   when hyphens: manual *)
Definition opportunity (hyph : bool) (a b : ch) : bool :=
  (is_sp a && negb (is_sp b)) || (hyph && is_shy a).
Fixpoint opps_from (hyph : bool) (a : ch) (rest : text) (i : nat) : list nat :=
  match rest with
  | [] => []
  | b :: rest' => if opportunity hyph a b then i :: opps_from hyph b rest' (S i) else opps_from hyph b rest' (S i)
  end.
Definition opps (hyph : bool) (p : text) : list nat :=
  match p with [] => [] | a :: rest => opps_from hyph a rest 1 end.

(* advance (em) of the line p[:i]: spaces at the end of a line hang, a soft hyphen at the end shows a hyphen *)
Definition line_em (p : text) (i : nat) : Z :=
  let l := firstn i p in
  visw (rstrip l) + (if (i <? length p)%nat && ends_with is_shy l then 1 else 0).

Definition fits_em (fs w : Q) (em : Z) : bool := Qle_bool (inject_Z em * fs)%Q w.

(* last candidate that fits, scanning from the left and stopping at the first that does not *)
Fixpoint last_fit (fs w : Q) (p : text) (cands : list nat) (best : option nat) : option nat :=
  match cands with
  | [] => best
  | i :: r => if fits_em fs w (line_em p i) then last_fit fs w p r (Some i) else best
  end.

(* longest prefix of at least one character that fits (break-all / overflow-wrap) *)
Fixpoint char_fit (fs w : Q) (p : text) (i j n : nat) : nat :=     (* strictly inside the unit p[:i] *)
  match n with
  | O => j
  | S n' => if (S j <? i)%nat && fits_em fs w (visw (firstn (S j) p)) then char_fit fs w p i (S j) n' else j
  end.

Record spec_line := { sp_end : nat;             (* characters of the line box content *)
                      sp_next : option nat;     (* where the next line starts; None = end of the text *)
                      sp_hyphen : bool;         (* a hyphen is shown at the end *)
                      sp_kind : nat }.          (* 0 no wrapping, 1 fits, 2 one unbreakable unit overflows, 3 broken inside a unit *)

Definition can_break_inside (st : style) (ils mini : bool) : bool :=
  st_break_all st || (ils && match st_ow st with OwAnywhere => true | OwBreakWord => negb mini | OwNormal => false end).

Definition spec_first_line (st : style) (t : text) (mw : option Q) (ils mini : bool) : spec_line :=
  let p := para t in
  let n := length p in
  let collapse := space_collapse (st_ws st) in
  let endr := if has_ch is_nl t then Some (S n) else None in
  let strip (i : nat) := if collapse then length (rstrip (firstn i p)) else i in
  let whole k := {| sp_end := strip n; sp_next := endr; sp_hyphen := false; sp_kind := k |} in
  match (if text_wrap (st_ws st) then mw else None) with
  | None => whole 0%nat
  | Some w =>
      let w := if Qle_bool 0 w then w else 0%Q in
      let fs := st_fs st in
      let cands := opps (st_hyph_manual st) p ++ [n] in
      match last_fit fs w p cands None with
      | Some i =>
          if (i =? n)%nat then whole 1%nat
          else {| sp_end := strip i; sp_next := Some i; sp_hyphen := ends_with is_shy (firstn i p); sp_kind := 1 |}
      | None =>
          let i := hd n cands in
          let j := if can_break_inside st ils mini then char_fit fs w p i 1 i else i in
          if (j <? i)%nat then {| sp_end := j; sp_next := Some j; sp_hyphen := false; sp_kind := 3 |}
          else if (i =? n)%nat then whole 2%nat
          else {| sp_end := strip i; sp_next := Some i; sp_hyphen := ends_with is_shy (firstn i p); sp_kind := 2 |}
      end
  end.

(* ---- the implementation's (or the model's) outcome read in the same terms *)
Definition norm_next (t : text) (r : option nat) : option nat :=
  match r with Some k => if (length t <=? k)%nat then None else Some k | None => None end.

Definition read_outcome (st : style) (t : text) (o : outcome) : option (nat * option nat * bool * bool) :=
  match o with
  | Raise _ => None
  | Out lt len res wd =>
      match bytes_prefix t len, match res with Some r => option_map Some (bytes_prefix t r) | None => Some None end with
      | Some l, Some r =>
          let e := length (if space_collapse (st_ws st) then rstrip l else l) in
          let hy := ends_with is_hy lt in
          let wd_ok := Qeq_bool wd (inject_Z (visw l + (if hy then 1 else 0)) * st_fs st)%Q in
          Some (e, norm_next t (option_map (@length ch) r), hy, wd_ok)
      | _, _ => None
      end
  end.

Fixpoint rstrip_shy (t : text) : text :=
  match t with
  | [] => []
  | c :: t' => match rstrip_shy t' with [] => if is_shy c then [] else [c] | r => c :: r end
  end.
(* first position >= i of t that does not hold a soft hyphen *)
Definition skip_shy (t : text) (i : nat) : nat :=
  i + length (fst (List.fold_left (fun '(acc, go) c => if go && is_shy c then (c :: acc, true) else (acc, false))
                                  (skipn i t) ([], true))).

(* bit 1: line end / next start differ from the greedy spec, bit 2: hyphen flag differs, bit 3: reported width is
   not the advance of the reported text, bit 4: unreadable outcome (exception / cut inside a character) *)
Definition spec_mask (st : style) (t : text) (mw : option Q) (ils mini : bool) (o : outcome) : nat :=
  let s := spec_first_line st t mw ils mini in
  match read_outcome st t o with
  | None => 16%nat
  | Some (e, r, hy, wd_ok) =>
      (* when no hyphen is shown, an (invisible) soft hyphen may sit on either side of a break made inside a word *)
      let same_end := (e =? sp_end s)%nat ||
                      (negb hy && negb (sp_hyphen s) &&
                       (length (rstrip_shy (firstn e t)) =? length (rstrip_shy (firstn (sp_end s) t)))%nat) in
      let same_next := match r, norm_next t (sp_next s) with
                       | Some a, Some b => (a =? b)%nat ||
                                           (negb hy && negb (sp_hyphen s) && (skip_shy t a =? skip_shy t b)%nat)
                       | None, None => true | _, _ => false end in
      ((if same_end && same_next then 0 else 2) +
       (if Bool.eqb hy (sp_hyphen s) then 0 else 4) +
       (if wd_ok then 0 else 8))%nat
  end.

(* ---- word lists: the texts of the theorems *)
Definition is_word (w : text) : bool := match w with [] => false | _ => forallb is_letter w end.
Fixpoint join (ws : list text) : text :=
  match ws with
  | [] => []
  | [w] => w
  | w :: r => w ++ Sp :: join r
  end.
(* characters of the first k words laid on one line (without the space that follows) *)
Definition wlen (ws : list text) (k : nat) : nat := length (join (firstn k ws)).
Definition fits_chars (fs w : Q) (n : nat) : Prop := (inject_Z (Z.of_nat n) * fs <= w)%Q.

(* ---- the guard of the greedy theorem, as a decidable predicate on the input text *)
(* the words of a text: the maximal runs between spaces (join (words_of t) = t for every t) *)
Fixpoint words_of (t : text) : list text :=
  match t with
  | [] => [[]]
  | c :: t' => if is_sp c then [] :: words_of t'
               else match words_of t' with w :: r => (c :: w) :: r | [] => [[c]] end
  end.
(* ordinary text: non-empty words of letters separated by single spaces, no space at either end, no newline,
   no soft hyphen *)
Definition plain_text (t : text) : bool := forallb is_word (words_of t).

(* the complementary guard of the refuted clauses: ordinary text; a wrapping white-space value; a positive font
   size; an available width below Pango's 2^21 limit; and either words may not be broken (no break-all, no
   overflow-wrap at a line start) or the first word fits (so that step 5 is not entered) *)
Definition greedy_guard (st : style) (t : text) (mw : Q) (ils mini : bool) : bool :=
  plain_text t && text_wrap (st_ws st) && negb (Qle_bool (st_fs st) 0) && negb (Qle_bool two21 mw) &&
  (negb (can_break_inside st ils mini) ||
   Qle_bool (inject_Z (Z.of_nat (wlen (words_of t) 1)) * st_fs st)%Q mw).
(* ... for every line of the paragraph: every word fits, or words may not be broken *)
Definition greedy_guard_all (st : style) (t : text) (mw : Q) (mini : bool) : bool :=
  plain_text t && text_wrap (st_ws st) && negb (Qle_bool (st_fs st) 0) && negb (Qle_bool two21 mw) &&
  (negb (can_break_inside st true mini) ||
   forallb (fun w => Qle_bool (inject_Z (Z.of_nat (length w)) * st_fs st)%Q mw) (words_of t)).

(* the greedy line made of the k first words: its text (preserved spaces hang at the end of the line under
   pre-wrap), the white space skipped after it, what remains *)
Definition line_of (collapse : bool) (ws : list text) (k : nat) : text :=
  join (firstn k ws) ++ (if collapse || (k =? length ws)%nat then [] else [Sp]).
Definition skipped_of (collapse : bool) (ws : list text) (k : nat) : text :=
  if (k =? length ws)%nat then [] else if collapse then [Sp] else [].
Definition rest_of (ws : list text) (k : nat) : text := join (skipn k ws).

(* ---- all the lines of a text box: split_text_box called again from the resume point (inline.py), leading
   collapsible spaces skipped before each call (skip_first_whitespace).  Each item is (line, white space skipped
   after it).  None = an exception, no progress (resume_index = 0 is an assert in split_text_box) or not enough
   fuel. *)
Fixpoint lstrip (t : text) : text * text :=
  match t with
  | c :: t' => if is_sp c then let '(s, r) := lstrip t' in (c :: s, r) else ([], t)
  | [] => ([], [])
  end.
Fixpoint split_lines (fuel : nat) (st : style) (t : text) (mw : Q) (mini : bool) : option (list (text * text)) :=
  match fuel with
  | O => None
  | S f =>
      match sfl_model st t (Some mw) true mini with
      | Raise _ => None
      | Out _ len res _ =>
          match bytes_prefix t len, res with
          | None, _ => None
          | Some line, None =>
              match bytes_suffix t len with Some tail => Some [(line, tail)] | None => None end
          | Some line, Some r =>
              match bytes_prefix t r, bytes_suffix t r with
              | Some upto, Some rest0 =>
                  if r <=? 0 then None
                  else
                    let between := skipn (length line) upto in
                    let '(sp, rest) := if space_collapse (st_ws st) then lstrip rest0 else ([], rest0) in
                    match rest with
                    | [] => Some [(line, between ++ sp)]
                    | _ :: _ => match split_lines f st rest mw mini with
                                | Some ls => Some ((line, between ++ sp) :: ls)
                                | None => None
                                end
                    end
              | _, _ => None
              end
          end
      end
  end.
