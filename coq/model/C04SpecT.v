(* C04: the translated source of the break fold against the implementation (depends on coq/gen). *)
From Coq Require Import QArith List String Bool.
Require Import WV.base.Py WV.gen.GenBlock WV.model.Frag2 WV.model.C04Spec.
Import ListNotations.
Open Scope string_scope.
Definition fold_translated (l : list brk) : string :=
  run real_ops break_fold_body [("values", VList (map (fun b => VStr (bname b)) l))]
      (fun _ r => match r with Some (VStr s) => s | _ => "?" end) (fun m => m).
(* 1 when the interpreter on the regenerated body disagrees with the implementation *)
Definition foldT_judge (c : list brk * brk) : nat :=
  let '(l, out) := c in if String.eqb (fold_translated l) (bname out) then 0%nat else 1%nat.
