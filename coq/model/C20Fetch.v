(* C20 - model of weasyprint/urls.py `fetch` (a context manager around the caller's url_fetcher) and of the four
   consumers that use it: get_image_from_uri (images.py), CSS(url=...) through _select_source (__init__.py) as
   called by find_stylesheets / @import, FontConfiguration.add_font_face (text/fonts.py, one src) and
   write_pdf_attachment (pdf/anchors.py).  The fetcher is a Section variable: any function from URLs to
   `Raise | not-a-dict | Dict fields`.  Definitions only. *)
From Coq Require Import List String Bool Arith.
Import ListNotations.
Open Scope string_scope.

(* a Python exception instance: class name, str(exc), whether the class derives from Exception
   (false: KeyboardInterrupt, SystemExit, GeneratorExit - BaseException only), and whether it is one of the
   errors the except clause of fetch() converts when they cross the with block: EOFError,
   http.client.HTTPException, OSError (TimeoutError, ConnectionResetError, ...), zlib.error *)
Record exn := { e_name : string; e_msg : string; e_is_exception : bool; e_is_io : bool }.

Inductive pyerr :=
| URLFetchingError (msg : string)
| Raised (e : exn)                        (* an exception travelling unchanged *)
| AttributeError (attr : string)          (* result.setdefault on something that is not a dict *)
| KeyError (key : string).                (* result['file_obj'] on a dict without data *)

Definition pyerr_is_exception (e : pyerr) : bool :=
  match e with Raised x => e_is_exception x | _ => true end.

Inductive readres := ReadOk (data : string) | ReadRaises (e : exn).
Record fileobj := { fo_id : nat; fo_read : readres; fo_close_raises : bool }.

(* the keys of the returned dict that the code looks at *)
Record fdict := { d_string : option string;
                  d_file : option fileobj;
                  d_mime : option (option string);     (* key absent | present (value may be None) *)
                  d_redirected : option string }.

Inductive fret := FRaise (e : exn) | FNotDict | FDict (d : fdict).

Inductive event :=
| Called (url : string)                   (* url_fetcher(url) *)
| ReadEv (id : nat)                       (* file_obj.read() *)
| Closed (id : nat)                       (* file_obj.close() *)
| CloseWarning (url : string).            (* 'Error when closing stream for %s' *)

Inductive outcome (A : Type) := Val (a : A) | Exc (e : pyerr).
Arguments Val {A} a.
Arguments Exc {A} e.

Inductive logrec := LogError (what url : string) | LogWarning (what url : string) | LogDebug (what url : string).

Definition setdefaults (url : string) (d : fdict) : fdict :=
  {| d_string := d_string d; d_file := d_file d;
     d_mime := match d_mime d with None => Some None | m => m end;
     d_redirected := match d_redirected d with None => Some url | r => r end |}.

Section Fetch.
  Variable fetcher : string -> fret.

  (* an error crossing the with block while a stream is in use (file_obj present):
     except URLFetchingError: raise / except (EOFError, HTTPException, OSError, zlib.error): URLFetchingError *)
  Definition convert_stream_error {A : Type} (r : outcome A) : outcome A :=
    match r with
    | Exc (Raised e) => if e_is_io e then Exc (URLFetchingError (e_name e ++ ": " ++ e_msg e)) else r
    | _ => r
    end.

  (* with fetch(url_fetcher, url) as result: body(result) *)
  Definition fetch {A : Type} (url : string) (body : fdict -> outcome A * list event)
    : outcome A * list event :=
    match fetcher url with
    | FRaise e =>
        if e_is_exception e
        then (Exc (URLFetchingError (e_name e ++ ": " ++ e_msg e)), [Called url])
        else (Exc (Raised e), [Called url])
    | FNotDict => (Exc (AttributeError "setdefault"), [Called url])
    | FDict d =>
        let d' := setdefaults url d in
        let '(r, ev) := body d' in
        match d_file d' with
        | Some f => (convert_stream_error r, Called url :: ev ++ Closed (fo_id f) ::
                        (if fo_close_raises f then [CloseWarning url] else []))
        | None => (r, Called url :: ev)
        end
    end.

  (* FetchedStream.read: the with block is given the caller's file object wrapped; an Exception of any class
     raised by its read() is raised as URLFetchingError("Name: message") at the call, a BaseException outside
     Exception travels unchanged *)
  Definition stream_read (f : fileobj) : outcome string :=
    match fo_read f with
    | ReadOk s => Val s
    | ReadRaises e => if e_is_exception e
                      then Exc (URLFetchingError (e_name e ++ ": " ++ e_msg e))
                      else Exc (Raised e)
    end.

  (* result['string'] if 'string' in result else result['file_obj'].read() *)
  Definition read_payload (d : fdict) : outcome string * list event :=
    match d_string d with
    | Some s => (Val s, [])
    | None =>
        match d_file d with
        | Some f => (stream_read f, [ReadEv (fo_id f)])
        | None => (Exc (KeyError "file_obj"), [])
        end
    end.

  Definition mime_value (d : fdict) : option string :=
    match d_mime d with Some m => m | None => None end.

  (* which consumer: what it checks before reading and what its except clause catches *)
  Inductive consumer := CImage | CLinkSheet | CImportSheet | CFontSrc | CAttachment | CUseSvg.

  Definition checks_css_mime (c : consumer) : bool :=
    match c with CLinkSheet => true | _ => false end.
  Definition catches (c : consumer) (e : pyerr) : bool :=
    match c with
    | CFontSrc | CUseSvg => pyerr_is_exception e              (* except Exception *)
    | _ => match e with URLFetchingError _ => true | _ => false end
    end.

  Definition is_css (m : option string) : bool :=
    match m with Some s => s =? "text/css" | None => false end.

  Definition what_failed (c : consumer) : string :=
    match c with
    | CImage => "Failed to load image"
    | CLinkSheet | CImportSheet => "Failed to load stylesheet"
    | CFontSrc => "Failed to load font"
    | CAttachment => "Failed to load attachment"
    | CUseSvg => "Failed to load SVG"
    end.

  (* the payload the consumer gets: Some bytes | None (the resource is treated as absent, logged) | escape *)
  Definition consume (c : consumer) (url : string)
    : outcome (option (string * option string)) * list event * list logrec :=
    let '(r, ev) :=
      fetch url (fun d =>
        if checks_css_mime c && negb (is_css (mime_value d))
        then (Val (None : option (string * option string)), [])       (* 'Unsupported stylesheet type' *)
        else match read_payload d with
             | (Val s, ev) => (Val (Some (s, mime_value d)), ev)
             | (Exc e, ev) => (Exc e, ev)
             end) in
    match r with
    | Val (Some p) => (Val (Some p), ev, [])
    | Val None => (Val None, ev, [LogError "Unsupported stylesheet type" url])
    | Exc e =>
        if catches c e
        then (Val None, ev,
              [match c with CFontSrc => LogDebug (what_failed c) url | _ => LogError (what_failed c) url end])
        else (Exc e, ev, [])
    end.
End Fetch.

(* ---- judge for the correspondence stream "consume-direct":
   the harness describes the fetcher's answer for the one URL of the case and reports what the real consumer
   did: 0 = payload used, 1 = treated as absent, 2 = an exception escaped (with its class name);
   the events the recording fetcher saw; whether an ERROR/WARNING (DEBUG for fonts) record was emitted *)
Definition consumer_of_nat (n : nat) : consumer :=
  match n with 0 => CImage | 1 => CLinkSheet | 2 => CImportSheet | 3 => CFontSrc | 4 => CAttachment | _ => CUseSvg end.

Definition event_eqb (a b : event) : bool :=
  match a, b with
  | Called x, Called y => x =? y
  | ReadEv x, ReadEv y => Nat.eqb x y
  | Closed x, Closed y => Nat.eqb x y
  | CloseWarning x, CloseWarning y => x =? y
  | _, _ => false
  end.
Fixpoint events_eqb (a b : list event) : bool :=
  match a, b with
  | [], [] => true
  | x :: a', y :: b' => event_eqb x y && events_eqb a' b'
  | _, _ => false
  end.

Definition escaped_name (e : pyerr) : string :=
  match e with
  | URLFetchingError _ => "URLFetchingError"
  | Raised x => e_name x
  | AttributeError _ => "AttributeError"
  | KeyError _ => "KeyError"
  end.

Definition consume_judge (c : nat * fret * (nat * string * list event * bool)) : nat :=
  let '(k, fr, (code, name, evs, logged)) := c in
  let '(r, ev, logs) := consume (fun _ => fr) (consumer_of_nat k) "u" in
  let ok_outcome :=
    match r with
    | Val (Some _) => Nat.eqb code 0
    | Val None => Nat.eqb code 1
    | Exc e => Nat.eqb code 2 && (escaped_name e =? name)
    end in
  let ok_log := match logs with [] => negb logged || match r with Val (Some _) => true | _ => false end
                           | _ => logged end in
  (if ok_outcome && events_eqb ev evs && ok_log then 0 else 1) +
  (* bit 1: the property - a failure of the fetch (an Exception raised by the call or by the read, or an
     answer without data) must not escape, and must be logged *)
  (match fr with
   | FRaise e => if e_is_exception e && Nat.eqb code 2 then 2 else 0
   | FDict d => match d_string d, d_file d with
                | None, Some f => match fo_read f with
                                  | ReadRaises e => if e_is_exception e && Nat.eqb code 2 then 2 else 0
                                  | _ => 0
                                  end
                | _, _ => 0
                end
   | FNotDict => 0
   end).
