(* C05: how the calls of the regenerated resolve_percentages are interpreted (depends on coq/gen).  Definitions only. *)
From Coq Require Import QArith Qminmax List String Bool.
Require Import WV.base.Py WV.base.PyLink WV.gen.GenPercent WV.gen.GenResolve WV.gen.GenBoxSizing
        WV.model.C05SpecPure WV.model.C05BoxSizing WV.model.C05Resolve.
Import ListNotations.
Open Scope string_scope.
Open Scope list_scope.
Open Scope Q_scope.

Definition T : table := GenPercent_table ++ GenResolve_table ++ GenBoxSizing_table.
(* a call whose callee mutates its first argument `box` (objects are values in Py.v): the answer is the list
   [returned value; the box afterwards], as the printed statement  %call, box = f(box, ...)  expects *)
Definition call_mut (O : qops) (d : fn) (args : list val) : val :=
  match PyLink.bind (fst d) args with
  | None => VErr "TypeError"
  | Some rho => run O (snd d) rho
                    (fun rho' r => VList [match r with Some v => v | None => VNone end; lookup "box" rho']) VErr
  end.
(* f(box, 'name', ...) with a constant name runs the specialisation "f[name]" of the translator *)
Definition spec_name (f c : string) : string := f ++ "[" ++ c ++ "]".
Fixpoint rlink (ha : string -> bool) (n : nat) (f : string) (args : list val) : val :=
  match n with
  | Datatypes.O => VErr "RecursionError"
  | S n' =>
      let O' := with_calls real_ops (rlink ha n') in
      if String.eqb f "hasattr" then match args with [_; VStr a] => VBool (ha a) | _ => VErr "TypeError" end
      else if String.eqb f "resolve_one_percentage" then
        match args with
        | [b; VStr name; r] =>
            match find_fn (spec_name f name) T with Some d => call_mut O' d [b; r] | None => VErr "NameError" end
        | _ => VErr "TypeError" end
      else if String.eqb f "adjust_box_sizing" then
        match args with
        | [b; VStr axis] =>
            match find_fn (spec_name f axis) T with Some d => call_mut O' d [b] | None => VErr "NameError" end
        | _ => VErr "TypeError" end
      else match find_fn f T with Some d => call_body O' d args | None => VErr "NameError" end
  end.
Definition rlinked (ha : string -> bool) (n : nat) : qops := with_calls real_ops (rlink ha n).

(* ---- correspondence judge (bit 0): the interpreter on the regenerated text, calls linked, against CPython.
   case: ((box-sizing keyword, border-collapse is collapse, has border_{left,right,top,bottom}_width already),
          the fourteen computed lengths, the four computed border widths, (cb width, cb height), the 18 used values
          of the implementation in the order of [used_list]) *)
Definition used_names : list string :=
  ["margin_left"; "margin_right"; "margin_top"; "margin_bottom"; "padding_left"; "padding_right"; "padding_top";
   "padding_bottom"; "border_left_width"; "border_right_width"; "border_top_width"; "border_bottom_width";
   "width"; "min_width"; "max_width"; "height"; "min_height"; "max_height"].
Definition rp_case := ((string * bool * (bool * bool * bool * bool)) * list cval * (Q * Q * Q * Q) * (Q * option Q) * list val)%type.
Definition rp_interp (c : rp_case) : list val :=
  let '((kw, collapse, h4), cs, (sbl, sbr, sbt, sbb), (cbw, cbh), _) := c in
  match style_of_list cs with
  | None => [VErr "case"]
  | Some s =>
      run (rlinked (ha_of h4) 3) resolve_percentages_body
        [("box", rbox (VStr kw) (bcv collapse) (VNum sbl) (VNum sbr) (VNum sbt) (VNum sbb) s used0 [] []);
         ("containing_block", VList [VNum cbw; vo cbh]); ("box_is_page", VBool false); ("inf", VNum 0)]
        (fun rho _ => map (fld (lookup "box" rho)) used_names) (fun m => [VErr m])
  end.
Definition rp_corr_judge (c : rp_case) : nat :=
  let '(_, _, _, _, out) := c in if vals_eqb (rp_interp c) out then 0%nat else 1%nat.
