(* C07 - component values as WeasyPrint sees them (tinycss2 nodes), and the helper functions of
   weasyprint/css/utils.py that look at their shape: remove_whitespace, get_keyword, get_single_keyword,
   parse_function, check_var_function.  Definitions only. *)
From Coq Require Import ZArith QArith List Bool String Ascii.
Import ListNotations.
Open Scope string_scope.

(* A component value.  Leaves that the modelled code never inspects beyond their type are [TAtom id]
   (dimension, percentage, string, url, hash, at-keyword, unicode-range: id names the source token). *)
Inductive tok : Type :=
| TIdent (v lv : string)                 (* IdentToken: value, lower_value *)
| TLit (v : string)                      (* LiteralToken: delimiters , / : ! ... and the unmatched ) ] } *)
| TWs                                    (* WhitespaceToken *)
| TComment                               (* Comment *)
| TNum (v : Q) (iv : option Z)           (* NumberToken: value, int_value *)
| TAtom (id : Z)
| TFunc (n ln : string) (args : list tok)  (* FunctionBlock: name, lower_name, arguments *)
| TBlock (k : Z) (content : list tok).   (* () [] {} blocks: 0 1 2 *)

Definition opt_z_eqb (a b : option Z) : bool :=
  match a, b with Some x, Some y => Z.eqb x y | None, None => true | _, _ => false end.

Fixpoint tok_eqb (a b : tok) {struct a} : bool :=
  match a, b with
  | TIdent v lv, TIdent v' lv' => String.eqb v v' && String.eqb lv lv'
  | TLit v, TLit v' => String.eqb v v'
  | TWs, TWs => true
  | TComment, TComment => true
  | TNum v iv, TNum v' iv' => Qeq_bool v v' && opt_z_eqb iv iv'
  | TAtom i, TAtom j => Z.eqb i j
  | TFunc n ln xs, TFunc n' ln' ys =>
      String.eqb n n' && String.eqb ln ln' &&
      (fix go (xs ys : list tok) {struct xs} : bool :=
         match xs, ys with
         | [], [] => true
         | x :: xs', y :: ys' => tok_eqb x y && go xs' ys'
         | _, _ => false
         end) xs ys
  | TBlock k xs, TBlock k' ys =>
      Z.eqb k k' &&
      (fix go (xs ys : list tok) {struct xs} : bool :=
         match xs, ys with
         | [], [] => true
         | x :: xs', y :: ys' => tok_eqb x y && go xs' ys'
         | _, _ => false
         end) xs ys
  | _, _ => false
  end.

Fixpoint toks_eqb (xs ys : list tok) : bool :=
  match xs, ys with
  | [], [] => true
  | x :: xs', y :: ys' => tok_eqb x y && toks_eqb xs' ys'
  | _, _ => false
  end.

Definition is_ws (t : tok) : bool := match t with TWs | TComment => true | _ => false end.
Definition is_lit (s : string) (t : tok) : bool := match t with TLit v => String.eqb v s | _ => false end.
Definition is_comma := is_lit ",".
Definition is_slash := is_lit "/".
Definition is_func (t : tok) : bool := match t with TFunc _ _ _ => true | _ => false end.

(* utils.remove_whitespace: top level only *)
Definition remove_whitespace (ts : list tok) : list tok := filter (fun t => negb (is_ws t)) ts.

(* utils.get_keyword / get_single_keyword *)
Definition get_keyword (t : tok) : option string := match t with TIdent _ lv => Some lv | _ => None end.
Definition get_single_keyword (ts : list tok) : option string :=
  match ts with [t] => get_keyword t | _ => None end.
Definition kw_is (t : tok) (s : string) : bool :=
  match get_keyword t with Some k => String.eqb k s | None => false end.
Definition single_kw_in (ts : list tok) (l : list string) : option string :=
  match get_single_keyword ts with
  | Some k => if existsb (String.eqb k) l then Some k else None
  | None => None
  end.

(* utils.parse_function(token) is not None.  The loop pops the whitespace-free arguments one by one:
   two commas in a row or a trailing comma give None, a function argument must itself parse.
   (A leading comma is accepted: quirk kept.) *)
Fixpoint fn_ok (t : tok) : bool :=
  match t with
  | TFunc _ _ args =>
      (fix go (l : list tok) (last_is_comma : bool) {struct l} : bool :=
         match l with
         | [] => negb last_is_comma
         | x :: r =>
             if is_ws x then go r last_is_comma
             else if is_comma x then (if last_is_comma then false else go r true)
             else match x with
                  | TFunc _ _ _ => fn_ok x && go r false
                  | _ => go r false
                  end
         end) args false
  | _ => false
  end.

(* the `arguments` list returned by parse_function: neither whitespace nor commas *)
Definition fn_args (args : list tok) : list tok :=
  filter (fun t => negb (is_ws t) && negb (is_comma t)) args.

(* utils.check_var_function(token) is truthy.
   args = remove_whitespace(token.arguments).  var( name [, anything]? ) counts when the name is an ident starting
   with "--" that is alone or followed by a comma (the fallback may be empty); any other function counts when one
   of its arguments does.  Blocks ( ) [ ] { } are not searched. *)
Fixpoint has_var (t : tok) : bool :=
  match t with
  | TFunc _ ln args =>
      let a := remove_whitespace args in
      if String.eqb ln "var" && negb (match a with [] => true | _ => false end) then
        match a with
        | TIdent v _ :: rest => prefix "--" v && match rest with [] => true | second :: _ => is_comma second end
        | _ => false
        end
      else
        (fix any (l : list tok) : bool :=
           match l with [] => false | x :: r => has_var x || any r end) args
  | _ => false
  end.

Definition any_var (ts : list tok) : bool := existsb has_var ts.

(* str.replace('-', '_') *)
Fixpoint underscore (s : string) : string :=
  match s with
  | EmptyString => EmptyString
  | String c r => String (if Ascii.eqb c "-"%char then "_"%char else c) (underscore r)
  end.

(* s[n:] *)
Fixpoint drop (n : nat) (s : string) : string :=
  match n, s with
  | O, _ => s
  | S n', String _ r => drop n' r
  | S _, EmptyString => EmptyString
  end.

(* split at the last "-": (s[:i], s[i:]) with i = s.rfind('-'), None when there is none *)
Fixpoint rsplit_dash (s : string) : option (string * string) :=
  match s with
  | EmptyString => None
  | String c r =>
      match rsplit_dash r with
      | Some (a, b) => Some (String c a, b)
      | None => if Ascii.eqb c "-"%char then Some (EmptyString, s) else None
      end
  end.

Definition str_in (s : string) (l : list string) : bool := existsb (String.eqb s) l.
