(* C07 - the ranges of the properties whose value is one number, length or percentage: what the CSS grammars
   allow (css_accepts: written from the specifications' value definitions, not from the code) and what the
   validators of weasyprint/css/validation/properties.py accept (impl_accepts: the model of their tests).
   A token is (kind, value, written as an integer?) ; kind 0 = <number>, 1 = <length> (a dimension with a length
   unit), 2 = <percentage>.  Definitions only. *)
From Coq Require Import ZArith QArith List Bool String.
Require Import WV.model.C07Tok.
Import ListNotations.
Open Scope string_scope.

Definition nonneg (v : Q) : bool := Qle_bool 0 v.
Definition at_least (b : Q) (v : Q) : bool := Qle_bool b v.
Definition is_zero (v : Q) : bool := Qeq_bool v 0.

(* <integer [1,inf]> : css-break-3 (orphans, widows: "negative values and zero are invalid"), css-multicol-1
   (column-count), css-content-3 (bookmark-level), css-overflow-4 (max-lines) *)
Definition INT_GE_1 := ["orphans"; "widows"; "column-count"; "bookmark-level"; "max-lines"].
(* <integer> : CSS 2.1 z-index, css-flexbox order *)
Definition INT_ANY := ["z-index"; "order"].
(* <number [0,inf]> : css-flexbox flex-grow, flex-shrink *)
Definition NUM_GE_0 := ["flex-grow"; "flex-shrink"].
(* <length-percentage [0,inf]> *)
Definition LP_GE_0 := ["padding-top"; "padding-right"; "padding-bottom"; "padding-left"; "width"; "height"; "min-width";
                       "min-height"; "max-width"; "max-height"; "font-size"; "flex-basis"; "column-gap"; "row-gap"].
(* <length [0,inf]> *)
Definition L_GE_0 := ["border-top-width"; "border-right-width"; "border-bottom-width"; "border-left-width";
                      "outline-width"; "column-width"; "column-rule-width"].
(* <length-percentage> of any sign *)
Definition LP_ANY := ["margin-top"; "margin-right"; "margin-bottom"; "margin-left"; "text-indent"; "top"; "right";
                      "bottom"; "left"].
(* <length> of any sign *)
Definition L_ANY := ["letter-spacing"; "word-spacing"; "outline-offset"].

Definition in_table (p : string) : bool :=
  str_in p INT_GE_1 || str_in p INT_ANY || str_in p NUM_GE_0 || str_in p LP_GE_0 || str_in p L_GE_0 ||
  str_in p LP_ANY || str_in p L_ANY ||
  str_in p ["tab-size"; "font-weight"; "opacity"; "line-height"].

(* a unitless zero is a <length> *)
Definition length_like (k : nat) (v : Q) : bool :=
  match k with 1%nat => true | 0%nat => is_zero v | _ => false end.

Definition css_accepts (p : string) (k : nat) (v : Q) (i : bool) : bool :=
  if str_in p INT_GE_1 then Nat.eqb k 0 && i && at_least 1 v
  else if str_in p INT_ANY then Nat.eqb k 0 && i
  else if str_in p NUM_GE_0 then Nat.eqb k 0 && nonneg v
  else if str_in p LP_GE_0 then (length_like k v || Nat.eqb k 2) && nonneg v
  else if str_in p L_GE_0 then length_like k v && nonneg v
  else if str_in p LP_ANY then length_like k v || Nat.eqb k 2
  else if str_in p L_ANY then length_like k v
  else if String.eqb p "tab-size" then                (* css-text-3: <number [0,inf]> | <length [0,inf]> *)
    (Nat.eqb k 0 || Nat.eqb k 1) && nonneg v
  else if String.eqb p "font-weight" then             (* css-fonts-4: <number [1,1000]> *)
    Nat.eqb k 0 && at_least 1 v && Qle_bool v 1000
  else if String.eqb p "opacity" then                 (* css-color-4: <number> | <percentage>, clamped *)
    Nat.eqb k 0 || Nat.eqb k 2
  else if String.eqb p "line-height" then             (* css-inline-3: <number [0,inf]> | <length-percentage [0,inf]> *)
    nonneg v
  else false.

(* the validators: orphans_widows, column_count, bookmark_level, max_lines, z_index, order, flex_grow_shrink,
   get_length(negative=..., percentage=...), tab_size, font_weight, opacity, line_height *)
Definition impl_accepts (p : string) (k : nat) (v : Q) (i : bool) : bool :=
  if str_in p INT_GE_1 then Nat.eqb k 0 && i && at_least 1 v
  else if str_in p INT_ANY then Nat.eqb k 0 && i
  else if str_in p NUM_GE_0 then Nat.eqb k 0 && nonneg v
  else if str_in p LP_GE_0 then (length_like k v || Nat.eqb k 2) && nonneg v
  else if str_in p L_GE_0 then length_like k v && nonneg v
  else if str_in p LP_ANY then length_like k v || Nat.eqb k 2
  else if str_in p L_ANY then length_like k v
  else if String.eqb p "tab-size" then
    (Nat.eqb k 0 && i && nonneg v) || (length_like k v && nonneg v)            (* integers only *)
  else if String.eqb p "font-weight" then
    Nat.eqb k 0 && i && existsb (fun w => Qeq_bool v (inject_Z w)) [100; 200; 300; 400; 500; 600; 700; 800; 900]%Z
  else if String.eqb p "opacity" then Nat.eqb k 0 || Nat.eqb k 2
  else if String.eqb p "line-height" then nonneg v
  else false.

(* judge of the spec evaluation: bit 0 the grammar allows the token, bit 1 the model of the validator accepts it,
   bit 2 the property is in the table *)
Definition range_verdict (c : string * nat * Q * bool) : nat :=
  match c with
  | (p, k, v, i) =>
      ((if css_accepts p k v i then 1 else 0) + (if impl_accepts p k v i then 2 else 0) +
       (if in_table p then 4 else 0))%nat
  end.
