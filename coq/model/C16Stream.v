(* C16 - model of weasyprint/pdf/stream.py `Stream` as a state machine over API calls, the un-optimised
   ("naive") emitter, a reference interpreter of the emitted operators (ISO 32000-1 8.4, 9.3) and the decidable
   specifications used by the theorems and by the correspondence / monitor streams.  Definitions only.

   Abstractions (documented in harness/p_c16.py where the real values are mapped):
   - alpha   : thousandths (Z) + a flag telling whether Python printed it as an int ('a1') or a float ('a1.0'):
               the two spellings are different ExtGState keys with the same value;
   - colour  : (space id, channel-tuple id) = the cache key `(color.space, *channels)`; space ids 0-2 are the
               sRGB-like spaces, 3-5 the D65 Lab family, 6-8 the D50 Lab family, anything else "unsupported";
   - font    : (hash id, size id);   matrix : six integers (a b c d e f), product = weasyprint.matrix.Matrix.__matmul__
   - tokens  : one constructor per item appended to `Stream.stream`. *)
From Coq Require Import ZArith List Bool.
Import ListNotations.
Open Scope Z_scope.

(* ------------------------------------------------------------------------------------------- data *)
Definition mat := (Z * Z * Z * Z * Z * Z)%type.
Definition mat_id : mat := (1, 0, 0, 1, 0, 0).
(* Matrix(a,b,c,d,e,f) @ other : rows [a b 0; c d 0; e f 1] *)
Definition mat_mul (m n : mat) : mat :=
  let '(a, b, c, d, e, f) := m in
  let '(a', b', c', d', e', f') := n in
  (a * a' + b * c', a * b' + b * d', c * a' + d * c', c * b' + d * d', e * a' + f * c' + e', e * b' + f * d' + f').
Definition mat_eqb (m n : mat) : bool :=
  let '(a, b, c, d, e, f) := m in
  let '(a', b', c', d', e', f') := n in
  (a =? a') && (b =? b') && (c =? c') && (d =? d') && (e =? e') && (f =? f').

Inductive key := KA (stroke : bool) (a : Z) (isint : bool) | KS (n : Z).
Definition key_eqb (k1 k2 : key) : bool :=
  match k1, k2 with
  | KA s a i, KA s' a' i' => Bool.eqb s s' && (a =? a') && Bool.eqb i i'
  | KS n, KS n' => n =? n'
  | _, _ => false
  end.
Definition color := (Z * Z)%type.
Definition color_eqb (c d : color) : bool := (fst c =? fst d) && (snd c =? snd d).
Definition font := (Z * Z)%type.
Definition font_eqb (c d : font) : bool := (fst c =? fst d) && (snd c =? snd d).
Definition opt_eqb {A} (eqb : A -> A -> bool) (x : option A) (y : A) : bool :=
  match x with Some v => eqb v y | None => false end.
Definition is_none {A} (x : option A) : bool := match x with None => true | Some _ => false end.

(* content of an ExtGState dictionary as far as the tracked state is concerned: /ca and /CA *)
Definition gsval := (option Z * option Z)%type.
Definition egsd := list (key * gsval).
Fixpoint lookup (k : key) (d : egsd) : option gsval :=
  match d with
  | [] => None
  | (k', v) :: r => if key_eqb k k' then Some v else lookup k r
  end.
(* dict[key] = value : replace in place when present, else append (insertion order = Python dict order) *)
Fixpoint assign (k : key) (v : gsval) (d : egsd) : egsd :=
  match d with
  | [] => [(k, v)]
  | (k', v') :: r => if key_eqb k k' then (k', v) :: r else (k', v') :: assign k v r
  end.
Definition add_if_absent (k : key) (v : gsval) (d : egsd) : egsd :=
  match lookup k d with Some _ => d | None => d ++ [(k, v)] end.

(* colour space groups of Stream.set_color *)
Definition grp (sp : Z) : Z :=
  if (0 <=? sp) && (sp <=? 2) then 0 else if (3 <=? sp) && (sp <=? 5) then 1
  else if (6 <=? sp) && (sp <=? 8) then 2 else 3.
Definition PATTERN_SPACE : Z := 9.

Definition oz_eqb (x y : option Z) : bool :=
  match x, y with Some a, Some b => a =? b | None, None => true | _, _ => false end.
Definition gsval_eqb (v w : gsval) : bool := oz_eqb (fst v) (fst w) && oz_eqb (snd v) (snd w).
(* the content Stream.set_alpha stores under an alpha key *)
Definition canon (k : key) : gsval :=
  match k with KA true a _ => (None, Some a) | KA false a _ => (Some a, None) | KS _ => (None, None) end.

Inductive tok :=
| Tq | TQ | TBT | TET
| Tgs (k : key) (v : gsval)               (* /name gs ; v = what the Stream stored under that name *)
| Trg (stroke : bool) (c : color)          (* r g b rg / RG *)
| Tcs (stroke : bool) (g : Z)              (* /name cs / CS : 1 lab-d65, 2 lab-d50, 9 Pattern *)
| Tscn (stroke : bool) (c : color)         (* l a b scn / SCN *)
| Tpat (stroke : bool) (p : Z)             (* /pN scn / SCN *)
| Tfont (f : font)
| Tcm (m : mat)
| Ttm (m : mat)
| Ttag | Tprops (mcid : Z) | TBMC | TBDC | TEMC
| Tother (k : Z).

Definition tok_eqb (t u : tok) : bool :=
  match t, u with
  | Tq, Tq | TQ, TQ | TBT, TBT | TET, TET | Ttag, Ttag | TBMC, TBMC | TBDC, TBDC | TEMC, TEMC => true
  | Tgs k v, Tgs k' v' => key_eqb k k' && gsval_eqb v v'
  | Trg s c, Trg s' c' | Tscn s c, Tscn s' c' => Bool.eqb s s' && color_eqb c c'
  | Tcs s g, Tcs s' g' | Tpat s g, Tpat s' g' => Bool.eqb s s' && (g =? g')
  | Tfont f, Tfont f' => font_eqb f f'
  | Tcm m, Tcm m' | Ttm m, Ttm m' => mat_eqb m m'
  | Tprops n, Tprops n' | Tother n, Tother n' => n =? n'
  | _, _ => false
  end.

(* API calls *)
Inductive op :=
| Push | Pop | BeginText | EndText
| SetColor (stroke : bool) (c : color) (a : Z) (isint : bool)
| SetAlpha (a : Z) (isint : bool) (stroke : bool) (fill : option bool)
| SetFont (f : font)
| SetState (ca CA : option Z)                (* set_state(dict): set_alpha_state -> (Some 1000, None); set_blend_mode -> (None, None) *)
| PatternColor (stroke : bool) (p : Z)       (* set_color_space('Pattern', stroke); set_color_special(id, stroke) *)
| Transform (m : mat)
| TextMatrix (m : mat)
| BeginMC (mcid : bool) | EndMC
| Tok (k : Z)                                (* every other pydyf operator (one item appended) *)
(* another Stream sharing the same resource dictionary (page streams, form field streams) registers a name *)
| ExtState (v : gsval) | ExtAlpha (stroke : bool) (a : Z) (isint : bool)
(* Stream.rollback(checkpoint) where checkpoint() had returned (len(stream), len(_ctm_stack), len(ExtGState)): what
   SVGImage.draw does when the drawing of an SVG raises (fix of finding F66) *)
| Rollback (t c g : nat).

(* ------------------------------------------------------------------------------ the Stream state machine *)
Record st := mk {
  toks : list tok;            (* Stream.stream, last item first *)
  ctms : list mat;            (* _ctm_stack, top first *)
  ccol : option color; ccols : option color;
  calpha : option key; calphas : option key;
  cfont : option font; ofont : option font;
  egs : egsd;                 (* _resources['ExtGState'] *)
  nmark : Z;                  (* len(self.marked) *)
  markon : bool }.            (* self._mark *)

Definition fresh (mark : bool) (d : egsd) : st := mk [] [mat_id] None None None None None None d 0 mark.

Definition emit (t : tok) (s : st) : st :=
  mk (t :: toks s) (ctms s) (ccol s) (ccols s) (calpha s) (calphas s) (cfont s) (ofont s) (egs s) (nmark s) (markon s).
Definition with_toks (l : list tok) (s : st) : st :=
  mk l (ctms s) (ccol s) (ccols s) (calpha s) (calphas s) (cfont s) (ofont s) (egs s) (nmark s) (markon s).
Definition with_ctms (l : list mat) (s : st) : st :=
  mk (toks s) l (ccol s) (ccols s) (calpha s) (calphas s) (cfont s) (ofont s) (egs s) (nmark s) (markon s).
Definition with_fonts (c o : option font) (s : st) : st :=
  mk (toks s) (ctms s) (ccol s) (ccols s) (calpha s) (calphas s) c o (egs s) (nmark s) (markon s).
Definition reset_caches (s : st) : st :=
  mk (toks s) (ctms s) None None None None None (ofont s) (egs s) (nmark s) (markon s).

Definition m_push (s : st) : option st :=
  match ctms s with
  | top :: _ => Some (with_ctms (top :: ctms s) (emit Tq s))
  | [] => None
  end.

Definition m_pop (s : st) : option st :=
  let s1 := match toks s with Tq :: r => with_toks r s | _ => emit TQ s end in
  let s2 := reset_caches s1 in
  match ctms s2 with
  | _ :: (m :: r) => Some (with_ctms (m :: r) s2)
  | _ => None                                   (* IndexError on pop / AssertionError *)
  end.

Definition m_transform (m : mat) (s : st) : option st :=
  match ctms s with
  | top :: r => Some (with_ctms (mat_mul m top :: r) (emit (Tcm m) s))
  | [] => None
  end.

Definition m_begin_text (s : st) : st :=
  match toks s with
  | TET :: r => with_toks r (with_fonts (ofont s) (ofont s) s)
  | _ => emit TBT s
  end.

Definition m_end_text (s : st) : st := emit TET (with_fonts None (cfont s) s).

Definition m_alpha1 (stroke : bool) (a : Z) (isint : bool) (s : st) : st :=
  let k := KA stroke a isint in
  let cur := if stroke then calphas s else calpha s in
  if opt_eqb key_eqb cur k then s
  else
    let d := add_if_absent k (canon k) (egs s) in
    let s1 := if stroke
              then mk (toks s) (ctms s) (ccol s) (ccols s) (calpha s) (Some k) (cfont s) (ofont s) d (nmark s) (markon s)
              else mk (toks s) (ctms s) (ccol s) (ccols s) (Some k) (calphas s) (cfont s) (ofont s) d (nmark s) (markon s) in
    emit (Tgs k (canon k)) s1.

Definition m_set_alpha (a : Z) (isint stroke : bool) (fill : option bool) (s : st) : st :=
  let fill' := match fill with Some f => f | None => negb stroke end in
  let s1 := if stroke then m_alpha1 true a isint s else s in
  if fill' then m_alpha1 false a isint s1 else s1.

Definition emit_color (stroke : bool) (c : color) (s : st) : st :=
  let g := grp (fst c) in
  if (g =? 1) || (g =? 2) then emit (Tscn stroke c) (emit (Tcs stroke g) s)
  else emit (Trg stroke c) s.

Definition m_set_color (stroke : bool) (c : color) (a : Z) (isint : bool) (s : st) : st :=
  let s1 := m_set_alpha a isint stroke None s in
  if stroke then
    if opt_eqb color_eqb (ccols s1) c then s1
    else emit_color true c
           (mk (toks s1) (ctms s1) (ccol s1) (Some c) (calpha s1) (calphas s1) (cfont s1) (ofont s1) (egs s1) (nmark s1) (markon s1))
  else
    if opt_eqb color_eqb (ccol s1) c then s1
    else emit_color false c
           (mk (toks s1) (ctms s1) (Some c) (ccols s1) (calpha s1) (calphas s1) (cfont s1) (ofont s1) (egs s1) (nmark s1) (markon s1)).

Definition m_set_font (f : font) (s : st) : st :=
  if opt_eqb font_eqb (cfont s) f then s else emit (Tfont f) (with_fonts (Some f) (ofont s) s).

Definition with_egs (d : egsd) (s : st) : st :=
  mk (toks s) (ctms s) (ccol s) (ccols s) (calpha s) (calphas s) (cfont s) (ofont s) d (nmark s) (markon s).

(* set_state: the dictionary may carry /ca or /CA, which replace what set_alpha installed: the cache of that alpha
   is dropped (fix of finding F12) *)
Definition m_set_state (v : gsval) (s : st) : st :=
  let k := KS (Z.of_nat (length (egs s))) in
  emit (Tgs k v)
       (mk (toks s) (ctms s) (ccol s) (ccols s)
           (match fst v with Some _ => None | None => calpha s end)
           (match snd v with Some _ => None | None => calphas s end)
           (cfont s) (ofont s) (assign k v (egs s)) (nmark s) (markon s)).

(* set_color_space('Pattern', stroke); set_color_special(id, stroke): the pattern replaces the current colour, the
   cached colour is dropped (fix of finding F12, second form) *)
Definition m_pattern_color (stroke : bool) (p : Z) (s : st) : st :=
  emit (Tpat stroke p)
       (emit (Tcs stroke PATTERN_SPACE)
             (mk (toks s) (ctms s) (if stroke then ccol s else None) (if stroke then None else ccols s)
                 (calpha s) (calphas s) (cfont s) (ofont s) (egs s) (nmark s) (markon s))).

Definition m_begin_mc (mcid : bool) (s : st) : st :=
  if markon s then
    if mcid then
      let s1 := emit (Tprops (nmark s)) (emit Ttag s) in
      emit TBDC (mk (toks s1) (ctms s1) (ccol s1) (ccols s1) (calpha s1) (calphas s1) (cfont s1) (ofont s1) (egs s1)
                    (nmark s1 + 1) (markon s1))
    else emit TBMC (emit Ttag s)
  else s.

Definition m_end_mc (s : st) : st := if markon s then emit TEMC s else s.

(* del self.stream[operations:]; del self._ctm_stack[states:]; the resources added since are deleted; every cache
   and _old_font are forgotten.  (toks and ctms are stored newest first: the oldest t / c entries are kept.) *)
Definition m_rollback (t c g : nat) (s : st) : st :=
  mk (skipn (length (toks s) - t) (toks s)) (skipn (length (ctms s) - c) (ctms s)) None None None None None None
     (firstn g (egs s)) (nmark s) (markon s).
Definition cp_of (s : st) : nat * nat * nat := (length (toks s), length (ctms s), length (egs s)).

Definition mstep (o : op) (s : st) : option st :=
  match o with
  | Push => m_push s
  | Pop => m_pop s
  | BeginText => Some (m_begin_text s)
  | EndText => Some (m_end_text s)
  | SetColor stroke c a i => Some (m_set_color stroke c a i s)
  | SetAlpha a i stroke fill => Some (m_set_alpha a i stroke fill s)
  | SetFont f => Some (m_set_font f s)
  | SetState ca CA => Some (m_set_state (ca, CA) s)
  | PatternColor stroke p => Some (m_pattern_color stroke p s)
  | Transform m => m_transform m s
  | TextMatrix m => Some (emit (Ttm m) s)
  | BeginMC mcid => Some (m_begin_mc mcid s)
  | EndMC => Some (m_end_mc s)
  | Tok k => Some (emit (Tother k) s)
  | ExtState v => Some (with_egs (assign (KS (Z.of_nat (length (egs s)))) v (egs s)) s)
  | ExtAlpha stroke a i => Some (with_egs (add_if_absent (KA stroke a i) (canon (KA stroke a i)) (egs s)) s)
  | Rollback t c g => Some (m_rollback t c g s)
  end.

Fixpoint run (ops : list op) (s : st) : option st :=
  match ops with
  | [] => Some s
  | o :: r => match mstep o s with Some s' => run r s' | None => None end
  end.

(* --------------------------------------------------- the un-optimised emitter: no cache, no peephole *)
Record nst := nmk { ntoks : list tok; negs : egsd; nnmark : Z; nmarkon : bool }.
Definition nfresh (mark : bool) (d : egsd) : nst := nmk [] d 0 mark.
Definition nemit (t : tok) (n : nst) : nst := nmk (t :: ntoks n) (negs n) (nnmark n) (nmarkon n).

Definition n_alpha1 (stroke : bool) (a : Z) (isint : bool) (n : nst) : nst :=
  let k := KA stroke a isint in
  nemit (Tgs k (canon k)) (nmk (ntoks n) (add_if_absent k (canon k) (negs n)) (nnmark n) (nmarkon n)).
Definition n_set_alpha (a : Z) (isint stroke : bool) (fill : option bool) (n : nst) : nst :=
  let fill' := match fill with Some f => f | None => negb stroke end in
  let n1 := if stroke then n_alpha1 true a isint n else n in
  if fill' then n_alpha1 false a isint n1 else n1.
Definition n_emit_color (stroke : bool) (c : color) (n : nst) : nst :=
  let g := grp (fst c) in
  if (g =? 1) || (g =? 2) then nemit (Tscn stroke c) (nemit (Tcs stroke g) n) else nemit (Trg stroke c) n.

Definition nstep (o : op) (n : nst) : nst :=
  match o with
  | Push => nemit Tq n
  | Pop => nemit TQ n
  | BeginText => nemit TBT n
  | EndText => nemit TET n
  | SetColor stroke c a i => n_emit_color stroke c (n_set_alpha a i stroke None n)
  | SetAlpha a i stroke fill => n_set_alpha a i stroke fill n
  | SetFont f => nemit (Tfont f) n
  | SetState ca CA =>
      let k := KS (Z.of_nat (length (negs n))) in
      nemit (Tgs k (ca, CA)) (nmk (ntoks n) (assign k (ca, CA) (negs n)) (nnmark n) (nmarkon n))
  | PatternColor stroke p => nemit (Tpat stroke p) (nemit (Tcs stroke PATTERN_SPACE) n)
  | Transform m => nemit (Tcm m) n
  | TextMatrix m => nemit (Ttm m) n
  | BeginMC mcid =>
      if nmarkon n then
        if mcid then
          let n1 := nemit (Tprops (nnmark n)) (nemit Ttag n) in
          nemit TBDC (nmk (ntoks n1) (negs n1) (nnmark n1 + 1) (nmarkon n1))
        else nemit TBMC (nemit Ttag n)
      else n
  | EndMC => if nmarkon n then nemit TEMC n else n
  | Tok k => nemit (Tother k) n
  | ExtState v => nmk (ntoks n) (assign (KS (Z.of_nat (length (negs n)))) v (negs n)) (nnmark n) (nmarkon n)
  | ExtAlpha stroke a i => nmk (ntoks n) (add_if_absent (KA stroke a i) (canon (KA stroke a i)) (negs n)) (nnmark n) (nmarkon n)
  | Rollback _ _ _ => n      (* the un-optimised reference is only run on what is kept: see `kept` *)
  end.
Definition nrun (ops : list op) (n : nst) : nst := fold_left (fun n o => nstep o n) ops n.

(* ------------------------------------------------------- reference interpreter of the emitted operators *)
Inductive pcol := PInit | PCol (c : color) | PSpace (g : Z) | PPat (p : Z).
Definition pcol_eqb (x y : pcol) : bool :=
  match x, y with
  | PInit, PInit => true
  | PCol c, PCol d => color_eqb c d
  | PSpace g, PSpace h | PPat g, PPat h => g =? h
  | _, _ => false
  end.
Record gst := gmk { g_fill : pcol; g_stroke : pcol; g_ca : Z; g_CA : Z; g_font : option font; g_ctm : mat }.
Definition g0 : gst := gmk PInit PInit 1000 1000 None mat_id.
Definition gst_eqb (x y : gst) : bool :=
  pcol_eqb (g_fill x) (g_fill y) && pcol_eqb (g_stroke x) (g_stroke y) && (g_ca x =? g_ca y) && (g_CA x =? g_CA y) &&
  match g_font x, g_font y with Some f, Some f' => font_eqb f f' | None, None => true | _, _ => false end &&
  mat_eqb (g_ctm x) (g_ctm y).

(* an observation: a painting / path / text-showing operator together with everything it is rendered with *)
Definition obs := (Z * gst * bool * option mat)%type.
Record ist := imk { i_g : gst; i_stack : list gst; i_text : bool; i_tm : option mat; i_obs : list obs; i_err : bool }.
Definition i0 : ist := imk g0 [] false None [] false.
Definition ierr (i : ist) : ist := imk (i_g i) (i_stack i) (i_text i) (i_tm i) (i_obs i) true.
Definition with_g (g : gst) (i : ist) : ist := imk g (i_stack i) (i_text i) (i_tm i) (i_obs i) (i_err i).

Definition set_col (stroke : bool) (p : pcol) (g : gst) : gst :=
  if stroke then gmk (g_fill g) p (g_ca g) (g_CA g) (g_font g) (g_ctm g)
  else gmk p (g_stroke g) (g_ca g) (g_CA g) (g_font g) (g_ctm g).
Definition apply_gs (v : gsval) (g : gst) : gst :=
  gmk (g_fill g) (g_stroke g) (match fst v with Some a => a | None => g_ca g end)
      (match snd v with Some a => a | None => g_CA g end) (g_font g) (g_ctm g).

(* `gs` applies the dictionary stored under the name (theorem gs_names_defined: the finalised resource dictionary
   still maps the name to that content) *)
Definition istep (t : tok) (i : ist) : ist :=
  match t with
  | Tq => if i_text i then ierr i else imk (i_g i) (i_g i :: i_stack i) (i_text i) (i_tm i) (i_obs i) (i_err i)
  | TQ => match i_stack i with
          | g :: r => if i_text i then ierr i else imk g r (i_text i) (i_tm i) (i_obs i) (i_err i)
          | [] => ierr i
          end
  | TBT => if i_text i then ierr i else imk (i_g i) (i_stack i) true None (i_obs i) (i_err i)
  | TET => if i_text i then imk (i_g i) (i_stack i) false None (i_obs i) (i_err i) else ierr i
  | Tgs k v => with_g (apply_gs v (i_g i)) i
  | Trg s c | Tscn s c => with_g (set_col s (PCol c) (i_g i)) i
  | Tcs s g => with_g (set_col s (PSpace g) (i_g i)) i
  | Tpat s p => with_g (set_col s (PPat p) (i_g i)) i
  | Tfont f => with_g (gmk (g_fill (i_g i)) (g_stroke (i_g i)) (g_ca (i_g i)) (g_CA (i_g i)) (Some f) (g_ctm (i_g i))) i
  | Tcm m => if i_text i then ierr i else
             with_g (gmk (g_fill (i_g i)) (g_stroke (i_g i)) (g_ca (i_g i)) (g_CA (i_g i)) (g_font (i_g i))
                         (mat_mul m (g_ctm (i_g i)))) i
  | Ttm m => if i_text i then imk (i_g i) (i_stack i) true (Some m) (i_obs i) (i_err i) else ierr i
  | Ttag | Tprops _ | TBMC | TBDC | TEMC => i
  | Tother k => imk (i_g i) (i_stack i) (i_text i) (i_tm i) ((k, i_g i, i_text i, i_tm i) :: i_obs i) (i_err i)
  end.

(* interpretation of a token list given last-item-first (the way the model stores it) *)
Fixpoint interp_rev (l : list tok) : ist :=
  match l with
  | [] => i0
  | t :: r => istep t (interp_rev r)
  end.
(* ... and in reading order *)
Definition interp (l : list tok) : ist := fold_left (fun i t => istep t i) l i0.

Definition obs_eqb (x y : obs) : bool :=
  let '(k, g, t, m) := x in let '(k', g', t', m') := y in
  (k =? k') && gst_eqb g g' && Bool.eqb t t' &&
  match m, m' with Some a, Some b => mat_eqb a b | None, None => true | _, _ => false end.
Fixpoint list_eqb {A} (eqb : A -> A -> bool) (l m : list A) : bool :=
  match l, m with
  | [], [] => true
  | a :: l', b :: m' => eqb a b && list_eqb eqb l' m'
  | _, _ => false
  end.
(* same rendering: no error on either side, same observations, same final graphics state and saved states *)
Definition same_rendering (x y : ist) : bool :=
  negb (i_err x) && negb (i_err y) && list_eqb obs_eqb (i_obs x) (i_obs y) && gst_eqb (i_g x) (i_g y) &&
  list_eqb gst_eqb (i_stack x) (i_stack y) && Bool.eqb (i_text x) (i_text y).

(* ------------------------------------------------------------------------ specifications (decidable) *)
(* bracket structure of a content stream: q/Q, BT/ET, BMC|BDC/EMC properly nested, nothing but marked content
   and general graphics-state / text operators inside a text object (ISO 32000-1 8.2 Figure 9, 14.6.1) *)
Inductive bk := Bq | Bt | Bm.
Definition bk_eqb (a b : bk) : bool := match a, b with Bq, Bq | Bt, Bt | Bm, Bm => true | _, _ => false end.
Definition in_text (b : list bk) : bool := match b with Bt :: _ => true | _ => false end.

Definition tstep (t : tok) (b : list bk) : option (list bk) :=
  match t with
  | Tq => if in_text b then None else Some (Bq :: b)
  | TQ => match b with Bq :: r => Some r | _ => None end
  | TBT => if in_text b then None else Some (Bt :: b)
  | TET => match b with Bt :: r => Some r | _ => None end
  | TBMC | TBDC => if in_text b then None else Some (Bm :: b)
  | TEMC => match b with Bm :: r => Some r | _ => None end
  | Tcm _ => if in_text b then None else Some b
  | Ttm _ => if in_text b then Some b else None
  | _ => Some b
  end.
Fixpoint tscan_rev (l : list tok) : option (list bk) :=
  match l with
  | [] => Some []
  | t :: r => match tscan_rev r with Some b => tstep t b | None => None end
  end.
Fixpoint tscan (b : list bk) (l : list tok) : option (list bk) :=
  match l with
  | [] => Some b
  | t :: r => match tstep t b with Some b' => tscan b' r | None => None end
  end.
Definition nested (l : list tok) : bool := match tscan [] l with Some [] => true | _ => false end.

(* depth characterisation of the Dyck language over one pair of brackets: every prefix has depth >= 0 and the
   whole word has depth 0 *)
Fixpoint dyck (isopen isclose : tok -> bool) (d : Z) (l : list tok) : bool :=
  match l with
  | [] => d =? 0
  | t :: r => if isopen t then dyck isopen isclose (d + 1) r
              else if isclose t then (1 <=? d) && dyck isopen isclose (d - 1) r
              else dyck isopen isclose d r
  end.
Definition is_q t := match t with Tq => true | _ => false end.
Definition is_Q t := match t with TQ => true | _ => false end.
Definition is_BT t := match t with TBT => true | _ => false end.
Definition is_ET t := match t with TET => true | _ => false end.
Definition is_BMC t := match t with TBMC | TBDC => true | _ => false end.
Definition is_EMC t := match t with TEMC => true | _ => false end.
Definition dyck_q := dyck is_q is_Q 0.
Definition dyck_text := dyck is_BT is_ET 0.
Definition dyck_mc := dyck is_BMC is_EMC 0.

(* well-bracketed call sequences: what nested `with stacked(stream)`, paired begin_text/end_text and paired
   begin/end_marked_content produce; inside a text object: no push/pop/transform/marked content *)
Definition wstep (o : op) (b : list bk) : option (list bk) :=
  match o with
  | Push => if in_text b then None else Some (Bq :: b)
  | Pop => match b with Bq :: r => Some r | _ => None end
  | BeginText => if in_text b then None else Some (Bt :: b)
  | EndText => match b with Bt :: r => Some r | _ => None end
  | BeginMC _ => if in_text b then None else Some (Bm :: b)
  | EndMC => match b with Bm :: r => Some r | _ => None end
  | Transform _ => if in_text b then None else Some b
  | TextMatrix _ => if in_text b then Some b else None
  | Rollback _ _ _ => None      (* failed drawings are segments of a program, see wscanp *)
  | _ => Some b
  end.
Fixpoint wscan (b : list bk) (ops : list op) : option (list bk) :=
  match ops with
  | [] => Some b
  | o :: r => match wstep o b with Some b' => wscan b' r | None => None end
  end.
Definition wb (ops : list op) : bool := match wscan [] ops with Some [] => true | _ => false end.

Definition no_rb (o : op) : bool := match o with Rollback _ _ _ => false | _ => true end.

(* ---- programs with failed drawings.  SVGImage.draw: checkpoint = stream.checkpoint(); try: <draw the SVG> except:
   stream.rollback(checkpoint).  The drawing of an SVG starts with push_state (SVG.draw_node) and the exception
   interrupts it somewhere before (or at) the matching pop_state: `scope_ok`. *)
Inductive seg := Ok (ops : list op) | Failed (body : list op).
Fixpoint run_prog (p : list seg) (s : st) : option st :=
  match p with
  | [] => Some s
  | Ok ops :: r => match run ops s with Some s' => run_prog r s' | None => None end
  | Failed body :: r =>
      match run body s with
      | Some s2 => let '(t, c, g) := cp_of s in run_prog r (m_rollback t c g s2)
      | None => None
      end
  end.
(* the calls that are not erased *)
Fixpoint kept (p : list seg) : list op :=
  match p with
  | [] => []
  | Ok ops :: r => ops ++ kept r
  | Failed _ :: r => kept r
  end.
(* an interrupted bracketed drawing: Push first, then calls that never close that first bracket except by the very
   last call *)
Fixpoint deep (b : list bk) (ops : list op) : bool :=
  match ops with
  | [] => true
  | o :: r => match wstep o b with
              | Some b' => (match r with [] => true | _ => match b' with [] => false | _ => true end end) && deep b' r
              | None => false
              end
  end.
Definition scope_ok (body : list op) : bool :=
  match body with Push :: rest => deep [Bq] rest | _ => false end.
(* well-bracketed program: the kept calls are well bracketed, every failed drawing is a scope and starts outside
   text objects *)
Fixpoint wscanp (b : list bk) (p : list seg) : option (list bk) :=
  match p with
  | [] => Some b
  | Ok ops :: r => match wscan b ops with Some b' => wscanp b' r | None => None end
  | Failed body :: r => if negb (in_text b) && scope_ok body then wscanp b r else None
  end.
Definition wbp (p : list seg) : bool := match wscanp [] p with Some [] => true | _ => false end.

(* the text matrix is set after every begin_text before anything is shown (draw_first_line does so): premise of
   the soundness of merging `ET BT` *)
Fixpoint tm_disciplined (pending : bool) (ops : list op) : bool :=
  match ops with
  | [] => true
  | BeginText :: r => tm_disciplined true r
  | EndText :: r => tm_disciplined false r
  | TextMatrix _ :: r => tm_disciplined false r
  | Tok _ :: r => negb pending && tm_disciplined pending r
  | _ :: r => tm_disciplined pending r
  end.

(* every s<n> key is below the size of the dictionary: what makes `s{len(dict)}` a fresh name *)
Definition key_ok (n : nat) (k : key) : bool := match k with KS m => (0 <=? m) && (m <? Z.of_nat n) | KA _ _ _ => true end.
(* ... and the alpha keys carry the content Stream.set_alpha gives them *)
Definition canon_ok (kv : key * gsval) : bool :=
  match fst kv with
  | KA _ _ _ => gsval_eqb (snd kv) (canon (fst kv))
  | KS _ => true
  end.
Definition egs_wf (d : egsd) : bool := forallb (fun kv => key_ok (length d) (fst kv) && canon_ok kv) d.

(* ------------------------------------------------------------------- judges for the correspondence streams *)
Definition opt_b {A} (eqb : A -> A -> bool) (x y : option A) : bool :=
  match x, y with Some a, Some b => eqb a b | None, None => true | _, _ => false end.

(* what is read back from the real Stream object after the calls *)
Record implout := iomk {
  io_toks : list tok;               (* reading order *)
  io_ctms : list mat;               (* bottom first, as the Python list *)
  io_col : option color; io_cols : option color;
  io_alpha : option key; io_alphas : option key;
  io_font : option font; io_ofont : option font;
  io_keys : list (key * gsval);     (* _resources['ExtGState'] in dictionary order: name, (/ca, /CA) *)
  io_nmark : Z }.

Definition out_matches (s : st) (o : implout) : bool :=
  list_eqb tok_eqb (rev (toks s)) (io_toks o) && list_eqb mat_eqb (rev (ctms s)) (io_ctms o) &&
  opt_b color_eqb (ccol s) (io_col o) && opt_b color_eqb (ccols s) (io_cols o) &&
  opt_b key_eqb (calpha s) (io_alpha o) && opt_b key_eqb (calphas s) (io_alphas o) &&
  opt_b font_eqb (cfont s) (io_font o) && opt_b font_eqb (ofont s) (io_ofont o) &&
  list_eqb (fun x y => key_eqb (fst x) (fst y) && gsval_eqb (snd x) (snd y)) (egs s) (io_keys o) && (nmark s =? io_nmark o).

(* bit 0: model <> implementation.  bit 1: the implementation's tokens violate the bracket specification although
   the calls were well bracketed.  bit 2: the rendering of the implementation's tokens differs from the
   rendering of the un-optimised sequence (a skipped operator was not redundant) although the premises of the
   theorem hold. *)
Definition stream_judge (c : bool * list key * list op * list op * option implout) : nat :=
  let '(mark, keys0, ops, kops, out) := c in
  let d0 := map (fun k => (k, canon k)) keys0 in
  let s0 := fresh mark d0 in
  match run ops s0, out with
  | None, None => 0
  | Some s, Some o =>
      (* kops: the calls without the failed drawings (= ops when there is no rollback) *)
      let n := nrun kops (nfresh mark d0) in
      let same := same_rendering (interp (io_toks o)) (interp (rev (ntoks n))) in
      ((if out_matches s o then 0 else 1) +
       (if wb kops && negb (nested (io_toks o) && dyck_q (io_toks o) && dyck_text (io_toks o) && dyck_mc (io_toks o)
                           && Nat.eqb (length (io_ctms o)) 1) then 2 else 0) +
       (if wb kops && tm_disciplined false kops && negb same then 4 else 0))%nat
  | _, _ => 1%nat
  end.

(* call traces recorded on real renders (every Stream object of a document): model vs the items found in
   Stream.stream, plus the premises and the conclusion of the theorems evaluated on what the draw code really did.
   bit 0: model <> implementation; bit 1: calls well bracketed but tokens not nested (impossible by theorem);
   bit 2: premises hold but rendering differs (impossible by theorem); bit 4: the calls of the draw code are not well
   bracketed; bit 5: something is shown in a text object before the text matrix is set; bit 6: initial dictionary
   not well formed; bit 7: rendering differs because `ET BT` was merged although the text matrix was not set again.
   `kops` = the calls without the failed drawings (between a checkpoint and the rollback to it). *)
Definition trace_judge (c : bool * egsd * list op * list op * list tok) : nat :=
  let '(mark, d0, ops, kops, out) := c in
  let s0 := fresh mark d0 in
  match run ops s0 with
  | None => 1%nat
  | Some s =>
      let n := nrun kops (nfresh mark d0) in
      let same := same_rendering (interp out) (interp (rev (ntoks n))) in
      let w := wb kops in
      let tmd := tm_disciplined false kops in
      ((if list_eqb tok_eqb (rev (toks s)) out then 0 else 1) +
       (if w && negb (nested out) then 2 else 0) +
       (if w && tmd && negb same then 4 else 0) +
       (if w then 0 else 16) + (if w && negb tmd then 32 else 0) + (if egs_wf d0 then 0 else 64) +
       (if w && negb tmd && negb same then 128 else 0))%nat
  end.

(* monitor side: bracket skeleton of a content stream decoded from a real PDF: 0 q, 1 Q, 2 BT, 3 ET, 4 BMC/BDC,
   5 EMC, 6 cm, 7 Tm/Td/Tj/TJ/T* (text-only operators), 8 anything else *)
Definition skel_tok (n : nat) : tok :=
  match n with
  | 0%nat => Tq | 1%nat => TQ | 2%nat => TBT | 3%nat => TET | 4%nat => TBDC | 5%nat => TEMC
  | 6%nat => Tcm mat_id | 7%nat => Ttm mat_id | _ => Tother 0
  end.
Definition skeleton_judge (l : list nat) : nat :=
  let t := map skel_tok l in
  ((if dyck_q t then 0 else 1) + (if dyck_text t then 0 else 2) + (if dyck_mc t then 0 else 4) +
   (if nested t then 0 else 8))%nat.
