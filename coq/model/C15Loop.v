(* C15 - abstract model of the re-layout loop of layout/__init__.py layout_document:
     for loop in range(max_loops):
         pages = make_all_pages(...)          # lays the document out printing the numbers known so far
         ...                                  # the page of every target is read back (cached_page_counter_values)
         if not reloop_content and not reloop_pages: break
   [relayout n] stands for one pass: paginate with the numbers n printed by target-counter()/counter(pages), return
   the numbers the new pagination defines (page of each target, total).  The pass leaves content_changed /
   pages_wanted set exactly when those differ from n.  Numbers are lists of integers. *)
From Coq Require Import ZArith List Bool.
Import ListNotations.
Open Scope Z_scope.

Definition numbers := list Z.
Fixpoint numbers_eqb (a b : numbers) : bool :=
  match a, b with
  | [], [] => true
  | x :: a', y :: b' => Z.eqb x y && numbers_eqb a' b'
  | _, _ => false
  end.

(* result: the numbers printed in the pages that are returned, and whether the loop left through `break` *)
Fixpoint relayout_loop (relayout : numbers -> numbers) (max_loops : nat) (n : numbers) : numbers * bool :=
  match max_loops with
  | O => (n, false)
  | S k => let n' := relayout n in
           if numbers_eqb n' n then (n, true)
           else match k with O => (n, false) | _ => relayout_loop relayout k n' end
  end.
