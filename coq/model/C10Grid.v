(* C10 - model of the two loops of table_layout (weasyprint/layout/table.py) that place columns and size cells. *)
From Coq Require Import QArith List Bool Arith.
Require Import WV.model.C10Distribute WV.model.C10Layout.
Import ListNotations.
Open Scope Q_scope.

(* "Define column positions", ltr: position_x starts at the content box left edge *)
Fixpoint positions_ltr (x s : Q) (ws : list Q) : list Q :=
  match ws with
  | [] => []
  | w :: r => (x + s) :: positions_ltr (x + s + w) s r
  end.
(* rtl: position_x starts at content box left edge + table.width *)
Fixpoint positions_rtl (x s : Q) (ws : list Q) : list Q :=
  match ws with
  | [] => []
  | w :: r => (x - s - w) :: positions_rtl (x - s - w) s r
  end.
Definition column_positions (rtl : bool) (cbx W s : Q) (ws : list Q) : list Q :=
  if rtl then positions_rtl (cbx + W) s ws else positions_ltr cbx s ws.

(* rows_x and rows_width as computed by the same loops (rows_left_x = cbx + s in both directions) *)
Fixpoint end_ltr (x s : Q) (ws : list Q) : Q := match ws with [] => x | w :: r => end_ltr (x + s + w) s r end.
Fixpoint end_rtl (x s : Q) (ws : list Q) : Q := match ws with [] => x | w :: r => end_rtl (x - s - w) s r end.
Definition rows_width (rtl : bool) (cbx W s : Q) (ws : list Q) : Q :=
  if rtl then (cbx + W - s) - end_rtl (cbx + W) s ws else end_ltr cbx s ws - (cbx + s).

(* a cell: grid_x, colspan, and paddings + borders (border_width() with width == 0) *)
Definition spanned (ws : list Q) (gx span : nat) : list Q := firstn span (skipn gx ws).
(* cell.colspan after the loop, cell.position_x, cell.width (content), in that order; None = the cell is dropped *)
Definition cell_extent (rtl : bool) (pos ws : list Q) (s : Q) (gx span : nat) (bp : Q) : option (nat * Q * Q) :=
  let sw := spanned ws gx span in
  let k := length sw in
  match k with
  | O => None
  | _ => Some (k, nth (if rtl then (gx + k - 1)%nat else gx) pos 0,
               qsum sw + s * (qnat k - 1) - bp)
  end.

(* ---- judge for rendered tables ----
   a case: direction, content box x, table width, spacing, column widths (logical order), implementation's
   column positions (logical order), rows (x, width) list, cells (gx, span, bp, colspan', x, content width). *)
Definition rcell := (nat * nat * Q * nat * Q * Q)%type.
Definition cell_ok (tol : Q) (rtl : bool) (pos ws : list Q) (s : Q) (c : rcell) : bool :=
  let '(gx, span, bp, k', x', w') := c in
  match cell_extent rtl pos ws s gx span bp with
  | Some (k, x, w) => Nat.eqb k k' && close tol x x' && close tol w w'
  | None => false
  end.

(* geometric reading of the property on implementation outputs only (no model): columns + spacings fill the
   table, each cell's border box starts at its first column (last in rtl) and ends at the end of its last one *)
Definition cell_spec_ok (tol : Q) (rtl : bool) (ipos ws : list Q) (s : Q) (c : rcell) : bool :=
  let '(gx, span, bp, k', x', w') := c in
  let first := if rtl then (gx + k' - 1)%nat else gx in
  let last := if rtl then gx else (gx + k' - 1)%nat in
  Nat.leb (gx + k') (length ws) && Nat.leb 1 k' &&
  close tol x' (nth first ipos 0) &&
  close tol (x' + w' + bp) (nth last ipos 0 + nth last ws 0).

Definition grid_case := (bool * (Q * Q * Q) * list Q * list Q * list (Q * Q) * list rcell)%type.
Definition tolq : Q := 1 # 100000.
Definition grid_model_ok (c : grid_case) : bool :=
  let '(rtl, (cbx, W, s), ws, ipos, rows, cells) := c in
  let pos := column_positions rtl cbx W s ws in
  let rw := rows_width rtl cbx W s ws in
  qlist_close tolq pos ipos &&
  forallb (fun r => close tolq (fst r) (cbx + s) && close tolq (snd r) rw) rows &&
  forallb (cell_ok tolq rtl pos ws s) cells.
Definition grid_spec_ok (c : grid_case) : bool :=
  let '(rtl, (cbx, W, s), ws, ipos, rows, cells) := c in
  let n := length ws in
  (Nat.eqb n 0 || close tolq W (qsum ws + s * (qnat n + 1))) &&     (* fixed_sum: no column at all is the exception *)
  forallb (cell_spec_ok tolq rtl ipos ws s) cells &&
  match n with
  | O => true
  | _ =>
    let leftmost : nat := if rtl then Nat.pred n else O in
    let rightmost : nat := if rtl then O else Nat.pred n in
    close tolq (nth leftmost ipos 0) (cbx + s) &&
    close tolq (nth rightmost ipos 0 + nth rightmost ws 0 + s) (cbx + W)
  end.
Definition grid_judge (c : grid_case) : nat :=
  ((if grid_model_ok c then 0 else 1) + (if grid_spec_ok c then 0 else 2))%nat.
