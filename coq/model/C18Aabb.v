(* C18 - link/anchor rectangles under transforms: hand model of weasyprint/anchors.py rectangle_aabb and of
   weasyprint/matrix.py Matrix.transform_point (row vector times [[a,b,0],[c,d,0],[e,f,1]]).  Definitions only. *)
From Coq Require Import QArith Qminmax List Bool.
Import ListNotations.
Open Scope Q_scope.

Definition matrix := (Q * Q * Q * Q * Q * Q)%type.     (* Matrix(a, b, c, d, e, f) *)

(* (Matrix(matrix=[[x, y, 1]]) @ self)[0][:2] *)
Definition transform_point (m : matrix) (x y : Q) : Q * Q :=
  let '(a, b, c, d, e, f) := m in (x * a + y * c + 1 * e, x * b + y * d + 1 * f).

Definition min4 (a b c d : Q) : Q := Qmin (Qmin (Qmin a b) c) d.     (* Python min(a, b, c, d) *)
Definition max4 (a b c d : Q) : Q := Qmax (Qmax (Qmax a b) c) d.

(* `if not matrix` : None (no transform in force) gives the rectangle itself *)
Definition rectangle_aabb (m : option matrix) (x y w h : Q) : Q * Q * Q * Q :=
  match m with
  | None => (x, y, x + w, y + h)
  | Some m =>
      let '(x1, y1) := transform_point m x y in
      let '(x2, y2) := transform_point m (x + w) y in
      let '(x3, y3) := transform_point m x (y + h) in
      let '(x4, y4) := transform_point m (x + w) (y + h) in
      (min4 x1 x2 x3 x4, min4 y1 y2 y3 y4, max4 x1 x2 x3 x4, max4 y1 y2 y3 y4)
  end.

(* ---- judge ---- *)
Definition rect_eqb (r s : Q * Q * Q * Q) : bool :=
  let '(a, b, c, d) := r in let '(a', b', c', d') := s in
  Qeq_bool a a' && Qeq_bool b b' && Qeq_bool c c' && Qeq_bool d d'.

(* decidable spec on an output: it covers the images of the four corners and every side touches one of them *)
Definition aabb_spec_b (m : option matrix) (x y w h : Q) (out : Q * Q * Q * Q) : bool :=
  let '(o1, o2, o3, o4) := out in
  let pts := match m with
             | None => [(x, y); (x + w, y); (x, y + h); (x + w, y + h)]
             | Some m => [transform_point m x y; transform_point m (x + w) y;
                          transform_point m x (y + h); transform_point m (x + w) (y + h)]
             end in
  forallb (fun p => Qle_bool o1 (fst p) && Qle_bool (fst p) o3 && Qle_bool o2 (snd p) && Qle_bool (snd p) o4) pts &&
  existsb (fun p => Qeq_bool o1 (fst p)) pts && existsb (fun p => Qeq_bool o3 (fst p)) pts &&
  existsb (fun p => Qeq_bool o2 (snd p)) pts && existsb (fun p => Qeq_bool o4 (snd p)) pts.

(* case: (matrix, (x, y, w, h), implementation output)   bit 0: model <> impl, bit 1: spec fails on impl output *)
Definition aabb_judge (c : option matrix * (Q * Q * Q * Q) * (Q * Q * Q * Q)) : nat :=
  let '(m, (x, y, w, h), out) := c in
  ((if rect_eqb (rectangle_aabb m x y w h) out then 0 else 1) +
   (if aabb_spec_b m x y w h out then 0 else 2))%nat.
