(* C15 - the specification side for counter styles: CSS Counter Styles Level 3 ("generate a counter
   representation", the extends rule, the fallback rule) written as a function from the *specification text*,
   independently of the control flow of counters.py, plus the judge used by the correspondence stream.
   The three digit loops (alphabetic / numeric / additive) are shared with the model: what they compute is
   characterised by theorems (proofs/C15_digits.v), the glue around them is what this file re-states. *)
From Coq Require Import ZArith List String Bool Lia Uint63.
Require Import WV.model.C15Style.
Import ListNotations.
Open Scope Z_scope.

Definition in_list (s : string) (l : list string) : bool := existsb (String.eqb s) l.
Definition some_len_ge {A} (o : option (list A)) (n : Z) : bool :=
  match o with Some l => n <=? zlen l | None => false end.
Definition is_none {A} (o : option A) : bool := match o with None => true | Some _ => false end.

(* section 3: which @counter-style rules are valid *)
Definition rule_valid (c : cstyle) : bool :=
  match c_system c with
  | None => some_len_ge (c_symbols c) 1
  | Some (mkSys true _ _) => is_none (c_symbols c) && is_none (c_additive c)
  | Some (mkSys false s fx) =>
      if in_list s ["cyclic"; "symbolic"]%string then some_len_ge (c_symbols c) 1
      else if String.eqb s "fixed" then some_len_ge (c_symbols c) 1 && negb (is_none fx)
      else if in_list s ["alphabetic"; "numeric"]%string then some_len_ge (c_symbols c) 2
      else if String.eqb s "additive" then some_len_ge (c_additive c) 1
      else false
  end.

(* "range: auto" is the list ['auto'] in the dictionary (a list mixing auto with bounds is not valid CSS; the
   validator lets it through and it is read as auto) *)
Definition norm_range (r : option crange) : option crange :=
  match r with
  | Some (RList l) => if has_auto_item l then Some RAuto else r
  | _ => r
  end.
Definition norm_style (c : cstyle) : cstyle :=
  mkStyle (c_system c) (c_negative c) (c_prefix c) (c_suffix c) (norm_range (c_range c)) (c_pad c)
          (c_fallback c) (c_symbols c) (c_additive c).

Definition spec_lookup (S : styles) (n : string) : option cstyle :=
  match lookup n S with
  | Some c => if rule_valid c then Some (norm_style c) else None
  | None => None
  end.

Definition ext_target (c : cstyle) : option string :=
  match c_system c with Some (mkSys true t _) => Some t | _ => None end.

(* does following `extends` from n come back to n ? *)
Fixpoint walks_back (fuel : nat) (S : styles) (n cur : string) : bool :=
  match fuel with
  | O => false
  | Datatypes.S f =>
    match spec_lookup S cur with
    | Some c => match ext_target c with
                | Some t => if String.eqb t n then true else walks_back f S n t
                | None => false
                end
    | None => false
    end
  end.
Definition in_extends_cycle (S : styles) (n : string) : bool := walks_back (Datatypes.S (List.length S)) S n n.

(* the used descriptors of style n: its own, completed by those of the style it extends; an unknown target
   or a cycle counts as `extends decimal` *)
Fixpoint spec_eff (fuel : nat) (S : styles) (n : string) : option cstyle :=
  match fuel with
  | O => None
  | Datatypes.S f =>
    match spec_lookup S n with
    | None => None
    | Some c =>
      match ext_target c with
      | None => Some c
      | Some t =>
        let base := if in_extends_cycle S n then spec_lookup S "decimal"
                    else match spec_eff f S t with Some b => Some b | None => spec_lookup S "decimal" end in
        match base with
        | Some b => Some (merge (set_system c (c_system b)) b)
        | None => None
        end
      end
    end
  end.

(* section 2.x, the algorithms; None = "cannot represent this value" *)
Definition spec_initial (e : cstyle) (v : Z) : option text :=
  let '(_, sys, fx) := sys_of e in
  let syms := orelse (c_symbols e) [] in
  let n := zlen syms in
  if String.eqb sys "cyclic" then Some (nth_sym syms ((v - 1) mod n))
  else if String.eqb sys "fixed" then
    let first := orelse fx 1 in
    if (first <=? v) && (v <? first + n) then Some (nth_sym syms (v - first)) else None
  else if String.eqb sys "symbolic" then
    Some (rep_text (Z.to_nat ((v + n - 1) / n)) (nth_sym syms ((v - 1) mod n)))
  else if String.eqb sys "alphabetic" then
    option_map (join_idx syms) (alpha_loop (digit_fuel v) n v [])
  else if String.eqb sys "numeric" then
    if v =? 0 then Some (nth_sym syms 0) else option_map (join_idx syms) (num_loop (digit_fuel v) n v [])
  else (* additive *)
    let tuples := orelse (c_additive e) [] in
    if v =? 0 then add_zero tuples else option_map join_parts (add_loop tuples v [])
  .

Definition spec_ranges (e : cstyle) : list ritem :=
  match c_range e with
  | Some (RList l) => l
  | _ => [auto_range (snd (fst (sys_of e)))]
  end.
Definition spec_in_range (e : cstyle) (v : Z) : bool :=
  existsb (fun i => match i with RItem lo hi => le_lo lo v && le_hi v hi | RItemAuto => false end) (spec_ranges e).

(* steps 4 and 5 (and the pad descriptor, 3.7): the pad symbol is prepended (pad - length) times, where length
   counts the initial representation and, for a negative value of a style using a negative sign, BOTH negative
   symbols; then the representation is wrapped in them *)
Definition spec_finish (e : cstyle) (use_neg : bool) (t : text) : text :=
  let neg := orelse (c_negative e) default_negative in
  let np := symbol (fst neg) in
  let ns := symbol (snd neg) in
  let pad := orelse (c_pad e) (0, SStr []) in
  let len := zlen t + (if use_neg then zlen np + zlen ns else 0) in
  let padded := rep_text (Z.to_nat (fst pad - len)) (symbol (snd pad)) ++ t in
  if use_neg then np ++ padded ++ ns else padded.

(* generate a counter representation; [visited]: the styles already tried on this fallback chain *)
Fixpoint spec_gen (fuel : nat) (S : styles) (v : Z) (n : string) (visited : list string) : outcome :=
  match fuel with
  | O => RFuel
  | Datatypes.S f =>
    match spec_eff (Datatypes.S (List.length S)) S n with
    | None =>                                                         (* step 1: unknown style *)
        if String.eqb n "decimal" then ROk [] else spec_gen f S v "decimal" []
    | Some e =>
      let fb := fallback_of e in
      let visited' := n :: visited in
      let use_fallback (_ : unit) :=
        if in_list fb visited' || is_none (spec_lookup S fb) then spec_gen f S v "decimal" []
        else spec_gen f S v fb visited' in
      if negb (spec_in_range e v) then use_fallback tt                (* step 2 *)
      else
        let use_neg := (v <? 0) && uses_negative (snd (fst (sys_of e))) in
        match spec_initial e (if use_neg then Z.abs v else v) with    (* step 3 *)
        | None => use_fallback tt                                     (* same counter value *)
        | Some t => ROk (spec_finish e use_neg t)                     (* steps 4, 5 *)
        end
    end
  end.

Definition spec_value (S : styles) (v : Z) (cn : cname) : outcome :=
  match cn with
  | CName n => spec_gen (List.length S + 4)%nat S v n []
  | _ => RFuel                                (* anonymous styles: judged by the model only *)
  end.

(* marker: prefix and suffix of the style that was asked for, even when a fallback renders the number *)
Definition spec_marker (S : styles) (v : Z) (cn : cname) : outcome :=
  match cn with
  | CName n =>
    let n' := if is_none (spec_eff (Datatypes.S (List.length S)) S n) then "decimal"%string else n in
    match spec_eff (Datatypes.S (List.length S)) S n' with
    | None => ROk []
    | Some e =>
      match spec_gen (List.length S + 4)%nat S v n' [] with
      | ROk t => ROk (symbol (orelse (c_prefix e) (SStr [])) ++ t ++ symbol (orelse (c_suffix e) (SStr dot_space)))
      | r => r
      end
    end
  | _ => RFuel
  end.

(* ------------------------------------------------------------------------------------------- judges *)
(* a query: marker?, the counter name, the value, and what the implementation returned *)
Definition query := (bool * cname * Z * outcome)%type.

(* bit 0: model <> implementation ; bit 1: implementation <> specification (named styles only) *)
Definition judge_query (S : styles) (with_spec : bool) (q : query) : nat :=
  let '(marker, cn, v, out) := q in
  let m := if marker then render_marker S cn v else render_value S v cn in
  let s := if marker then spec_marker S v cn else spec_value S v cn in
  ((if outcome_eqb m out then 0 else 1) +
   (if with_spec && (match cn with CName _ => true | _ => false end) then
      (if outcome_eqb s out then 0 else 2) else 0))%nat.

(* Queries are shipped in groups: one counter name and a byte stream packed 7 bytes per primitive integer
   (lists of primitive integers are bulk literals that Coq 8.16 reads quickly): first line the values separated by
   spaces, then one line per outcome of the implementation, "o<text>" | "e" | "r" (UTF-8). *)
Fixpoint bits_to_Z (n : nat) (i : Uint63.int) : Z :=
  match n with
  | O => 0
  | Datatypes.S m =>
    if Uint63.eqb i 0%uint63 then 0
    else 2 * bits_to_Z m (Uint63.lsr i 1%uint63) + (if Uint63.eqb (Uint63.land i 1%uint63) 0%uint63 then 0 else 1)
  end.
Definition unpack7 (w : Uint63.int) : list Z :=
  map (fun k => bits_to_Z 8 (Uint63.land (Uint63.lsr w k) 255%uint63))
      [0%uint63; 8%uint63; 16%uint63; 24%uint63; 32%uint63; 40%uint63; 48%uint63].
Definition bytes_of (a : list Uint63.int) : list Z :=
  filter (fun b => negb (b =? 0)) (flat_map unpack7 a).
Fixpoint split_on (sep : Z) (l : list Z) (cur : list Z) : list (list Z) :=
  match l with
  | [] => [rev_append cur []]
  | b :: tl => if b =? sep then rev_append cur [] :: split_on sep tl [] else split_on sep tl (b :: cur)
  end.
Definition parse_nat_z (l : list Z) : Z := fold_left (fun acc d => acc * 10 + (d - 48)) l 0.
Definition parse_int (l : list Z) : Z :=
  match l with 45 :: tl => - parse_nat_z tl | _ => parse_nat_z l end.
Definition parse_out (l : list Z) : outcome :=
  match l with 111 :: t => ROk (utf8_decode t) | 101 :: _ => RExc | _ => RFuel end.
Definition group := (bool * cname * list Uint63.int)%type.
Definition queries_of (g : group) : list query :=
  let '(m, cn, a) := g in
  match split_on 10 (bytes_of a) [] with
  | [] => []
  | vs :: os =>
    map (fun vo => (m, cn, parse_int (fst vo), parse_out (snd vo))) (combine (split_on 32 vs []) os)
  end.

(* a case: user styles (put in front of the base dictionary), spec applicable?, query groups (at most 63 queries).
   Result: 4 * (64 * i0 + i1) + OR of the masks, where i0 / i1 are the 1-based indices of the first query whose mask
   has bit 0 / bit 1 set (0 if none). *)
Fixpoint judge_queries (S : styles) (with_spec : bool) (qs : list query) (i : nat) (first0 first1 acc : nat) : nat :=
  match qs with
  | [] => (4 * (64 * first0 + first1) + acc)%nat
  | q :: tl =>
    let m := judge_query S with_spec q in
    judge_queries S with_spec tl (Datatypes.S i)
                  (match first0 with O => if Nat.odd m then i else O | _ => first0 end)
                  (match first1 with O => if Nat.leb 2 m then i else O | _ => first1 end) (Nat.lor acc m)
  end.
Definition mkcase (user : styles) (with_spec : bool) (gs : list group) : styles * bool * list group :=
  (user, with_spec, gs).
Definition mkgroup (m : bool) (cn : cname) (a : list Uint63.int) : group := (m, cn, a).
Definition judge_case (base : styles) (c : styles * bool * list group) : nat :=
  let '(user, with_spec, gs) := c in
  judge_queries (user ++ base) with_spec (flat_map queries_of gs) 1%nat 0%nat 0%nat 0%nat.

(* ---------------------------------------------------------- well-formed dictionaries (boolean predicate) *)
(* what the algorithms need in order not to raise: depends on the system and the two symbol descriptors only *)
Definition adequate_fields (sys : option csystem) (symbols : option (list sym)) (additive : option (list (Z * sym)))
  : bool :=
  match sys with
  | None => negb (is_none symbols)                                  (* no system descriptor: symbolic *)
  | Some (mkSys true _ _) => is_none symbols && is_none additive     (* extends: no symbols of its own *)
  | Some (mkSys false s fx) =>
      if String.eqb s "additive" then negb (is_none additive)
      else if String.eqb s "numeric" then match symbols with Some (_ :: _) => true | _ => false end
      else if String.eqb s "fixed" then negb (is_none symbols) && negb (is_none fx)
      else if in_list s ["cyclic"; "symbolic"; "alphabetic"]%string then negb (is_none symbols)
      else false
  end.
Definition adequate (c : cstyle) : bool := adequate_fields (c_system c) (c_symbols c) (c_additive c).

(* 'decimal' is the style every dead end falls back to: it must render every integer by itself *)
Definition decimal_ok (S : styles) : bool :=
  match lookup "decimal" S with
  | Some d =>
    match c_system d, c_symbols d, c_range d with
    | Some (mkSys false s _), Some l, (None | Some RAuto) => String.eqb s "numeric" && (2 <=? zlen l)
    | _, _, _ => false
    end
  | None => false
  end.
Definition wf_styles (S : styles) : bool := decimal_ok S && forallb (fun kc => adequate (snd kc)) S.
Definition wf_cname (cn : cname) : bool :=
  match cn with
  | CSymbols system args =>
      in_list system ["cyclic"; "numeric"; "alphabetic"; "symbolic"; "fixed"]%string &&
      (if String.eqb system "numeric" then negb (Nat.eqb (List.length args) 0) else true)
  | _ => true
  end.
