(* C05: handle_min_max_width (layout/min_max.py) around block_level_width: hand model of the decorator whose
   inner calls are the REGENERATED body of block_level_width (through the first-order outcome of the interpreter). *)
From Coq Require Import QArith Qminmax List String Bool.
Require Import WV.base.Py WV.gen.GenBlock WV.proofs.PyNatural WV.model.C05Spec.
Import ListNotations.
Open Scope string_scope.

Definition blw_call (box cb : val) : option val :=
  match run_out real_ops block_level_width_body [("box", box); ("containing_block", cb)] with
  | ONorm rho _ => Some (lookup "box" rho)
  | OErr _ => None
  end.
Definition setf (k : string) (v : val) (o : val) : val := match o with VObj f => VObj (update k v f) | _ => o end.
Definition qfield (o : val) (k : string) : option Q := match fld o k with VNum q => Some q | _ => None end.

(* def wrapper(box, *args): computed_margins = ...; position_x = ...; result = function(box, *args)
   if box.width > box.max_width: box.width = box.max_width; restore; function(...)
   if box.width < box.min_width: box.width = box.min_width; restore; function(...)   (max_width None = inf) *)
Definition restore (orig b : val) : val :=
  setf "position_x" (fld orig "position_x") (setf "margin_right" (fld orig "margin_right") (setf "margin_left" (fld orig "margin_left") b)).
Definition with_min_max (box cb : val) (minw : Q) (maxw : option Q) : option val :=
  match blw_call box cb with
  | None => None
  | Some b1 =>
      match qfield b1 "width" with
      | None => None
      | Some w1 =>
          let step2 :=
            match maxw with
            | Some m => if Qle_bool w1 m then Some b1 else blw_call (restore box (setf "width" (VNum m) b1)) cb
            | None => Some b1
            end in
          match step2 with
          | None => None
          | Some b2 =>
              match qfield b2 "width" with
              | None => None
              | Some w2 => if Qle_bool minw w2 then Some b2
                           else blw_call (restore box (setf "width" (VNum minw) b2)) cb
              end
          end
      end
  end.

(* judge for the direct stream: (ml, mr, w, pl pr bl br px cbw, minw, maxw, impl output [ml; mr; w; x]) *)
Definition minmax_judge (c : (val * val * val) * (Q * Q * Q * Q * Q * Q) * (Q * option Q) * list val) : nat :=
  let '(ml, mr, w, (pl, pr, bl, br, px, cbw), (minw, maxw), out) := c in
  let env := mk_env ml mr w pl pr bl br px cbw 0 in
  let model := match with_min_max (lookup "box" env) (lookup "containing_block" env) minw maxw with
               | Some b => [fld b "margin_left"; fld b "margin_right"; fld b "width"; fld b "position_x"]
               | None => [VErr "raise"] end in
  ((if vals_eqb model out then 0 else 1) +
   (match out with
    | [_; _; VNum d; _] => if Qle_bool minw d && match maxw with Some m => Qle_bool d (Qmax m minw) | None => true end then 0 else 2
    | _ => 2 end))%nat.
