(* Judges for the fragmentation correspondence (C01, C03, C04): model vs implementation pages, and the decidable
   renditions of the properties evaluated on the IMPLEMENTATION's pages. *)
From Coq Require Import ZArith List Bool.
Require Import WV.model.Frag2.
Import ListNotations.
Open Scope Z_scope.

Definition pages_eqb (p q : list (list (Z * Z))) : bool :=
  Nat.eqb (length p) (length q) &&
  forallb (fun '(l1, l2) => Nat.eqb (length l1) (length l2) &&
                            forallb (fun '((w1, y1), (w2, y2)) => (w1 =? w2) && (y1 =? y2)) (combine l1 l2))
          (combine p q).

Fixpoint bwords_z (b : box) : list Z :=
  match b with
  | Lines ids => ids
  | Blk _ kids _ => (fix go (l : list box) : list Z := match l with [] => [] | k :: r => bwords_z k ++ go r end) kids
  end.
Fixpoint zlist_eqb (a b : list Z) : bool :=
  match a, b with [], [] => true | x :: a', y :: b' => (x =? y) && zlist_eqb a' b' | _, _ => false end.

Fixpoint wf_box_b (b : box) : bool :=
  match b with
  | Lines _ => true
  | Blk st kids _ =>
      (1 <=? s_orphans st)%nat && (1 <=? s_widows st)%nat &&
      match kids with [Lines _] => true | _ => forallb (fun k => match k with Blk _ _ _ => true | _ => false end) kids end &&
      (fix go (l : list box) : bool := match l with [] => true | k :: r => wf_box_b k && go r end) kids
  end.

(* C01 on implementation pages: every word exactly once, in source order *)
Definition conserved_b (b : box) (pages : list (list (Z * Z))) : bool :=
  zlist_eqb (map fst (concat pages)) (bwords_z b).

(* C03 on implementation pages: a line may end below the page bottom only if it is the first line of its page *)
Definition fits_b (H lh : Z) (pages : list (list (Z * Z))) : bool :=
  forallb (fun pg => match pg with [] => true | _ :: rest => forallb (fun '(_, y) => y + lh <=? H) rest end) pages.
(* ... and no two consecutive pages without content (a blank page is followed by content) *)
Fixpoint no_two_empty (pages : list (list (Z * Z))) : bool :=
  match pages with
  | [] :: (([] :: _) as rest) => false
  | _ :: rest => no_two_empty rest
  | [] => true
  end.

(* bit 0: model <> implementation; bit 1: conservation fails on the implementation's pages;
   bit 2: a line ends below the page bottom although it is not the first of its page;
   bit 3: the generated tree is outside the model's grammar (harness error); bit 4: model ran out of fuel *)
Definition frag_judge (c : box * Z * list (list (Z * Z))) : nat :=
  let '(b, H, impl) := c in
  ((match paginate_res b H 10 with
    | PDone pages => if pages_eqb (map snd pages) impl then 0 else 1
    | PFuel _ _ => 16 | PStuck _ => 1 end) +
   (if conserved_b b impl then 0 else 2) +
   (if fits_b H 10 impl then 0 else 4) +
   (if wf_box_b b then 0 else 8))%nat.
