(* C16 - resource closure of the content streams of a PDF: every name an operator uses (Tf, Do, gs, sh, cs/CS, scn/SCN
   with a pattern, BDC/DP with a property list) is a key of the matching sub-dictionary of the resource dictionary in
   effect, and every indirect reference points at an object of the file.  `closure_judge` is evaluated (vm_compute) on
   the facts that harness/pdfread.py extracts from real outputs; the serializer model below is what WeasyPrint does:
   local resources (ExtGState, XObject, Pattern, Shading) are registered in the stream's own dictionary when they are
   used, fonts are registered document-wide by Stream.add_font and build_fonts_dictionary gives every resource
   dictionary the complete /Font dictionary.  Definitions only. *)
From Coq Require Import ZArith List Bool.
Import ListNotations.
Open Scope Z_scope.

(* categories: 0 Font, 1 XObject, 2 ExtGState, 3 Shading, 4 ColorSpace, 5 Pattern, 6 Properties ; names are interned *)
Definition rn := (nat * Z)%type.
Definition rn_eqb (a b : rn) : bool := Nat.eqb (fst a) (fst b) && (snd a =? snd b).
Definition FONT : nat := 0%nat.

Record node := nmk { n_defs : list rn; n_uses : list rn }.
Definition use_ok (defs : list rn) (u : rn) : bool := existsb (rn_eqb u) defs.
Definition node_closed (n : node) : bool := forallb (use_ok (n_defs n)) (n_uses n).
Definition closed (g : list node) : bool := forallb node_closed g.
Definition refs_ok (objs refs : list Z) : bool := forallb (fun r => existsb (Z.eqb r) objs) refs.

(* bit 0: a used name is not defined in the dictionary in effect; bit 1: a reference to an object that is not in
   the file *)
Definition closure_judge (c : list node * (list Z * list Z)) : nat :=
  let '(g, (objs, refs)) := c in
  ((if closed g then 0 else 1) + (if refs_ok objs refs then 0 else 2))%nat.

(* ---------------------------------------------------------------------------------- serializer model *)
Record sdoc := smk { s_nodes : list node; s_fonts : list Z }.
Definition sdoc0 : sdoc := smk [nmk [] []] [].

Inductive sop :=
| SNew                                  (* a new content stream with its own empty resources (add_group, add_pattern) *)
| SDefine (i : nat) (u : rn)            (* a resource registered without being used (add_shading, add_image ...) *)
| SUse (i : nat) (u : rn)               (* registered in the dictionary of stream i, then named by an operator *)
| SUseFont (i : nat) (h : Z).           (* Stream.add_font (document-wide) then `/h size Tf` in stream i *)

Fixpoint upd_node (l : list node) (i : nat) (f : node -> node) : list node :=
  match l, i with
  | [], _ => []
  | n :: r, O => f n :: r
  | n :: r, S j => n :: upd_node r j f
  end.

Definition sstep (o : sop) (d : sdoc) : sdoc :=
  match o with
  | SNew => smk (s_nodes d ++ [nmk [] []]) (s_fonts d)
  | SDefine i u => smk (upd_node (s_nodes d) i (fun n => nmk (u :: n_defs n) (n_uses n))) (s_fonts d)
  | SUse i u => smk (upd_node (s_nodes d) i (fun n => nmk (u :: n_defs n) (u :: n_uses n))) (s_fonts d)
  | SUseFont i h => smk (upd_node (s_nodes d) i (fun n => nmk (n_defs n) ((FONT, h) :: n_uses n)))
                        (if existsb (Z.eqb h) (s_fonts d) then s_fonts d else s_fonts d ++ [h])
  end.
Definition srun (ops : list sop) (d : sdoc) : sdoc := fold_left (fun d o => sstep o d) ops d.

(* build_fonts_dictionary + resources['Font'] = pdf_fonts for every resource dictionary; `keep` is the selection of
   the fonts that get an entry: the source keeps them all *)
Definition finalise_fonts (keep : Z -> bool) (d : sdoc) : list node :=
  map (fun n => nmk (n_defs n ++ map (fun h => (FONT, h)) (filter keep (s_fonts d))) (n_uses n)) (s_nodes d).
Definition sfinalise (d : sdoc) : list node := finalise_fonts (fun _ => true) d.
