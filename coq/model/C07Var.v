(* C07 - weasyprint/css/__init__.py: resolve_var and the pending-value resolution of ComputedStyle.__missing__,
   over component-value trees, with explicit fuel (Python recursion).  Definitions only. *)
From Coq Require Import ZArith QArith List Bool String Ascii.
Require Import WV.model.C07Tok.
Import ListNotations.
Open Scope string_scope.

(* what a call of resolve_var does *)
Inductive vres : Type :=
| RNone                       (* returns None: the token has no var() *)
| RToks (l : list tok)        (* returns the substituted component values *)
| RInvalid.                   (* raises InvalidValues: invalid at computed-value time *)

(* what resolve_vars does: the substituted tokens, or InvalidValues *)
Inductive sres : Type := SOk (l : list tok) | SInvalid.

(* resolve_vars: for token in tokens: resolved = rv(token); computed_value.extend((token,) if resolved is None
   else resolved) - the first InvalidValues ends it.  None = out of fuel *)
Fixpoint subst_each (rv : tok -> option vres) (values : list tok) : option sres :=
  match values with
  | [] => Some (SOk [])
  | v :: r =>
      match rv v with
      | None => None
      | Some RInvalid => Some SInvalid
      | Some res =>
          let here := match res with RToks l => l | _ => [v] end in
          match subst_each rv r with
          | Some (SOk rest) => Some (SOk (here ++ rest)%list)
          | other => other
          end
      end
  end.

(* for argument in token.arguments: a function argument is replaced by resolve_var(argument), or kept when that
   is None; the other arguments are kept *)
Fixpoint rebuild (rv : tok -> option vres) (arguments : list tok) : option sres :=
  match arguments with
  | [] => Some (SOk [])
  | a :: r =>
      let here := if is_func a then
                    match rv a with
                    | None => None
                    | Some RNone => Some (SOk [a])
                    | Some (RToks l) => Some (SOk l)
                    | Some RInvalid => Some SInvalid
                    end
                  else Some (SOk [a]) in
      match here with
      | None => None
      | Some SInvalid => Some SInvalid
      | Some (SOk l) =>
          match rebuild rv r with
          | Some (SOk rest) => Some (SOk (l ++ rest)%list)
          | other => other
          end
      end
  end.

(* token.value of the name argument *)
Definition tok_value (t : tok) : string := match t with TIdent v _ => v | TLit v => v | _ => "" end.
(* f'__{name[2:]}': the key of a custom property in the styles - its exact name, "--" replaced by "__" *)
Definition var_key (name : string) : string := ("__" ++ drop 2 name)%string.

Definition lift (o : option sres) : option vres :=
  match o with Some (SOk l) => Some (RToks l) | Some SInvalid => Some RInvalid | None => None end.

Section Resolve.
  (* computed[variable_name]: the tokens of the custom property on this element (cascaded, else inherited),
     [] when it is not defined *)
  Variable env : string -> list tok.

  (* parents = parent_variables: the custom properties whose value is being substituted *)
  Fixpoint resolve_var (fuel : nat) (parents : list string) (token : tok) : option vres :=
    match fuel with
    | O => None
    | S f =>
        if negb (has_var token) then Some RNone
        else match token with
             | TFunc n ln args =>
                 if negb (String.eqb ln "var") then
                   match rebuild (resolve_var f parents) args with
                   | Some (SOk arguments) =>
                       let token' := TFunc n ln arguments in
                       (* return resolve_var(computed, token, ...) or (token,) *)
                       match resolve_var f parents token' with
                       | None => None
                       | Some RInvalid => Some RInvalid
                       | Some RNone => Some (RToks [token'])
                       | Some (RToks []) => Some (RToks [token'])
                       | Some (RToks l) => Some (RToks l)
                       end
                   | Some SInvalid => Some RInvalid
                   | None => None
                   end
                 else
                   (* args = remove_whitespace(token.arguments) ; args[0] the name, args[2:] the fallback *)
                   match remove_whitespace args with
                   | first :: rest =>
                       let variable_name := var_key (tok_value first) in
                       let default := tl rest in
                       if str_in variable_name parents then Some RInvalid      (* cyclic: invalid at computed-value time *)
                       else
                         match env variable_name with
                         | [] => lift (subst_each (resolve_var f parents) default)
                         | values =>
                             match subst_each (resolve_var f (parents ++ [variable_name])%list) values with
                             | None => None
                             | Some (SOk l) => Some (RToks l)
                             | Some SInvalid =>       (* the variable is invalid: its fallback if there is one *)
                                 match rest with
                                 | [] => Some RInvalid
                                 | _ => lift (subst_each (resolve_var f parents) default)
                                 end
                             end
                         end
                   | [] => Some RNone     (* not reached: has_var *)
                   end
             | _ => Some RNone           (* not reached: has_var *)
             end
    end.

  (* ComputedStyle.__missing__, `if pending:` - resolve_vars(self, value.tokens): the tokens handed to
     Pending.solve, or InvalidValues (the property is then unset); every token is resolved by itself *)
  Definition solved_tokens (fuel : nat) (tokens : list tok) : option sres :=
    subst_each (resolve_var fuel []) tokens.
End Resolve.

(* ------------------------------------------------------------------ the property's reading: substitution *)
(* Textual substitution (CSS Custom Properties 1, sections 2.3 and 3) over the same trees: a var() function is
   replaced by the value of its custom property, itself substituted; by its fallback when the property is not
   defined or is invalid (a property that refers to itself, directly or not, is invalid); the declaration is
   invalid at computed-value time when an invalid property has no fallback.  Everything else stays.
   [key] maps the name written in var() to the name the value is stored under, [fallback] extracts the fallback
   from the arguments, [has_fallback] says whether there is one.  parents = the properties being substituted. *)
Section Subst.
  Variable env : string -> list tok.
  Variable key : string -> string.
  Variable fallback : list tok -> list tok.
  Variable has_fallback : list tok -> bool.
  Variable var_name : list tok -> option string.     (* the custom property named by the arguments of var() *)

  Definition wrap (n ln : string) (o : sres) : sres :=
    match o with SOk a => SOk [TFunc n ln a] | SInvalid => SInvalid end.
  Definition glue (a : list tok) (o : sres) : sres :=
    match o with SOk b => SOk (a ++ b)%list | SInvalid => SInvalid end.

  Inductive Subst : list string -> tok -> sres -> Prop :=
  | S_plain ps t : has_var t = false -> Subst ps t (SOk [t])
  | S_cycle ps n ln args x :
      has_var (TFunc n ln args) = true -> String.eqb ln "var" = true ->
      var_name args = Some x -> str_in (key x) ps = true ->
      Subst ps (TFunc n ln args) SInvalid
  | S_defined ps n ln args x r :
      has_var (TFunc n ln args) = true -> String.eqb ln "var" = true ->
      var_name args = Some x -> str_in (key x) ps = false -> env (key x) <> [] ->
      SubstL (ps ++ [key x])%list (env (key x)) (SOk r) ->
      Subst ps (TFunc n ln args) (SOk r)
  | S_invalid_alone ps n ln args x :
      has_var (TFunc n ln args) = true -> String.eqb ln "var" = true ->
      var_name args = Some x -> str_in (key x) ps = false -> env (key x) <> [] ->
      SubstL (ps ++ [key x])%list (env (key x)) SInvalid -> has_fallback args = false ->
      Subst ps (TFunc n ln args) SInvalid
  | S_invalid_fallback ps n ln args x o :
      has_var (TFunc n ln args) = true -> String.eqb ln "var" = true ->
      var_name args = Some x -> str_in (key x) ps = false -> env (key x) <> [] ->
      SubstL (ps ++ [key x])%list (env (key x)) SInvalid -> has_fallback args = true ->
      SubstL ps (fallback args) o ->
      Subst ps (TFunc n ln args) o
  | S_undefined ps n ln args x o :
      has_var (TFunc n ln args) = true -> String.eqb ln "var" = true ->
      var_name args = Some x -> str_in (key x) ps = false -> env (key x) = [] ->
      SubstL ps (fallback args) o ->
      Subst ps (TFunc n ln args) o
  | S_fun ps n ln args o :
      has_var (TFunc n ln args) = true -> String.eqb ln "var" = false ->
      SubstL ps args o ->
      Subst ps (TFunc n ln args) (wrap n ln o)
  with SubstL : list string -> list tok -> sres -> Prop :=
  | SL_nil ps : SubstL ps [] (SOk [])
  | SL_ok ps t r a o : Subst ps t (SOk a) -> SubstL ps r o -> SubstL ps (t :: r) (glue a o)
  | SL_invalid ps t r : Subst ps t SInvalid -> SubstL ps (t :: r) SInvalid.
End Subst.

(* the implementation's choices *)
Definition impl_key := var_key.
Definition impl_fallback (args : list tok) : list tok := tl (tl (remove_whitespace args)).
Definition impl_var_name (args : list tok) : option string :=
  match remove_whitespace args with first :: _ => Some (tok_value first) | [] => None end.
(* len(args) == 1: the name alone *)
Definition impl_has_fallback (args : list tok) : bool :=
  match remove_whitespace args with [_] => false | _ => true end.

(* the CSS grammar's: var( <custom-property-name> [, <declaration-value>]? ) - the fallback is everything
   after the first comma, commas included *)
Fixpoint after_first_comma (args : list tok) : list tok :=
  match args with
  | [] => []
  | a :: r => if is_comma a then r else after_first_comma r
  end.
Definition css_fallback (args : list tok) : list tok := remove_whitespace (after_first_comma args).

(* every custom property that resolve_var may look up from t (through function arguments and fallbacks) has a
   rank below n *)
Fixpoint refs_lt (rk : string -> nat) (n : nat) (t : tok) : bool :=
  match t with
  | TFunc _ ln args =>
      if has_var t then
        (if String.eqb ln "var" then
           match remove_whitespace args with first :: _ => Nat.ltb (rk (var_key (tok_value first))) n | [] => true end
         else true) &&
        (fix all (l : list tok) : bool :=
           match l with
           | [] => true
           | a :: r => refs_lt rk n a && all r
           end) args
      else true
  | _ => true
  end.

(* acyclic definitions: the value of a custom property only refers to properties of lower rank *)
Definition ranked (env : string -> list tok) (rk : string -> nat) : Prop :=
  forall k, Forall (fun t => refs_lt rk (rk k) t = true) (env k).

(* ------------------------------------------------------------------ judge of the stream var-direct *)
Definition env_of (l : list (string * list tok)) (k : string) : list tok :=
  (fix go (l : list (string * list tok)) : list tok :=
     match l with
     | [] => []
     | (k', v) :: r => if String.eqb k k' then v else go r
     end) l.

(* case = (env as [(stored key, tokens)], tokens of the pending value, outcome of the implementation) ;
   outcome: (0, l) = the solved tokens l ; (4, _) = InvalidValues ; (n, _) = another exception.
   bit 0: the model disagrees. *)
Definition var_judge (c : list (string * list tok) * list tok * (nat * list tok)) : nat :=
  match c with
  | (e, tokens, (code, out)) =>
      match solved_tokens (env_of e) 60 tokens, code with
      | Some (SOk l), 0%nat => if toks_eqb l out then 0%nat else 1%nat
      | Some SInvalid, 4%nat => 0%nat
      | _, _ => 1%nat
      end
  end.
