(* C07 - weasyprint/css/__init__.py: resolve_var and the pending-value resolution of ComputedStyle.__missing__,
   over component-value trees, with explicit fuel (Python recursion).  Definitions only. *)
From Coq Require Import ZArith QArith List Bool String Ascii.
Require Import WV.model.C07Tok.
Import ListNotations.
Open Scope string_scope.

(* what a call of resolve_var does *)
Inductive vres : Type :=
| RNone                       (* returns None: the token has no var() *)
| RToks (l : list tok)        (* returns the substituted component values *)
| RTypeError.                 (* arguments.extend(None): TypeError *)

(* for value in values: resolved = rv(value); computed_value.extend((value,) if resolved is None else resolved)
   None = out of fuel *)
Fixpoint subst_each (rv : tok -> option vres) (values : list tok) : option vres :=
  match values with
  | [] => Some (RToks [])
  | v :: r =>
      match rv v with
      | None => None
      | Some RTypeError => Some RTypeError
      | Some res =>
          let here := match res with RToks l => l | _ => [v] end in
          match subst_each rv r with
          | Some (RToks rest) => Some (RToks (here ++ rest)%list)
          | other => other
          end
      end
  end.

(* for argument in token.arguments: function arguments are replaced by resolve_var(argument) - which is None
   when the argument has no var() - the others are kept *)
Fixpoint rebuild (rv : tok -> option vres) (arguments : list tok) : option vres :=
  match arguments with
  | [] => Some (RToks [])
  | a :: r =>
      let here := if is_func a then
                    match rv a with
                    | None => None
                    | Some RNone => Some RTypeError
                    | Some x => Some x
                    end
                  else Some (RToks [a]) in
      match here with
      | None => None
      | Some (RToks l) =>
          match rebuild rv r with
          | Some (RToks rest) => Some (RToks (l ++ rest)%list)
          | other => other
          end
      | Some x => Some x
      end
  end.

Section Resolve.
  (* computed[variable_name]: the tokens of the custom property on this element (cascaded, else inherited),
     [] when it is not defined; keys are the names with every "-" replaced by "_" *)
  Variable env : string -> list tok.

  Fixpoint resolve_var (fuel : nat) (token : tok) : option vres :=
    match fuel with
    | O => None
    | S f =>
        if negb (has_var token) then Some RNone
        else match token with
             | TFunc n ln args =>
                 if negb (String.eqb ln "var") then
                   match rebuild (resolve_var f) args with
                   | Some (RToks arguments) =>
                       let token' := TFunc n ln arguments in
                       (* return resolve_var(computed, token, parent_style) or (token,) *)
                       match resolve_var f token' with
                       | None => None
                       | Some RTypeError => Some RTypeError
                       | Some RNone => Some (RToks [token'])
                       | Some (RToks []) => Some (RToks [token'])
                       | Some (RToks l) => Some (RToks l)
                       end
                   | other => other
                   end
                 else
                   match fn_args args with
                   | TIdent v _ :: default =>
                       let value := env (underscore v) in
                       subst_each (resolve_var f) (match value with [] => default | _ => value end)
                   | _ => Some RNone     (* not reached: has_var *)
                   end
             | _ => Some RNone           (* not reached: has_var *)
             end
    end.

  (* ComputedStyle.__missing__, `if pending:` - the tokens handed to Pending.solve *)
  Definition solved_tokens (fuel : nat) (tokens : list tok) : option vres :=
    subst_each (resolve_var fuel) tokens.
End Resolve.

(* ------------------------------------------------------------------ the property's reading: substitution *)
(* Textual substitution (CSS Custom Properties 1, section 3) over the same trees: a var() function is
   replaced by the value of its custom property, itself substituted, or by its fallback when the property
   is not defined; everything else stays.  [key] maps the name written in var() to the name the value is
   stored under, [fallback] extracts the fallback from the arguments. *)
Section Subst.
  Variable env : string -> list tok.
  Variable key : string -> string.
  Variable fallback : list tok -> list tok.
  Variable var_name : list tok -> option string.     (* the custom property named by the arguments of var() *)

  Inductive Subst : tok -> list tok -> Prop :=
  | S_plain t : has_var t = false -> Subst t [t]
  | S_var n ln args x r :
      has_var (TFunc n ln args) = true -> String.eqb ln "var" = true ->
      var_name args = Some x ->
      SubstL (match env (key x) with [] => fallback args | v => v end) r ->
      Subst (TFunc n ln args) r
  | S_fun n ln args args' :
      has_var (TFunc n ln args) = true -> String.eqb ln "var" = false ->
      SubstL args args' ->
      Subst (TFunc n ln args) [TFunc n ln args']
  with SubstL : list tok -> list tok -> Prop :=
  | SL_nil : SubstL [] []
  | SL_cons t r a b : Subst t a -> SubstL r b -> SubstL (t :: r) (a ++ b)%list.
End Subst.

(* the implementation's choices *)
Definition impl_key := underscore.
Definition impl_fallback (args : list tok) : list tok := tl (fn_args args).
Definition impl_var_name (args : list tok) : option string :=
  match fn_args args with TIdent v _ :: _ => Some v | _ => None end.

(* the CSS grammar's: var( <custom-property-name> [, <declaration-value>]? ) - the fallback is everything
   after the first comma, commas included *)
Fixpoint after_first_comma (args : list tok) : list tok :=
  match args with
  | [] => []
  | a :: r => if is_comma a then r else after_first_comma r
  end.
Definition css_fallback (args : list tok) : list tok := remove_whitespace (after_first_comma args).

(* a token the rebuilding loop can handle: inside a function that has a var() and is not var() itself, every
   function argument has a var() too (a var()-free one raises TypeError) - checked wherever resolve_var goes *)
Fixpoint regular (t : tok) : bool :=
  match t with
  | TFunc _ ln args =>
      if has_var t then
        (fix all (l : list tok) : bool :=
           match l with
           | [] => true
           | a :: r => (if is_func a then (String.eqb ln "var" || has_var a) && regular a else true) && all r
           end) args
      else true
  | _ => true
  end.

(* every custom property that resolve_var may look up from t (through function arguments and fallbacks) has a
   rank below n *)
Fixpoint refs_lt (rk : string -> nat) (n : nat) (t : tok) : bool :=
  match t with
  | TFunc _ ln args =>
      if has_var t then
        (if String.eqb ln "var" then
           match fn_args args with TIdent v _ :: _ => Nat.ltb (rk (underscore v)) n | _ => true end
         else true) &&
        (fix all (l : list tok) : bool :=
           match l with
           | [] => true
           | a :: r => refs_lt rk n a && all r
           end) args
      else true
  | _ => true
  end.

(* acyclic definitions: the value of a custom property only refers to properties of lower rank *)
Definition ranked (env : string -> list tok) (rk : string -> nat) : Prop :=
  forall k, Forall (fun t => refs_lt rk (rk k) t = true /\ regular t = true) (env k).

(* ------------------------------------------------------------------ judge of the stream var-direct *)
Definition env_of (l : list (string * list tok)) (k : string) : list tok :=
  (fix go (l : list (string * list tok)) : list tok :=
     match l with
     | [] => []
     | (k', v) :: r => if String.eqb k k' then v else go r
     end) l.

(* case = (env as [(stored key, tokens)], tokens of the pending value, outcome of the implementation) ;
   outcome: (0, l) = the solved tokens l ; (1, _) = TypeError ; (2, _) = RecursionError ; (3, _) = other.
   bit 0: the model disagrees (out of fuel at 60 = the model of RecursionError). *)
Definition var_judge (c : list (string * list tok) * list tok * (nat * list tok)) : nat :=
  match c with
  | (e, tokens, (code, out)) =>
      match solved_tokens (env_of e) 60 tokens, code with
      | Some (RToks l), 0%nat => if toks_eqb l out then 0%nat else 1%nat
      | Some RTypeError, 1%nat => 0%nat
      | None, 2%nat => 0%nat
      | _, _ => 1%nat
      end
  end.
