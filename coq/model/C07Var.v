(* C07 - weasyprint/css/__init__.py: resolve_var and the pending-value resolution of ComputedStyle.__missing__,
   over component-value trees, with explicit fuel (Python recursion).  Definitions only. *)
From Coq Require Import ZArith QArith List Bool String Ascii.
Require Import WV.model.C07Tok.
Import ListNotations.
Open Scope string_scope.

(* what a call of resolve_var does *)
Inductive vres : Type :=
| RNone                       (* returns None: the token has no var() *)
| RToks (l : list tok).       (* returns the substituted component values *)

(* for value in values: resolved = rv(value); computed_value.extend((value,) if resolved is None else resolved)
   None = out of fuel *)
Fixpoint subst_each (rv : tok -> option vres) (values : list tok) : option (list tok) :=
  match values with
  | [] => Some []
  | v :: r =>
      match rv v with
      | None => None
      | Some res =>
          let here := match res with RToks l => l | RNone => [v] end in
          match subst_each rv r with
          | Some rest => Some (here ++ rest)%list
          | None => None
          end
      end
  end.

(* for argument in token.arguments: a function argument is replaced by resolve_var(argument), or kept when that
   is None; the other arguments are kept *)
Fixpoint rebuild (rv : tok -> option vres) (arguments : list tok) : option (list tok) :=
  match arguments with
  | [] => Some []
  | a :: r =>
      let here := if is_func a then
                    match rv a with
                    | None => None
                    | Some RNone => Some [a]
                    | Some (RToks l) => Some l
                    end
                  else Some [a] in
      match here, rebuild rv r with
      | Some l, Some rest => Some (l ++ rest)%list
      | _, _ => None
      end
  end.

(* token.value of the name argument (an ident; a leading comma is a literal) *)
Definition tok_value (t : tok) : string := match t with TIdent v _ => v | TLit v => v | _ => "" end.
(* f'__{name[2:]}': the key of a custom property in the styles - its exact name, "--" replaced by "__" *)
Definition var_key (name : string) : string := ("__" ++ drop 2 name)%string.

Section Resolve.
  (* computed[variable_name]: the tokens of the custom property on this element (cascaded, else inherited),
     [] when it is not defined *)
  Variable env : string -> list tok.

  (* parents = parent_variables: the custom properties whose value is being substituted *)
  Fixpoint resolve_var (fuel : nat) (parents : list string) (token : tok) : option vres :=
    match fuel with
    | O => None
    | S f =>
        if negb (has_var token) then Some RNone
        else match token with
             | TFunc n ln args =>
                 if negb (String.eqb ln "var") then
                   match rebuild (resolve_var f parents) args with
                   | Some arguments =>
                       let token' := TFunc n ln arguments in
                       (* return resolve_var(computed, token, ...) or (token,) *)
                       match resolve_var f parents token' with
                       | None => None
                       | Some RNone => Some (RToks [token'])
                       | Some (RToks []) => Some (RToks [token'])
                       | Some (RToks l) => Some (RToks l)
                       end
                   | None => None
                   end
                 else
                   (* args = remove_whitespace(token.arguments) ; args[0] the name, args[2:] the fallback *)
                   match remove_whitespace args with
                   | first :: rest =>
                       let variable_name := var_key (tok_value first) in
                       let default := tl rest in
                       if str_in variable_name parents then Some (RToks [])   (* cyclic: as if undefined, no fallback *)
                       else
                         let values := env variable_name in
                         let parents' := match values with [] => parents | _ => (parents ++ [variable_name])%list end in
                         match subst_each (resolve_var f parents') (match values with [] => default | _ => values end) with
                         | Some l => Some (RToks l)
                         | None => None
                         end
                   | [] => Some RNone     (* not reached: has_var *)
                   end
             | _ => Some RNone           (* not reached: has_var *)
             end
    end.

  (* ComputedStyle.__missing__, `if pending:` - the tokens handed to Pending.solve: every token of the
     declaration is resolved by itself, with no memory of the others *)
  Definition solved_tokens (fuel : nat) (tokens : list tok) : option (list tok) :=
    subst_each (resolve_var fuel []) tokens.
End Resolve.

(* ------------------------------------------------------------------ the property's reading: substitution *)
(* Textual substitution (CSS Custom Properties 1, section 3) over the same trees: a var() function is
   replaced by the value of its custom property, itself substituted, or by its fallback when the property
   is not defined; everything else stays.  [key] maps the name written in var() to the name the value is
   stored under, [fallback] extracts the fallback from the arguments.  parents = the properties being
   substituted: a reference back to one of them (a cycle) is cut - the implementation's cut gives nothing. *)
Section Subst.
  Variable env : string -> list tok.
  Variable key : string -> string.
  Variable fallback : list tok -> list tok.
  Variable var_name : list tok -> option string.     (* the custom property named by the arguments of var() *)

  Inductive Subst : list string -> tok -> list tok -> Prop :=
  | S_plain ps t : has_var t = false -> Subst ps t [t]
  | S_cycle ps n ln args x :
      has_var (TFunc n ln args) = true -> String.eqb ln "var" = true ->
      var_name args = Some x -> str_in (key x) ps = true ->
      Subst ps (TFunc n ln args) []
  | S_var ps n ln args x r :
      has_var (TFunc n ln args) = true -> String.eqb ln "var" = true ->
      var_name args = Some x -> str_in (key x) ps = false ->
      SubstL (match env (key x) with [] => ps | _ => (ps ++ [key x])%list end)
             (match env (key x) with [] => fallback args | v => v end) r ->
      Subst ps (TFunc n ln args) r
  | S_fun ps n ln args args' :
      has_var (TFunc n ln args) = true -> String.eqb ln "var" = false ->
      SubstL ps args args' ->
      Subst ps (TFunc n ln args) [TFunc n ln args']
  with SubstL : list string -> list tok -> list tok -> Prop :=
  | SL_nil ps : SubstL ps [] []
  | SL_cons ps t r a b : Subst ps t a -> SubstL ps r b -> SubstL ps (t :: r) (a ++ b)%list.
End Subst.

(* the implementation's choices *)
Definition impl_key := var_key.
Definition impl_fallback (args : list tok) : list tok := tl (tl (remove_whitespace args)).
Definition impl_var_name (args : list tok) : option string :=
  match remove_whitespace args with first :: _ => Some (tok_value first) | [] => None end.

(* the CSS grammar's: var( <custom-property-name> [, <declaration-value>]? ) - the fallback is everything
   after the first comma, commas included *)
Fixpoint after_first_comma (args : list tok) : list tok :=
  match args with
  | [] => []
  | a :: r => if is_comma a then r else after_first_comma r
  end.
Definition css_fallback (args : list tok) : list tok := remove_whitespace (after_first_comma args).

(* every custom property that resolve_var may look up from t (through function arguments and fallbacks) has a
   rank below n *)
Fixpoint refs_lt (rk : string -> nat) (n : nat) (t : tok) : bool :=
  match t with
  | TFunc _ ln args =>
      if has_var t then
        (if String.eqb ln "var" then
           match remove_whitespace args with first :: _ => Nat.ltb (rk (var_key (tok_value first))) n | [] => true end
         else true) &&
        (fix all (l : list tok) : bool :=
           match l with
           | [] => true
           | a :: r => refs_lt rk n a && all r
           end) args
      else true
  | _ => true
  end.

(* acyclic definitions: the value of a custom property only refers to properties of lower rank *)
Definition ranked (env : string -> list tok) (rk : string -> nat) : Prop :=
  forall k, Forall (fun t => refs_lt rk (rk k) t = true) (env k).

(* ------------------------------------------------------------------ judge of the stream var-direct *)
Definition env_of (l : list (string * list tok)) (k : string) : list tok :=
  (fix go (l : list (string * list tok)) : list tok :=
     match l with
     | [] => []
     | (k', v) :: r => if String.eqb k k' then v else go r
     end) l.

(* case = (env as [(stored key, tokens)], tokens of the pending value, outcome of the implementation) ;
   outcome: (0, l) = the solved tokens l ; (n, _) = an exception.
   bit 0: the model disagrees. *)
Definition var_judge (c : list (string * list tok) * list tok * (nat * list tok)) : nat :=
  match c with
  | (e, tokens, (code, out)) =>
      match solved_tokens (env_of e) 60 tokens, code with
      | Some l, 0%nat => if toks_eqb l out then 0%nat else 1%nat
      | _, _ => 1%nat
      end
  end.
