(* C18 - recognising internal links: hand model of weasyprint/urls.py get_link_attribute, of iri_to_uri and of
   urllib.parse.unquote on byte strings (UTF-8).  Definitions only.

   A URL after url_join is abstracted to (document part, fragment): the document part (scheme, authority, path,
   query: what urlsplit(...)[:-1] compares) is an opaque number, the fragment a list of bytes.  urljoin / urlsplit
   are glue exercised by the correspondence stream. *)
From Coq Require Import ZArith List Bool.
Import ListNotations.
Open Scope Z_scope.

Definition hexval (c : Z) : option Z :=
  if (48 <=? c) && (c <=? 57) then Some (c - 48)
  else if (65 <=? c) && (c <=? 70) then Some (c - 55)
  else if (97 <=? c) && (c <=? 102) then Some (c - 87)
  else None.

(* urllib.parse.unquote: '%' followed by two hexadecimal digits is one byte, any other '%' stays *)
Fixpoint unquote (l : list Z) : list Z :=
  match l with
  | [] => []
  | b :: r =>
      if b =? 37 then
        match r with
        | h1 :: h2 :: r' =>
            match hexval h1, hexval h2 with
            | Some v1, Some v2 => (16 * v1 + v2) :: unquote r'
            | _, _ => 37 :: unquote r
            end
        | _ => 37 :: unquote r
        end
      else b :: unquote r
  end.

Definition hexdigit (v : Z) (upper : bool) : Z := if v <? 10 then 48 + v else if upper then 55 + v else 87 + v.

(* urllib.parse.quote(url, safe=b"/:?#[]@!$&'()*+,;=~%"): letters, digits, "_.-~" and the safe characters stay *)
Definition safe (c : Z) : bool :=
  ((48 <=? c) && (c <=? 57)) || ((65 <=? c) && (c <=? 90)) || ((97 <=? c) && (c <=? 122)) ||
  existsb (Z.eqb c) [95; 46; 45; 126; 47; 58; 63; 35; 91; 93; 64; 33; 36; 38; 39; 40; 41; 42; 43; 44; 59; 61; 37].
Definition iri_to_uri (l : list Z) : list Z :=
  flat_map (fun b => if safe b then [b] else [37; hexdigit (b / 16) true; hexdigit (b mod 16) true]) l.

(* the attribute value, stripped: '#...' with something after the '#', a URL reference (document part after
   url_join, fragment as written), or nothing *)
Inductive attr := ABare (frag : list Z) | AUrl (doc : Z) (frag : list Z) | AEmpty.
Inductive linkres := LNone | LInternal (target : list Z) | LExternal (doc : Z) (frag : list Z).

Definition nonempty (l : list Z) : bool := match l with [] => false | _ => true end.

Definition get_link_attribute (base : option Z) (a : attr) : linkres :=
  match a with
  | ABare f => LInternal (unquote f)
  | AEmpty => LNone
  | AUrl d f =>
      let f' := iri_to_uri f in
      match base with
      | Some b => if nonempty f' && (d =? b) then LInternal (unquote f') else LExternal d f'
      | None => LExternal d f'
      end
  end.

(* ---- spellings of one fragment: every byte written raw or as %XX with upper or lower case digits ---- *)
Inductive how := Raw | Enc (upper1 upper2 : bool).
Fixpoint spell (bs : list Z) (hs : list how) : list Z :=
  match bs, hs with
  | b :: bs', Enc u1 u2 :: hs' => 37 :: hexdigit (b / 16) u1 :: hexdigit (b mod 16) u2 :: spell bs' hs'
  | b :: bs', _ :: hs' => b :: spell bs' hs'
  | b :: bs', [] => b :: spell bs' []
  | [], _ => []
  end.
(* a spelling is unambiguous when '%' itself is always escaped *)
Fixpoint spelling_ok (bs : list Z) (hs : list how) : Prop :=
  match bs, hs with
  | b :: bs', h :: hs' => 0 <= b < 256 /\ (h = Raw -> b <> 37) /\ spelling_ok bs' hs'
  | [], [] => True
  | _, _ => False
  end.

(* ---- judge ---- *)
Fixpoint zs_eqb (a b : list Z) : bool :=
  match a, b with [], [] => true | x :: a', y :: b' => (x =? y) && zs_eqb a' b' | _, _ => false end.
Definition linkres_eqb (a b : linkres) : bool :=
  match a, b with
  | LNone, LNone => true
  | LInternal x, LInternal y => zs_eqb x y
  | LExternal d f, LExternal d' f' => (d =? d') && zs_eqb f f'
  | _, _ => false
  end.
(* case: (base document, attribute, target bytes the spelling was made from (None = not a link into this document),
   implementation result).   bit 0: model <> implementation;  bit 1: a spelling of an anchor of this document is not
   recognised as ('internal', that anchor) / a link elsewhere is taken for internal *)
Definition href_judge (c : option Z * attr * option (list Z) * linkres) : nat :=
  let '(base, a, want, out) := c in
  ((if linkres_eqb (get_link_attribute base a) out then 0 else 1) +
   (match want, out with
    | Some t, LInternal t' => if zs_eqb t t' then 0 else 2
    | Some _, _ => 2
    | None, LInternal _ => 2
    | None, _ => 0
    end))%nat.
