(* C20 - the call-site handlers as a resource state machine over an abstract document.

   Document  = top-level references (link sheets, <style> blocks, img/object/embed, attachments, things that
               must not be fetched) with structured URL references (C20Url.ref).
   World     = what the caller's fetcher serves: a list (url, content) in dependency order - the content of
               an entry (a sheet's @import/font/image references, an SVG's inner images) may only reference
               LATER entries, which makes every traversal structural (no fuel).
   Failures  = a function from fetched URL strings to a failure mode.

   Modelled code: find_stylesheets + preprocess_stylesheet (@import position rule, media, base URL of an
   imported sheet = its own URL), FontConfiguration.add_font_face (sources tried in order),
   get_image_from_uri (cache keyed by URL; failure -> None + error log), html.handle_img / handle_object /
   handle_embed and the CSS image call sites (alt text / fallback / nothing), svg image() (inner images go
   through the same cache, nested SVG is drawn recursively), svg use() on an external URL (urls.fetch, kept in the
   use_cache of the SVG object: fetched once per loaded SVG image, failure logged; formerly a raw fetcher call,
   result never usable), write_pdf_attachment / add_annotations (annotation files once per URL).

   Two semantics: [sem_*] is stateless (every get_image_from_uri call is a [Req]); [m_*] threads the image
   cache exactly like the code.  proofs/C20_doc.v shows  machine = cachefilter sem.   Definitions only. *)
From Coq Require Import List String Bool Arith ZArith.
Require Import WV.model.C20Url.
Import ListNotations.
Open Scope string_scope.
Open Scope list_scope.

Inductive mode := MRaise | MEmpty | MTrunc | MWrongType | MHtml.
Inductive imgkind := KImg | KObject | KEmbed | KBg | KLsi | KContent.
Inductive alt := AltText | AltEmpty | AltNone.
Inductive attkind := ALink | AAnchor | AOption.

Inductive vref := VImage (r : ref) | VUse (r : ref).
Inductive sitem :=
| SRule (id : Z)
| SImport (r : ref) (media_ok : bool)
| SFont (id : Z) (srcs : list ref)
| SImage (k : imgkind) (id : Z) (r : option ref).   (* a rule whose declaration is url(r); None: declaration dropped *)

Inductive content :=
| CSheet (items : list sitem)
| CRaster
| CSvg (kids : list vref)
| CFont
| CBlob.

Definition world := list (aurl * content).

Inductive item :=
| ILink (r : ref)
| IStyle (items : list sitem)
| IImage (k : imgkind) (id : Z) (r : option ref) (a : alt) (o : nat)   (* None: the element without its src/data;
                                                                       o: its image-orientation *)
| IAttach (k : attkind) (id : Z) (r : ref)
| INoFetch (r : ref).                                        (* icon, alternate/screen sheet, script, a href... *)

Record doc := { d_base : option base; d_items : list item }.

Inductive channel := ChSheet | ChFont | ChImage | ChUse | ChAttach.

(* what the caches are keyed by: get_image_from_uri's cache by URL and image-orientation; the use_cache of a
   loaded SVG image (the object cached under RkImg owner oo) by the URL of the external <use> *)
Inductive rkey := RkImg (u : string) (o : nat) | RkUse (owner : string) (oo : nat) (u : string).
Definition key_url (k : rkey) : string := match k with RkImg u _ => u | RkUse _ _ u => u end.
Definition key_ch (k : rkey) : channel := match k with RkImg _ _ => ChImage | RkUse _ _ _ => ChUse end.
Definition rkey_eqb (a b : rkey) : bool :=
  match a, b with
  | RkImg u o, RkImg u' o' => (u =? u') && Nat.eqb o o'
  | RkUse w oo u, RkUse w' oo' u' => (w =? w') && Nat.eqb oo oo' && (u =? u')
  | _, _ => false
  end.
Inductive level := LError | LWarning | LDebug.
Inductive shown := ShImage | ShAlt | ShFallback | ShNothing.
Inductive effect :=
| ERule (id : Z)                    (* the rule takes part in the cascade *)
| EFont (id : Z) (loaded : bool)    (* the @font-face family is available / text falls back *)
| EShown (id : Z) (s : shown)       (* what the element or the CSS image position shows *)
| EDrawn (u : string)               (* the raster bytes served at u are painted *)
| EAttach (u : string).             (* the payload served at u is embedded *)

Inductive ev :=
| Fetch (ch : channel) (u : string)     (* url_fetcher(u) *)
| Req (k : rkey)                        (* a cached lookup (image, external <use>): stateless semantics only *)
| Log (lv : level) (u : string)
| Eff (e : effect).

Definition fails_t := string -> option mode.

Fixpoint lookup (w : world) (u : string) : option content :=
  match w with
  | [] => None
  | (k, c) :: w' => if fetched_string k =? u then Some c else lookup w' u
  end.

(* ---- what each consumer makes of a fetch *)
Definition img_ok (W : world) (fails : fails_t) (u : string) : bool :=
  match fails u with
  | Some _ => false
  | None => match lookup W u with Some CRaster => true | Some (CSvg _) => true | _ => false end
  end.
(* an external <use>: fetched, parsed as XML: any failure mode makes it unusable *)
Definition use_ok (W : world) (fails : fails_t) (u : string) : bool :=
  match fails u with
  | Some _ => false
  | None => match lookup W u with Some (CSvg _) => true | _ => false end
  end.
Definition font_ok (W : world) (fails : fails_t) (u : string) : bool :=
  match fails u with
  | Some _ => false
  | None => match lookup W u with Some CFont => true | _ => false end
  end.
(* an attachment is whatever bytes come back: only an exception is a failure *)
Definition att_ok (W : world) (fails : fails_t) (u : string) : bool :=
  match fails u with
  | Some MRaise => false
  | _ => match lookup W u with Some _ => true | None => false end
  end.

Definition shown_absent (k : imgkind) (a : alt) : shown :=
  match k with
  | KImg => match a with AltText => ShAlt | _ => ShNothing end
  | KObject => ShFallback
  | _ => ShNothing
  end.

(* log of a failing sheet fetch: an exception and (for <link>) a wrong Content-Type are errors; garbage
   parsed as CSS gives parse warnings; empty or truncated text is a valid (empty) sheet *)
Definition sheet_fail_log (link : bool) (m : mode) (u : string) : list ev :=
  match m with
  | MRaise => [Log LError u]
  | MWrongType | MHtml => [Log (if link then LError else LWarning) u]
  | MEmpty | MTrunc => []
  end.

Definition cssimg := (imgkind * Z * option aurl)%type.

(* ---- stylesheets: preprocess_stylesheet over the items of one sheet.  [load] loads an imported sheet. *)
Section Sheets.
  Variable W : world.
  Variable fails : fails_t.

  Fixpoint font_srcs (b : option base) (srcs : list ref) : list ev * bool :=
    match srcs with
    | [] => ([], false)
    | rf :: r =>
        match url_join b rf false with
        | None => let '(e, ok) := font_srcs b r in (Log LError (show_ref rf) :: e, ok)
        | Some a =>
            let u := fetched_string a in
            if font_ok W fails u then ([Fetch ChFont u], true)
            else let '(e, ok) := font_srcs b r in (Fetch ChFont u :: Log LDebug u :: e, ok)
        end
    end.

  Definition font_face (b : option base) (id : Z) (srcs : list ref) : list ev :=
    let '(e, ok) := font_srcs b srcs in
    e ++ (if ok then [] else [Log LWarning "font-face"]) ++ [Eff (EFont id ok)].

  Fixpoint run_items (load : aurl -> list ev * list cssimg) (b : option base) (ign : bool)
           (items : list sitem) : list ev * list cssimg :=
    match items with
    | [] => ([], [])
    | SRule id :: r =>
        let '(e, i) := run_items load b true r in (Eff (ERule id) :: e, i)
    | SImport rf media_ok :: r =>
        let '(e1, i1) :=
          if ign then ([Log LWarning "@import not at the beginning"], [])
          else match url_join b rf false with
               | None => ([Log LError (show_ref rf)], [])
               | Some a => if media_ok then load a else ([], [])
               end in
        let '(e2, i2) := run_items load b ign r in (e1 ++ e2, i1 ++ i2)
    | SFont id srcs :: r =>
        let '(e, i) := run_items load b true r in (font_face b id srcs ++ e, i)
    | SImage k id rf :: r =>
        let '(e, i) := run_items load b true r in
        match rf with
        | None => (e, (k, id, None) :: i)
        | Some rf => match url_join b rf false with
                     | None => (Log LError (show_ref rf) :: e, (k, id, None) :: i)
                     | Some a => (e, (k, id, Some a) :: i)
                     end
        end
    end.

  (* CSS(url=a): fetch, then preprocess with base = the URL itself (k and a spell the same string).
     Recursion on the world's tail. *)
  Fixpoint load_sheet (w : world) (link : bool) (a : aurl) : list ev * list cssimg :=
    match w with
    | [] => ([Fetch ChSheet (fetched_string a); Log LError (fetched_string a)], [])
    | (k, c) :: w' =>
        let u := fetched_string a in
        if fetched_string k =? u then
          match fails u with
          | Some m => (Fetch ChSheet u :: sheet_fail_log link m u, [])
          | None =>
              match c with
              | CSheet items =>
                  let '(e, i) := run_items (load_sheet w' false) (base_of k) false items in
                  (Fetch ChSheet u :: e, i)
              | _ => (Fetch ChSheet u :: sheet_fail_log link MWrongType u, [])
              end
          end
        else load_sheet w' link a
    end.

  Fixpoint sheets_of (b : option base) (items : list item) : list ev * list cssimg :=
    match items with
    | [] => ([], [])
    | ILink rf :: r =>
        let '(e1, i1) := match url_join b rf false with
                         | None => ([Log LError (show_ref rf)], [])
                         | Some a => load_sheet W true a
                         end in
        let '(e2, i2) := sheets_of b r in (e1 ++ e2, i1 ++ i2)
    | IStyle its :: r =>
        let '(e1, i1) := run_items (load_sheet W false) b false its in
        let '(e2, i2) := sheets_of b r in (e1 ++ e2, i1 ++ i2)
    | _ :: r => sheets_of b r
    end.

  (* ---- images: the requests of the document, then of the CSS.  A request carries the image-orientation of
     the position (0 = the initial value): loaded images are cached per URL and orientation. *)
  Definition img_req := (imgkind * Z * option aurl * alt * nat)%type.

  Fixpoint image_items (b : option base) (items : list item) : list img_req :=
    match items with
    | [] => []
    | IImage k id rf a o :: r =>
        (k, id, match rf with None => None | Some rf => url_join b rf false end, a, o) :: image_items b r
    | _ :: r => image_items b r
    end.
  Definition css_reqs (l : list cssimg) : list img_req :=
    map (fun '(k, id, a) => (k, id, a, AltNone, 0)) l.

  (* stateless: what one request contributes *)
  Definition sem_req (q : img_req) : list ev :=
    let '(k, id, a, al, o) := q in
    match a with
    | None => [Eff (EShown id (shown_absent k al))]
    | Some a => let u := fetched_string a in
                [Req (RkImg u o); Eff (EShown id (if img_ok W fails u then ShImage else shown_absent k al))]
    end.

  (* draw the image object loaded from u with orientation o (the caller has checked that it loaded);
     an external <use> is looked up in the use_cache of that object *)
  Fixpoint sem_kids (rec : string -> list ev) (owner : string) (oo : nat) (b : option base)
           (kids : list vref) : list ev :=
    match kids with
    | [] => []
    | VImage rf :: r =>
        match url_join b rf true with
        | None => sem_kids rec owner oo b r
        | Some a => let u := fetched_string a in
                    Req (RkImg u 0) :: (if img_ok W fails u then rec u else []) ++ sem_kids rec owner oo b r
        end
    | VUse rf :: r =>
        match url_join b rf true with
        | None => sem_kids rec owner oo b r
        | Some a => Req (RkUse owner oo (fetched_string a)) :: sem_kids rec owner oo b r
        end
    end.

  Fixpoint sem_draw (w : world) (u : string) (o : nat) : list ev :=
    match w with
    | [] => []
    | (k, c) :: w' =>
        if fetched_string k =? u then
          match c with
          | CRaster => [Eff (EDrawn u)]
          | CSvg kids => sem_kids (fun v => sem_draw w' v 0) u o (base_of k) kids
          | _ => []
          end
        else sem_draw w' u o
    end.

  Definition sem_draw_req (q : img_req) : list ev :=
    let '(_, _, a, _, o) := q in
    match a with
    | None => []
    | Some a => let u := fetched_string a in if img_ok W fails u then sem_draw W u o else []
    end.

  (* ---- the same with the caches of the code: the image cache of get_image_from_uri (key: URL and
     orientation; the image options of the key are those of the render) and, inside each loaded SVG image, its
     use_cache; both are "request key -> loaded?" *)
  Definition cache := list (rkey * bool).
  Fixpoint cfind (c : cache) (k : rkey) : option bool :=
    match c with
    | [] => None
    | (k', v) :: c' => if rkey_eqb k' k then Some v else cfind c' k
    end.

  Definition key_ok (k : rkey) : bool :=
    match k with
    | RkImg u _ => img_ok W fails u
    | RkUse _ _ u => use_ok W fails u
    end.

  Definition m_get (c : cache) (k : rkey) : cache * bool * list ev :=
    match cfind c k with
    | Some ok => (c, ok, [])
    | None => let ok := key_ok k in
              ((k, ok) :: c, ok, Fetch (key_ch k) (key_url k) :: (if ok then [] else [Log LError (key_url k)]))
    end.

  Definition m_req (c : cache) (q : img_req) : cache * list ev :=
    let '(k, id, a, al, o) := q in
    match a with
    | None => (c, [Eff (EShown id (shown_absent k al))])
    | Some a => let u := fetched_string a in
                let '(c1, ok, e) := m_get c (RkImg u o) in
                (c1, e ++ [Eff (EShown id (if ok then ShImage else shown_absent k al))])
    end.

  Fixpoint m_reqs (c : cache) (qs : list img_req) : cache * list ev :=
    match qs with
    | [] => (c, [])
    | q :: r => let '(c1, e1) := m_req c q in
                let '(c2, e2) := m_reqs c1 r in (c2, e1 ++ e2)
    end.

  Fixpoint m_kids (rec : cache -> string -> cache * list ev) (owner : string) (oo : nat) (b : option base)
           (c : cache) (kids : list vref) : cache * list ev :=
    match kids with
    | [] => (c, [])
    | VImage rf :: r =>
        match url_join b rf true with
        | None => m_kids rec owner oo b c r
        | Some a =>
            let u := fetched_string a in
            let '(c1, ok, e1) := m_get c (RkImg u 0) in
            let '(c2, e2) := if ok then rec c1 u else (c1, []) in
            let '(c3, e3) := m_kids rec owner oo b c2 r in
            (c3, e1 ++ e2 ++ e3)
        end
    | VUse rf :: r =>
        match url_join b rf true with
        | None => m_kids rec owner oo b c r
        | Some a =>
            let '(c1, _, e1) := m_get c (RkUse owner oo (fetched_string a)) in
            let '(c2, e2) := m_kids rec owner oo b c1 r in
            (c2, e1 ++ e2)
        end
    end.

  Fixpoint m_draw (w : world) (c : cache) (u : string) (o : nat) : cache * list ev :=
    match w with
    | [] => (c, [])
    | (k, ct) :: w' =>
        if fetched_string k =? u then
          match ct with
          | CRaster => (c, [Eff (EDrawn u)])
          | CSvg kids => m_kids (fun c' v => m_draw w' c' v 0) u o (base_of k) c kids
          | _ => (c, [])
          end
        else m_draw w' c u o
    end.

  Definition m_draw_req (c : cache) (q : img_req) : cache * list ev :=
    let '(_, _, a, _, o) := q in
    match a with
    | None => (c, [])
    | Some a => let u := fetched_string a in
                match cfind c (RkImg u o) with
                | Some true => m_draw W c u o
                | _ => (c, [])
                end
    end.

  Fixpoint m_draws (c : cache) (qs : list img_req) : cache * list ev :=
    match qs with
    | [] => (c, [])
    | q :: r => let '(c1, e1) := m_draw_req c q in
                let '(c2, e2) := m_draws c1 r in (c2, e1 ++ e2)
    end.

  (* ---- attachments (write_pdf): <link rel=attachment> and options: one fetch per reference;
     <a rel=attachment>: annot_files remembers every URL, also the failed ones *)
  Definition attach_one (u : string) : list ev :=
    Fetch ChAttach u :: (if att_ok W fails u then [Eff (EAttach u)] else [Log LError u]).

  Fixpoint attach_items (b : option base) (anchors : bool) (seen : list string) (items : list item) : list ev :=
    match items with
    | [] => []
    | IAttach k id rf :: r =>
        let is_anchor := match k with AAnchor => true | _ => false end in
        if Bool.eqb is_anchor anchors then
          match url_join b rf (if anchors then true else false) with
          | None => Log LError (show_ref rf) :: attach_items b anchors seen r
          | Some a =>
              let u := fetched_string a in
              if anchors && existsb (String.eqb u) seen then attach_items b anchors seen r
              else attach_one u ++ attach_items b anchors (u :: seen) r
          end
        else attach_items b anchors seen r
    | _ :: r => attach_items b anchors seen r
    end.

  (* ---- whole documents *)
  Definition sem_doc (d : doc) : list ev :=
    let '(es, ci) := sheets_of (d_base d) (d_items d) in
    let qs := image_items (d_base d) (d_items d) ++ css_reqs ci in
    es ++ flat_map sem_req qs ++ flat_map sem_draw_req qs
       ++ attach_items (d_base d) true [] (d_items d) ++ attach_items (d_base d) false [] (d_items d).

  Definition m_doc (c0 : cache) (d : doc) : cache * list ev :=
    let '(es, ci) := sheets_of (d_base d) (d_items d) in
    let qs := image_items (d_base d) (d_items d) ++ css_reqs ci in
    let '(c1, e1) := m_reqs c0 qs in
    let '(c2, e2) := m_draws c1 qs in
    (c2, es ++ e1 ++ e2
          ++ attach_items (d_base d) true [] (d_items d) ++ attach_items (d_base d) false [] (d_items d)).

  (* machine = cachefilter (keys of the initial cache) sem :  a Req of an unseen URL becomes a fetch (and an
     error record when it fails), a Req of a seen URL disappears *)
  Fixpoint cachefilter (seen : list rkey) (l : list ev) : list ev :=
    match l with
    | [] => []
    | Req k :: r =>
        if existsb (rkey_eqb k) seen then cachefilter seen r
        else Fetch (key_ch k) (key_url k) :: (if key_ok k then [] else [Log LError (key_url k)])
             ++ cachefilter (k :: seen) r
    | e :: r => e :: cachefilter seen r
    end.
End Sheets.

(* ---- projections *)
Definition fetches (l : list ev) : list string :=
  flat_map (fun e => match e with Fetch _ u => [u] | _ => [] end) l.
Definition fetches_on (ch : channel) (l : list ev) : list string :=
  flat_map (fun e => match e with
                     | Fetch c u => match c, ch with
                                    | ChSheet, ChSheet | ChFont, ChFont | ChImage, ChImage
                                    | ChUse, ChUse | ChAttach, ChAttach => [u]
                                    | _, _ => []
                                    end
                     | _ => [] end) l.
Definition requests (l : list ev) : list rkey :=
  flat_map (fun e => match e with Req k => [k] | _ => [] end) l.
Definition effects (l : list ev) : list effect :=
  flat_map (fun e => match e with Eff x => [x] | _ => [] end) l.
Definition logged (lv : level) (l : list ev) : list string :=
  flat_map (fun e => match e with
                     | Log v u => match v, lv with
                                  | LError, LError | LWarning, LWarning | LDebug, LDebug => [u]
                                  | _, _ => [] end
                     | _ => [] end) l.

(* first occurrences *)
Fixpoint dedup (seen : list rkey) (l : list rkey) : list rkey :=
  match l with
  | [] => []
  | k :: r => if existsb (rkey_eqb k) seen then dedup seen r else k :: dedup (k :: seen) r
  end.

(* ---- the document without the references to u *)
Definition ref_is (b : option base) (allow : bool) (u : string) (r : ref) : bool :=
  match url_join b r allow with Some a => fetched_string a =? u | None => false end.

Definition remove_sitem (b : option base) (u : string) (s : sitem) : list sitem :=
  match s with
  | SRule id => [s]
  | SImport r _ => if ref_is b false u r then [] else [s]
  | SFont id srcs => [SFont id (filter (fun r => negb (ref_is b false u r)) srcs)]
  | SImage k id (Some r) => if ref_is b false u r then [SImage k id None] else [s]
  | SImage k id None => [s]
  end.
Definition remove_vref (b : option base) (u : string) (v : vref) : list vref :=
  match v with
  | VImage r => if ref_is b true u r then [] else [v]
  | VUse r => if ref_is b true u r then [] else [v]
  end.
Definition remove_content (b : option base) (u : string) (c : content) : content :=
  match c with
  | CSheet items => CSheet (flat_map (remove_sitem b u) items)
  | CSvg kids => CSvg (flat_map (remove_vref b u) kids)
  | _ => c
  end.
Definition remove_world (u : string) (W : world) : world :=
  map (fun '(k, c) => (k, remove_content (base_of k) u c)) W.
Definition remove_item (b : option base) (u : string) (i : item) : list item :=
  match i with
  | ILink r => if ref_is b false u r then [] else [i]
  | IStyle items => [IStyle (flat_map (remove_sitem b u) items)]
  | IImage k id (Some r) a o => if ref_is b false u r then [IImage k id None a o] else [i]
  | IImage _ _ None _ _ => [i]
  | IAttach k id r => if ref_is b (match k with AAnchor => true | _ => false end) u r then [] else [i]
  | INoFetch _ => [i]
  end.
Definition remove_doc (u : string) (d : doc) : doc :=
  {| d_base := d_base d; d_items := flat_map (remove_item (d_base d) u) (d_items d) |}.

Definition upd (fails : fails_t) (u : string) (m : mode) : fails_t :=
  fun v => if v =? u then Some m else fails v.

(* ---- judge of the render correspondence: the harness sends the document, the world, the failures, and what
   the real render did: the URLs the recording fetcher received (sorted) and the observed effects (sorted
   codes; a fallback font (2) and an empty image position (6) are the absence of an observation).  The model's fetches are those of the machine started with an empty cache. *)
Definition effect_code (e : effect) : Z * Z * string :=
  match e with
  | ERule id => (0, id, "")
  | EFont id ok => (if ok then 1 else 2, id, "")
  | EShown id s => (match s with ShImage => 3 | ShAlt => 4 | ShFallback => 5 | ShNothing => 6 end, id, "")
  | EDrawn u => (7, 0, u)
  | EAttach u => (8, 0, u)
  end%Z.

Definition code_eqb (a b : Z * Z * string) : bool :=
  let '(a1, a2, a3) := a in let '(b1, b2, b3) := b in Z.eqb a1 b1 && Z.eqb a2 b2 && (a3 =? b3).

(* multiset equality on small lists *)
Fixpoint remove_first {A} (eqb : A -> A -> bool) (x : A) (l : list A) : option (list A) :=
  match l with
  | [] => None
  | y :: r => if eqb x y then Some r
              else match remove_first eqb x r with Some r' => Some (y :: r') | None => None end
  end.
Fixpoint same_multiset {A} (eqb : A -> A -> bool) (l1 l2 : list A) : bool :=
  match l1 with
  | [] => match l2 with [] => true | _ => false end
  | x :: r => match remove_first eqb x l2 with Some l2' => same_multiset eqb r l2' | None => false end
  end.

Fixpoint fails_of (l : list (string * mode)) : fails_t :=
  fun u => match l with
           | [] => None
           | (k, m) :: r => if k =? u then Some m else fails_of r u
           end.

Fixpoint dedup_codes (l : list (Z * Z * string)) : list (Z * Z * string) :=
  match l with
  | [] => []
  | x :: r => if existsb (code_eqb x) r then dedup_codes r else x :: dedup_codes r
  end.

Definition doc_judge (c : doc * world * list (string * mode) * list string * list (Z * Z * string)) : nat :=
  let '(d, W, fl, calls, effs) := c in
  let fails := fails_of fl in
  let '(_, evs) := m_doc W fails [] d in
  let ok_fetch := same_multiset String.eqb (fetches evs) calls in
  (* drawn rasters and embedded payloads are observed as sets in the PDF *)
  let visible := filter (fun x => let '(a, _, _) := x in negb (Z.eqb a 2) && negb (Z.eqb a 6))
                        (map effect_code (effects evs)) in
  let ok_eff := same_multiset code_eqb (dedup_codes visible) effs in
  (if ok_fetch then 0 else 1) + (if ok_eff then 0 else 4).
