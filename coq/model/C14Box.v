(* C14 - page box and margin box dimensions.
   Hand model, branch by branch, of weasyprint/layout/page.py: OrientedBox (sugar / outer / outer setter /
   outer_min_content_size / outer_max_content_size), page_width_or_height, compute_fixed_dimension,
   compute_variable_dimension and the positions given by make_margin_boxes.  Lengths are rationals; 'auto' is
   None.  Python exceptions are values (ErrDiv = ZeroDivisionError, ErrAssert = AssertionError, ErrType =
   arithmetic on 'auto').  Tied to /repo by the streams pwh-direct, cfd-direct, cvd-direct (exact, Fraction stubs)
   and marginbox-render (tolerance) of harness/p_c14.py. *)
From Coq Require Import QArith Qminmax Qabs List Bool.
Import ListNotations.
Open Scope Q_scope.

Definition oq := option Q.

Inductive result (A : Type) := Ok (v : A) | ErrDiv | ErrAssert | ErrType.
Arguments Ok {A} v. Arguments ErrDiv {A}. Arguments ErrAssert {A}. Arguments ErrType {A}.
Definition bind {A B} (r : result A) (f : A -> result B) : result B :=
  match r with Ok v => f v | ErrDiv => ErrDiv | ErrAssert => ErrAssert | ErrType => ErrType end.
Notation "'let!' x ':=' r 'in' k" := (bind r (fun x => k)) (at level 200, x pattern, r at level 100, k at level 200).

Definition qgt (x y : Q) : bool := negb (Qle_bool x y).          (* Python x > y *)
Definition qdivc (x y : Q) : result Q := if Qeq_bool y 0 then ErrDiv else Ok (x / y).
Definition is_auto (x : oq) : bool := match x with None => true | Some _ => false end.
Definition oget (x : oq) : result Q := match x with Some v => Ok v | None => ErrType end.

(* ----------------------------------------------------------------------------- page_width_or_height *)
(* returns (margin_a, inner, margin_b) as restore_box_attributes writes them back (they may stay 'auto' only
   if the function leaves them so - it never does) *)
Definition page_width_or_height (cb pb : Q) (ma inner mb : oq) : oq * oq * oq :=
  let remaining := cb - pb in
  match inner with
  | None =>
      let a := match ma with None => 0 | Some v => v end in
      let b := match mb with None => 0 | Some v => v end in
      (Some a, Some (remaining - a - b), Some b)
  | Some w =>
      match ma, mb with
      | None, None => (Some ((remaining - w) / 2), Some w, Some ((remaining - w) / 2))
      | None, Some b => (Some (remaining - w - b), Some w, Some b)
      | Some a, None => (Some a, Some w, Some (remaining - w - a))
      | Some a, Some b => (Some a, Some w, Some b)
      end
  end.

(* page_width = handle_min_max_width(page_width_or_height): re-run with the clamped width and the computed
   (specified) margins when the width leaves [min, max]; max = None is `inf` *)
Definition page_dimension (cb pb : Q) (ma inner mb : oq) (minw : Q) (maxw : oq) : oq * oq * oq :=
  let r1 := page_width_or_height cb pb ma inner mb in
  let w1 := match r1 with (_, Some w, _) => w | _ => 0 end in
  let r2 := match maxw with
            | Some mx => if qgt w1 mx then page_width_or_height cb pb ma (Some mx) mb else r1
            | None => r1
            end in
  let w2 := match r2 with (_, Some w, _) => w | _ => 0 end in
  if qgt minw w2 then page_width_or_height cb pb ma (Some minw) mb else r2.

(* ------------------------------------------------------------------------- compute_fixed_dimension *)
Definition count_auto (a i b : oq) : nat :=
  ((if is_auto a then 1 else 0) + (if is_auto i then 1 else 0) + (if is_auto b then 1 else 0))%nat.
Definition oval (x : oq) : Q := match x with Some v => v | None => 0 end.

Definition compute_fixed_dimension (outer pb : Q) (ma inner mb : oq) (top_or_left : bool) : result (Q * Q * Q) :=
  (* Rule 2 *)
  let total := pb + oval ma + oval mb + oval inner in
  let '(ma, mb, inner) :=
    if qgt total outer
    then (Some (oval ma), Some (oval mb), Some (oval inner))
    else (ma, mb, inner) in
  (* Rule 3 *)
  let '(ma, mb) :=
    if Nat.eqb (count_auto ma inner mb) 0
    then (if top_or_left then (None, mb) else (ma, None))
    else (ma, mb) in
  (* Rule 4 *)
  let '(ma, mb, inner) :=
    if Nat.eqb (count_auto ma inner mb) 1
    then match inner, ma, mb with
         | None, Some a, Some b => (ma, mb, Some (outer - pb - a - b))
         | Some i, None, Some b => (Some (outer - pb - b - i), mb, inner)
         | Some i, Some a, None => (ma, Some (outer - pb - a - i), inner)
         | _, _, _ => (ma, mb, inner)
         end
    else (ma, mb, inner) in
  (* Rule 5 *)
  let '(ma, mb, inner) :=
    match inner with
    | None => let a := oval ma in let b := oval mb in (Some a, Some b, Some (outer - pb - a - b))
    | Some _ => (ma, mb, inner)
    end in
  (* Rule 6 *)
  let '(ma, mb) :=
    match ma, mb, inner with
    | None, None, Some i => (Some ((outer - pb - i) / 2), Some ((outer - pb - i) / 2))
    | _, _, _ => (ma, mb)
    end in
  (* assert 'auto' not in [...] *)
  match ma, inner, mb with
  | Some a, Some i, Some b => Ok (a, i, b)
  | _, _, _ => ErrAssert
  end.

(* ----------------------------------------------------------------------- compute_variable_dimension *)
(* a margin box as the OrientedBox adapter sees it *)
Record mbox := mkB { m_a : oq; m_b : oq; m_inner : oq; m_pb : Q; m_min : Q; m_max : Q }.

Definition zero_margins (x : mbox) : mbox :=
  mkB (Some (oval (m_a x))) (Some (oval (m_b x))) (m_inner x) (m_pb x) (m_min x) (m_max x).
Definition sugar (x : mbox) : Q := m_pb x + oval (m_a x) + oval (m_b x).
Definition outer_min (x : mbox) : Q := sugar x + match m_inner x with None => m_min x | Some i => i end.
Definition outer_max (x : mbox) : Q := sugar x + match m_inner x with None => m_max x | Some i => i end.
Definition outer (x : mbox) : result Q := let! i := oget (m_inner x) in Ok (sugar x + i).
(* @outer.setter *)
Definition set_outer (x : mbox) (new_outer : Q) : mbox :=
  mkB (m_a x) (m_b x) (Some (Qmin (Qmax (m_min x) (new_outer - sugar x)) (m_max x))) (m_pb x) (m_min x) (m_max x).

(* `if flex_factor_sum == 0: flex_factor_sum = 1` then `flex_space * factor / flex_factor_sum` *)
Definition share (flex factor factor_sum : Q) : result Q :=
  let s := if Qeq_bool factor_sum 0 then 1 else factor_sum in
  qdivc (flex * factor) s.

Definition cvd_two_auto (avail : Q) (a c : mbox) : result (mbox * mbox) :=
  if qgt avail (outer_max a + outer_max c) then
    let flex := avail - outer_max a - outer_max c in
    let fa := outer_max a in let fc := outer_max c in
    let! sa := share flex fa (fa + fc) in
    let! sc := share flex fc (fa + fc) in
    Ok (set_outer a (outer_max a + sa), set_outer c (outer_max c + sc))
  else if qgt avail (outer_min a + outer_min c) then
    let flex := avail - outer_min a - outer_min c in
    let fa := m_max a - m_min a in let fc := m_max c - m_min c in
    let! sa := share flex fa (fa + fc) in
    let! sc := share flex fc (fa + fc) in
    Ok (set_outer a (outer_min a + sa), set_outer c (outer_min c + sc))
  else
    let flex := avail - outer_min a - outer_min c in
    let fa := m_min a in let fc := m_min c in
    let! sa := share flex fa (fa + fc) in
    let! sc := share flex fc (fa + fc) in
    Ok (set_outer a (outer_min a + sa), set_outer c (outer_min c + sc)).

Definition cvd_middle_auto (avail : Q) (a b c : mbox) : result mbox :=
  let ac_max := 2 * Qmax (outer_max a) (outer_max c) in
  if qgt avail (outer_max b + ac_max) then
    let flex := avail - outer_max b - ac_max in
    let fb := outer_max b in
    let! sb := share flex fb (fb + ac_max) in
    Ok (set_outer b (outer_max b + sb))
  else
    let ac_min := 2 * Qmax (outer_min a) (outer_min c) in
    if qgt avail (outer_min b + ac_min) then
      let flex := avail - outer_min b - ac_min in
      let fb := m_max b - m_min b in
      let! sb := share flex fb (fb + (ac_max - ac_min)) in
      Ok (set_outer b (outer_min b + sb))
    else
      let flex := avail - outer_min b - ac_min in
      let fb := m_min b in
      let! sb := share flex fb (fb + ac_min) in
      Ok (set_outer b (outer_min b + sb)).

(* gen_b = box_b.box.is_generated *)
Definition compute_variable_dimension (avail : Q) (a b c : mbox) (gen_b : bool) : result (mbox * mbox * mbox) :=
  let a := zero_margins a in let b := zero_margins b in let c := zero_margins c in
  let! abc :=
    if negb gen_b then
      match m_inner b with
      | Some i => if Qeq_bool i 0 then
          (if is_auto (m_inner a) && is_auto (m_inner c) then
             let! ac := cvd_two_auto avail a c in Ok (fst ac, b, snd ac)
           else if is_auto (m_inner a) then
             let! oc := outer c in Ok (set_outer a (avail - oc), b, c)
           else if is_auto (m_inner c) then
             let! oa := outer a in Ok (a, b, set_outer c (avail - oa))
           else Ok (a, b, c))
          else ErrAssert
      | None => ErrAssert
      end
    else
      let! b := (if is_auto (m_inner b) then cvd_middle_auto avail a b c else Ok b) in
      let! a := (if is_auto (m_inner a) then let! ob := outer b in Ok (set_outer a ((avail - ob) / 2)) else Ok a) in
      let! c := (if is_auto (m_inner c) then let! ob := outer b in Ok (set_outer c ((avail - ob) / 2)) else Ok c) in
      Ok (a, b, c) in
  let '(a, b, c) := abc in
  if is_auto (m_inner a) || is_auto (m_inner b) || is_auto (m_inner c) then ErrAssert else Ok (a, b, c).

(* outer size of a resolved box (margin_width() / margin_height()) *)
Definition outer_of (x : mbox) : Q := sugar x + oval (m_inner x).

(* make_margin_boxes: offsets 0, 0.5, 1 of (variable_outer - margin_width()) along the side, relative to the
   start of the side *)
Definition side_positions (avail : Q) (a b c : mbox) : Q * Q * Q :=
  (0, (1 # 2) * (avail - outer_of b), avail - outer_of c).

(* "when possible": the outer min-content sizes (explicit sizes for non-auto boxes) fit in the side.  With a
   generated centre box, css-page-3 centres it, so what must fit is B plus twice the larger of A and C. *)
Definition fits_possible (avail : Q) (a b c : mbox) (gen_b : bool) : Prop :=
  let a := zero_margins a in let b := zero_margins b in let c := zero_margins c in
  if gen_b then outer_min b + 2 * Qmax (outer_min a) (outer_min c) <= avail
  else outer_min a + outer_min c <= avail.
Definition fits_possible_b (avail : Q) (a b c : mbox) (gen_b : bool) : bool :=
  let a := zero_margins a in let b := zero_margins b in let c := zero_margins c in
  if gen_b then Qle_bool (outer_min b + 2 * Qmax (outer_min a) (outer_min c)) avail
  else Qle_bool (outer_min a + outer_min c) avail.

Definition content_ok (x : mbox) : Prop := m_min x <= m_max x.
Definition content_ok_b (x : mbox) : bool := Qle_bool (m_min x) (m_max x).

(* ------------------------------------------------------------------------------------------- judges *)
Definition oq_eqb (x y : oq) : bool :=
  match x, y with None, None => true | Some a, Some b => Qeq_bool a b | _, _ => false end.
Definition trip_eqb (x y : oq * oq * oq) : bool :=
  let '(a, i, b) := x in let '(a', i', b') := y in oq_eqb a a' && oq_eqb i i' && oq_eqb b b'.

(* pwh-direct: (cb, pb, ma, inner, mb, minw, maxw, use_minmax?) and the implementation's (ma, inner, mb) *)
Definition pwh_judge (c : (Q * Q) * (oq * oq * oq) * (Q * oq) * (oq * oq * oq)) : nat :=
  let '((cb, pb), (ma, inner, mb), (minw, maxw), out) := c in
  let m := page_dimension cb pb ma inner mb minw maxw in
  let '(oa, oi, ob) := out in
  ((if trip_eqb m out then 0 else 1) +
   (* spec (css-page-3 6.1 / CSS 2.1 10.3.3 with "the containing block is resized" for over-constraint): all
      used values are numbers; specified margins are kept; with an auto margin the box fills its containing
      block exactly; with auto size and no auto margin it does so unless min/max clamp the size *)
   (match oa, oi, ob with
    | Some a, Some i, Some b =>
        let fills := Qeq_bool (a + pb + i + b) cb in
        let at_bound := Qeq_bool i minw || match maxw with Some mx => Qeq_bool i mx | None => false end in
        if match ma with Some v => Qeq_bool v a | None => true end
           && match mb with Some v => Qeq_bool v b | None => true end
           && (if is_auto ma || is_auto mb then fills
               else if is_auto inner then fills || at_bound else true)
           && negb (qgt minw i)
        then 0 else 2
    | _, _, _ => 2
    end))%nat.

Definition res3_eqb (m : result (Q * Q * Q)) (out : option (Q * Q * Q)) : bool :=
  match m, out with
  | Ok (a, i, b), Some (a', i', b') => Qeq_bool a a' && Qeq_bool i i' && Qeq_bool b b'
  | ErrDiv, None | ErrAssert, None | ErrType, None => true
  | _, _ => false
  end.

(* cfd-direct: (outer, pb, ma, inner, mb, top_or_left) and the implementation's (ma, inner, mb) or None = raised *)
Definition cfd_judge (c : (Q * Q) * (oq * oq * oq) * bool * option (Q * Q * Q)) : nat :=
  let '((outer, pb), (ma, inner, mb), tol, out) := c in
  ((if res3_eqb (compute_fixed_dimension outer pb ma inner mb tol) out then 0 else 1) +
   (match out with
    | Some (a, i, b) =>
        if Qeq_bool (a + pb + i + b) outer
           && match inner with Some w => Qeq_bool w i | None => Qle_bool 0 i || qgt 0 pb
                                                               || qgt 0 (oval ma) || qgt 0 (oval mb) end
        then 0 else 2
    | None => 2
    end))%nat.

Definition mbox_out_eqb (x : mbox) (o : Q * Q * Q) : bool :=
  let '(a, i, b) := o in oq_eqb (m_a x) (Some a) && oq_eqb (m_inner x) (Some i) && oq_eqb (m_b x) (Some b).

(* cvd-direct: avail, three boxes, gen_b, and the implementation's three (ma, inner, mb) or None = raised *)
Definition cvd_judge (c : Q * (mbox * mbox * mbox) * bool * option ((Q * Q * Q) * (Q * Q * Q) * (Q * Q * Q))) : nat :=
  let '(avail, (a, b, c0), gen_b, out) := c in
  let m := compute_variable_dimension avail a b c0 gen_b in
  ((match m, out with
    | Ok (a', b', c'), Some (oa, ob, oc) =>
        if mbox_out_eqb a' oa && mbox_out_eqb b' ob && mbox_out_eqb c' oc then 0 else 1
    | Ok _, None => 1
    | _, Some _ => 1
    | _, None => 0
    end) +
   (match out with
    | Some ((a1, ai, a2), (b1, bi, b2), (c1, ci, c2)) =>
        let oa := (m_pb a + a1 + a2 + ai)%Q in let ob := (m_pb b + b1 + b2 + bi)%Q in let oc := (m_pb c0 + c1 + c2 + ci)%Q in
        if content_ok_b a && content_ok_b b && content_ok_b c0 && fits_possible_b avail a b c0 gen_b then
          (if gen_b
           then (if Qle_bool oa ((1 # 2) * (avail - ob)) && Qle_bool oc ((1 # 2) * (avail - ob)) then 0 else 2)
           else (if Qle_bool (oa + oc) avail then 0 else 2))
        else 0
    | None => 2
    end))%nat.

(* approximate comparison for the render stream: floats converted exactly to Q, tolerance 1/1000 px *)
Definition qnear (x y : Q) : bool := Qle_bool (Qabs (x - y)) (1 # 1000).
Definition mbox_out_near (x : mbox) (o : Q * Q * Q) : bool :=
  let '(a, i, b) := o in qnear (oval (m_a x)) a && qnear (oval (m_inner x)) i && qnear (oval (m_b x)) b.

(* marginbox-render, one side of one page: avail (page border-box side), the three boxes as specified (with
   min/max-content computed by the harness from the words), which are generated, and for each generated box
   the used (ma, inner, mb) and its position along the side relative to the side start.
   bit 0: model <> implementation (sizes or positions); bit 1: the geometric property fails on the
   implementation's rectangles although `fits_possible` holds *)
Definition side_judge
  (c : Q * (mbox * mbox * mbox) * (bool * bool * bool) *
       ((Q * Q * Q) * (Q * Q * Q) * (Q * Q * Q)) * (Q * Q * Q)) : nat :=
  let '(avail, (a, b, c0), (ga, gb, gc), (oa, ob, oc), (pa, pb_, pc)) := c in
  let m := compute_variable_dimension avail a b c0 gb in
  ((match m with
    | Ok (a', b', c') =>
        let '(ma_, mb_, mc_) := side_positions avail a' b' c' in
        if (negb ga || (mbox_out_near a' oa && qnear ma_ pa))
           && (negb gb || (mbox_out_near b' ob && qnear mb_ pb_))
           && (negb gc || (mbox_out_near c' oc && qnear mc_ pc)) then 0 else 1
    | _ => 1
    end) +
   (let w (x : mbox) (o : Q * Q * Q) := let '(m1, i, m2) := o in (m_pb x + m1 + i + m2)%Q in
    let wa := w a oa in let wb := w b ob in let wc := w c0 oc in
    let eps := (1 # 1000)%Q in
    let nonneg := Qle_bool 0 wa && Qle_bool 0 wb && Qle_bool 0 wc in
    if content_ok_b a && content_ok_b b && content_ok_b c0 && fits_possible_b avail a b c0 gb then
      (if (negb gb || qnear (pb_ + wb / 2) (avail / 2))
          (* no overlap along the side *)
          && (negb (ga && gb) || Qle_bool (pa + wa) (pb_ + eps))
          && (negb (gb && gc) || Qle_bool (pb_ + wb) (pc + eps))
          && (negb (ga && gc) || (gb && negb nonneg) || Qle_bool (pa + wa) (pc + eps))
          (* inside the side, unless a negative margin makes an outer size negative (css-page-3 then lets the
             neighbour grow by that much) *)
          && (negb nonneg ||
              ((negb ga || (Qle_bool (0 - eps) pa && Qle_bool (pa + wa) (avail + eps)))
               && (negb gb || (Qle_bool (0 - eps) pb_ && Qle_bool (pb_ + wb) (avail + eps)))
               && (negb gc || (Qle_bool (0 - eps) pc && Qle_bool (pc + wc) (avail + eps)))))
       then 0 else 2)
    else 0))%nat.

(* ---- render-level judges for the fixed dimension of margin boxes and for the page box (tolerance 1/1000) ---- *)
Definition near3 (m : result (Q * Q * Q)) (o : Q * Q * Q) : bool :=
  match m with
  | Ok (a, i, b) => let '(a', i', b') := o in qnear a a' && qnear i i' && qnear b b'
  | _ => false
  end.

(* marginbox-render, fixed dimension of one generated margin box: (outer = page margin on that side, pb),
   specified (margin_a, inner, margin_b), top_or_left as make_margin_boxes must pass it, used values *)
Definition fixed_render_judge (c : (Q * Q) * (oq * oq * oq) * bool * (Q * Q * Q)) : nat :=
  let '((outer, pb), (ma, inner, mb), tol, out) := c in
  let '(a, i, b) := out in
  ((if near3 (compute_fixed_dimension outer pb ma inner mb tol) out then 0 else 1) +
   (if qnear (a + pb + i + b) outer && match inner with Some w => qnear w i | None => Qle_bool (0 - (1 # 1000)) i end
    then 0 else 2))%nat.

(* marginbox-render, one dimension of the page box: (page size, pb), specified (margin_a, inner, margin_b),
   (min, max), used values *)
Definition page_render_judge (c : (Q * Q) * (oq * oq * oq) * (Q * oq) * (Q * Q * Q)) : nat :=
  let '((cb, pb), (ma, inner, mb), (minw, maxw), out) := c in
  let '(a, i, b) := out in
  let m := page_dimension cb pb ma inner mb minw maxw in
  ((match m with
    | (Some a', Some i', Some b') => if qnear a a' && qnear i i' && qnear b b' then 0 else 1
    | _ => 1
    end) +
   (let fills := qnear (a + pb + i + b) cb in
    let at_bound := qnear i minw || match maxw with Some mx => qnear i mx | None => false end in
    if match ma with Some v => qnear v a | None => true end
       && match mb with Some v => qnear v b | None => true end
       && (if is_auto ma || is_auto mb then fills else if is_auto inner then fills || at_bound else true)
    then 0 else 2))%nat.
