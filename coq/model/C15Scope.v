(* C15 - counter scoping.
   MODEL: formatting_structure/build.py, update_counters and the scope push/pop of element_to_box /
   before_after_to_box, as a state machine over a DOM tree:
     counter_values : name -> stack of values   (Python dict of lists; here a function, [] = key absent, the
                                                 head of the list is Python's values[-1])
     counter_scopes : stack of sets of names    (head = counter_scopes[-1], the "sibling scopes")
   Python exceptions (KeyError/IndexError on pop, AssertionError) are the value None.
   SPEC: an independent reference interpreter of CSS 2.1 section 12.4 scoping written over a different
   representation (a stack of levels, each an association list name -> value):
     counter-reset on an element creates a counter whose scope is the element, its descendants and its following
       siblings with their descendants; a later reset on a following sibling (or on the same element) replaces it;
     counter-set / counter-increment act on the innermost counter in scope, creating one on the element (value 0)
       when there is none;
     elements with display:none and pseudo-elements that are not generated do nothing;
     ::before / ::after behave as first / last child. *)
From Coq Require Import ZArith List String Bool Lia.
Import ListNotations.
Open Scope Z_scope.

Definition name := string.
Definition upd := list (name * Z).

(* the counter properties of one style; p_inc = None is the initial value 'auto' *)
Record props := mkProps { p_reset : upd; p_set : upd; p_inc : option upd; p_list_item : bool }.

(* element: displayed?, its style, ::before (None = not generated), children, ::after *)
Inductive node := Elem (displayed : bool) (p : props) (before : option props) (kids : list node)
                       (after : option props).

(* ----------------------------------------------------------------------------------------- model *)
Record state := mkState { values : name -> list Z; scopes : list (list name) }.

Definition mem (n : name) (l : list name) : bool := existsb (String.eqb n) l.
Definition upd_fun (f : name -> list Z) (n : name) (v : list Z) : name -> list Z :=
  fun m => if String.eqb n m then v else f m.

(* for name, value in style['counter_reset'] *)
Definition do_reset (st : state) (nv : name * Z) : option state :=
  let '(n, v) := nv in
  match scopes st with
  | [] => None
  | sib :: rest =>
    if mem n sib then
      match values st n with
      | [] => None                                            (* counter_values[name].pop() fails *)
      | _ :: tl => Some (mkState (upd_fun (values st) n (v :: tl)) (scopes st))
      end
    else Some (mkState (upd_fun (values st) n (v :: values st n)) ((n :: sib) :: rest))
  end.

(* counter-set: f = fun _ => value ; counter-increment: f = fun x => x + value *)
Definition do_modify (f : Z -> Z) (st : state) (n : name) : option state :=
  match scopes st with
  | [] => None
  | sib :: rest =>
    match values st n with
    | [] => if mem n sib then None                            (* assert name not in sibling_scopes *)
            else Some (mkState (upd_fun (values st) n [f 0]) ((n :: sib) :: rest))
    | x :: tl => Some (mkState (upd_fun (values st) n (f x :: tl)) (scopes st))
    end
  end.

Fixpoint fold_opt {A} (step : state -> A -> option state) (l : list A) (st : state) : option state :=
  match l with
  | [] => Some st
  | a :: tl => match step st a with Some st' => fold_opt step tl st' | None => None end
  end.

Definition increments (p : props) : upd :=
  match p_inc p with
  | Some l => l
  | None => if p_list_item p then [("list-item"%string, 1)] else []
  end.

(* reset loop, then the increment loop, then the counter-set loop *)
Definition update_counters (st : state) (p : props) : option state :=
  match fold_opt do_reset (p_reset p) st with
  | None => None
  | Some st1 =>
    match fold_opt (fun s nv => do_modify (fun x => x + snd nv) s (fst nv)) (increments p) st1 with
    | None => None
    | Some st2 => fold_opt (fun s nv => do_modify (fun _ => snd nv) s (fst nv)) (p_set p) st2
    end
  end.

Definition push_scope (st : state) : state := mkState (values st) ([] :: scopes st).

(* for name in counter_scopes.pop(): counter_values[name].pop() (and drop the key when empty) *)
Definition pop_one (st : state) (n : name) : option state :=
  match values st n with
  | [] => None
  | _ :: tl => Some (mkState (upd_fun (values st) n tl) (scopes st))
  end.
Definition pop_scope (st : state) : option state :=
  match scopes st with
  | [] => None
  | top :: rest => fold_opt pop_one top (mkState (values st) rest)
  end.

(* what content: counters(n, ".") / the list marker would print at this point: the whole stack *)
Definition obs := name -> list Z.

Definition run_pseudo (st : state) (ps : option props) : option (state * list obs) :=
  match ps with
  | None => Some (st, [])
  | Some p => match update_counters st p with
              | Some st' => Some (st', [values st'])
              | None => None
              end
  end.

Fixpoint run_node (st : state) (nd : node) : option (state * list obs) :=
  match nd with
  | Elem displayed p before kids after =>
    if negb displayed then Some (st, []) else
    match update_counters st p with
    | None => None
    | Some st1 =>
      let st2 := push_scope st1 in
      match run_pseudo st2 before with
      | None => None
      | Some (st3, ob) =>
        match (fix run_kids (st : state) (ks : list node) : option (state * list obs) :=
                 match ks with
                 | [] => Some (st, [])
                 | k :: tl =>
                   match run_node st k with
                   | None => None
                   | Some (st', o) =>
                     match run_kids st' tl with
                     | None => None
                     | Some (st'', o') => Some (st'', o ++ o')
                     end
                   end
                 end) st3 kids with
        | None => None
        | Some (st4, ok) =>
          match run_pseudo st4 after with
          | None => None
          | Some (st5, oa) =>
            match pop_scope st5 with
            | None => None
            | Some st6 => Some (st6, values st2 :: ob ++ ok ++ oa)     (* marker / anchor see st2 *)
            end
          end
        end
      end
    end
  end.

Fixpoint run_nodes (st : state) (ks : list node) : option (state * list obs) :=
  match ks with
  | [] => Some (st, [])
  | k :: tl =>
    match run_node st k with
    | None => None
    | Some (st', o) =>
      match run_nodes st' tl with
      | None => None
      | Some (st'', o') => Some (st'', o ++ o')
      end
    end
  end.

(* initial state of element_to_box: {'footnote': [0]}, [{'footnote'}] *)
Definition init_state : state :=
  mkState (fun n => if String.eqb n "footnote" then [0] else []) [["footnote"%string]].

(* ------------------------------------------------------------------- content lists parsed again later
   compute_content_list stores, at the FIRST parse of a box's content, a copy of the counter values on the box
   (parent_box.cached_counter_values = {key: value.copy() ...}).  The closure parse_again, called after the tree
   is built (pending targets) or during pagination (page-based counters) with the page counters to mix in, does
       local_counters = mixin_pagebased_counters.copy()        # or {}
       local_counters.update(parent_box.cached_counter_values)
   and parses the content with local_counters: it never reads the builder's live counter state. *)
Record content_box := mkBox { cached : obs }.
Definition first_parse (st : state) : content_box := mkBox (values st).
Definition local_counters (b : content_box) (mixin : obs) : obs :=
  fun n => match cached b n with [] => mixin n | l => l end.
(* counter_values.get(name, [0]) *)
Definition lookup_counter (vals : obs) (n : name) : list Z := match vals n with [] => [0] | l => l end.
(* what counter(n) / counters(n) print when the content of b is parsed again while the builder is in state [live] *)
Definition parse_again (b : content_box) (live : state) (mixin : obs) (n : name) : list Z :=
  lookup_counter (local_counters b mixin) n.

(* ------------------------------------------------------------------------------- reference (spec) *)
Definition level := list (name * Z).

Fixpoint assoc (n : name) (l : level) : option Z :=
  match l with
  | [] => None
  | (k, v) :: tl => if String.eqb k n then Some v else assoc n tl
  end.
Fixpoint update_assoc (n : name) (f : Z -> Z) (l : level) : level :=
  match l with
  | [] => []
  | (k, v) :: tl => if String.eqb k n then (k, f v) :: tl else (k, v) :: update_assoc n f tl
  end.
Definition in_level (n : name) (l : level) : bool := match assoc n l with Some _ => true | None => false end.

(* a reset creates a counter at the current sibling level, replacing one created there earlier *)
Definition ref_reset (lv : list level) (nv : name * Z) : list level :=
  match lv with
  | [] => []
  | l :: rest => (if in_level (fst nv) l then update_assoc (fst nv) (fun _ => snd nv) l else nv :: l) :: rest
  end.

Fixpoint modify_innermost (f : Z -> Z) (n : name) (lv : list level) : option (list level) :=
  match lv with
  | [] => None
  | l :: rest =>
    if in_level n l then Some (update_assoc n f l :: rest)
    else match modify_innermost f n rest with Some r => Some (l :: r) | None => None end
  end.
Definition ref_modify (f : Z -> Z) (lv : list level) (n : name) : list level :=
  match modify_innermost f n lv with
  | Some lv' => lv'
  | None => match lv with [] => [] | l :: rest => ((n, f 0) :: l) :: rest end
  end.

(* CSS Lists 3, 4.6: a list item increments list-item by 1 in addition to its explicit counter-increment,
   unless that one names list-item itself *)
Definition mentions (n : name) (l : upd) : bool := existsb (fun nv => String.eqb (fst nv) n) l.
Definition spec_increments (p : props) : upd :=
  match p_inc p with
  | Some l => if p_list_item p && negb (mentions "list-item"%string l) then l ++ [("list-item"%string, 1)] else l
  | None => if p_list_item p then [("list-item"%string, 1)] else []
  end.

(* CSS Lists 3, 4.4: counters are reset, then incremented, then set, then used *)
Definition ref_update (lv : list level) (p : props) : list level :=
  let lv1 := fold_left ref_reset (p_reset p) lv in
  let lv2 := fold_left (fun s nv => ref_modify (fun x => x + snd nv) s (fst nv)) (spec_increments p) lv1 in
  fold_left (fun s nv => ref_modify (fun _ => snd nv) s (fst nv)) (p_set p) lv2.

(* the counters named n in scope, innermost first *)
Definition ref_obs (lv : list level) : obs :=
  fun n => flat_map (fun l => match assoc n l with Some v => [v] | None => [] end) lv.

Definition ref_pseudo (lv : list level) (ps : option props) : list level * list obs :=
  match ps with
  | None => (lv, [])
  | Some p => let lv' := ref_update lv p in (lv', [ref_obs lv'])
  end.

Fixpoint ref_node (lv : list level) (nd : node) : list level * list obs :=
  match nd with
  | Elem displayed p before kids after =>
    if negb displayed then (lv, []) else
    let lv2 := [] :: ref_update lv p in
    let '(lv3, ob) := ref_pseudo lv2 before in
    let '(lv4, ok) :=
      (fix ref_kids (lv : list level) (ks : list node) : list level * list obs :=
         match ks with
         | [] => (lv, [])
         | k :: tl => let '(lv', o) := ref_node lv k in let '(lv'', o') := ref_kids lv' tl in (lv'', o ++ o')
         end) lv3 kids in
    let '(lv5, oa) := ref_pseudo lv4 after in
    (tl lv5, ref_obs lv2 :: ob ++ ok ++ oa)
  end.

Fixpoint ref_nodes (lv : list level) (ks : list node) : list level * list obs :=
  match ks with
  | [] => (lv, [])
  | k :: tl => let '(lv', o) := ref_node lv k in let '(lv'', o') := ref_nodes lv' tl in (lv'', o ++ o')
  end.

Definition init_levels : list level := [[("footnote"%string, 0)]].

(* ------------------------------------------------------------------------------- judge (renders) *)
(* a render prints, for each generated box in tree order (element marker position, ::before, ::after), the
   stacks of the observed names outermost first; the case carries the document and what was printed *)
(* what one observation point printed: nothing generated there (no marker box), the stacks of all observed
   names (content: counters(..)), or only the innermost value of the LAST observed name (a default list marker
   "N. " when the last name is list-item) *)
Inductive point :=
| PNone | PFull (l : list (list Z)) | PTop (z : Z)
| PRef (l : list (list Z)) (j : nat) (t : list (list Z)).   (* own stacks l, and target-counters() of the element whose
                                                             anchor is observation point j printed t *)
Definition printed := list point.

Definition show (names : list name) (o : obs) : list (list Z) :=
  map (fun n => match o n with [] => [0] | l => rev l end) names.

Definition zs_eqb (a b : list Z) : bool :=
  Nat.eqb (List.length a) (List.length b) && forallb (fun p => Z.eqb (fst p) (snd p)) (combine a b).
Fixpoint zss_eqb (a b : list (list Z)) : bool :=
  match a, b with
  | [], [] => true
  | x :: a', y :: b' => zs_eqb x y && zss_eqb a' b'
  | _, _ => false
  end.
Definition point_ok (all : list (list (list Z))) (x : list (list Z)) (y : point) : bool :=
  match y with
  | PNone => true
  | PFull l => zss_eqb x l
  | PTop z => Z.eqb (last (last x []) 0) z
  | PRef l j t => zss_eqb x l && zss_eqb (nth j all []) t
  end.
Fixpoint printed_from (all a : list (list (list Z))) (b : printed) : bool :=
  match a, b with
  | [], [] => true
  | x :: a', y :: b' => point_ok all x y && printed_from all a' b'
  | _, _ => false
  end.
Definition printed_eqb (a : list (list (list Z))) (b : printed) : bool := printed_from a a b.

(* the open finding "an explicit counter-increment on a list item suppresses the implicit list-item increment",
   as a transformation of the document: such list items are treated as if they were not list items *)
Definition strip_props (p : props) : props :=
  match p_inc p with
  | Some l => if p_list_item p && negb (mentions "list-item"%string l)
              then mkProps (p_reset p) (p_set p) (p_inc p) false else p
  | None => p
  end.
Fixpoint strip (nd : node) : node :=
  match nd with
  | Elem d p b kids a => Elem d (strip_props p) (option_map strip_props b) (map strip kids) (option_map strip_props a)
  end.

(* bit 0: model <> implementation ; bit 1: implementation <> reference interpreter of the CSS rules ;
   bit 2: implementation <> reference interpreter even when the known list-item deviation is granted *)
Definition scope_judge (c : list name * node * printed) : nat :=
  let '(names, doc, out) := c in
  let m := match run_node init_state doc with Some (_, o) => Some (map (show names) o) | None => None end in
  let r := map (show names) (snd (ref_node init_levels doc)) in
  let r' := map (show names) (snd (ref_node init_levels (strip doc))) in
  ((match m with Some p => if printed_eqb p out then 0 else 1 | None => 1 end) +
   (if printed_eqb r out then 0 else 2) + (if printed_eqb r' out then 0 else 4))%nat.
