(* C19 - arguments are read-only: hand model of how a render_call of HTML.render / write_pdf treats the containers the caller
   passes and may pass again: Document._build_layout_context (weasyprint/document.py) walks options['stylesheets'],
   turns every sheet that is not a CSS object into one - parsed NOW, against the FontConfiguration / CounterStyle of
   THIS render_call, which is where @font-face and @counter-style rules are registered - and collects the result in a NEW
   list `user_stylesheets`; the caller's list keeps its items.  Definitions only.

   An sheet of the caller's list is a source (file name, URL, file object: Raw) or a CSS object the caller built
   earlier (Parsed, with the environment - FontConfiguration / CounterStyle identity - it was parsed against).
   The environment of a render_call is a number: a render without font_config gets a fresh one (never seen before), a caller
   who shares one passes the same number each time.  What a stylesheet contributes to the output is its source and
   whether its parse-time rules are registered in the environment of the render that uses it. *)
From Coq Require Import ZArith List Bool.
Import ListNotations.
Open Scope Z_scope.

Inductive sheet := Raw (src : Z) | Parsed (src : Z) (env : Z).

(* CSS(guess=sheet, font_config=..., counter_style=...) for a source; a CSS object is taken as it is *)
Definition parse (env : Z) (i : sheet) : sheet :=
  match i with Raw s => Parsed s env | Parsed s e => Parsed s e end.

(* what the render sees of one sheet: (source, are its @font-face/@counter-style rules registered for this render) *)
Definition effect (env : Z) (i : sheet) : Z * bool :=
  match i with Raw s => (s, false) | Parsed s e => (s, e =? env) end.

(* one render_call: (the caller's list afterwards, the output) *)
Definition render_call (env : Z) (sheets : list sheet) : list sheet * list (Z * bool) :=
  let user_stylesheets := map (parse env) sheets in        (* a new list *)
  (sheets, map (effect env) user_stylesheets).

(* the variant that fills the caller's list in place (user_stylesheets = options['stylesheets']; lst[i] = CSS(...)) *)
Definition render_call_in_place (env : Z) (sheets : list sheet) : list sheet * list (Z * bool) :=
  let user_stylesheets := map (parse env) sheets in
  (user_stylesheets, map (effect env) user_stylesheets).

(* successive render_calls with the same list object *)
Fixpoint render_calls (f : Z -> list sheet -> list sheet * list (Z * bool)) (envs : list Z) (sheets : list sheet)
  : list sheet * list (list (Z * bool)) :=
  match envs with
  | [] => (sheets, [])
  | e :: r => let '(s1, o) := f e sheets in let '(s2, os) := render_calls f r s1 in (s2, o :: os)
  end.

Definition env_of (i : sheet) : list Z := match i with Raw _ => [] | Parsed _ e => [e] end.
Definition envs_in (sheets : list sheet) : list Z := flat_map env_of sheets.

(* ---- judge of the correspondence stream: the kinds of the items of the caller's list before, the environments of
   the render_calls (0 = the shared one, k > 0 = the fresh one of render_call k), the kinds observed after each render_call, and whether
   the outputs of the render_calls were all equal ---- *)
Definition kind_eqb (i : sheet) (parsed : bool) : bool :=
  match i with Raw _ => negb parsed | Parsed _ _ => parsed end.
Fixpoint kinds_eqb (l : list sheet) (k : list bool) : bool :=
  match l, k with
  | [], [] => true
  | i :: r, b :: s => kind_eqb i b && kinds_eqb r s
  | _, _ => false
  end.
Fixpoint out_eqb (a b : list (Z * bool)) : bool :=
  match a, b with
  | [], [] => true
  | (s, x) :: r, (s', x') :: r' => (s =? s') && Bool.eqb x x' && out_eqb r r'
  | _, _ => false
  end.

Definition acase := (list sheet * list Z * list (list bool) * bool)%type.

Definition args_judge (c : acase) : nat :=
  let '(sheets, envs, observed_kinds, outputs_equal) := c in
  (* bit 0: after every render_call the caller's list is what the model says: unchanged *)
  let same := (Nat.eqb (length observed_kinds) (length envs)) && forallb (kinds_eqb sheets) observed_kinds in
  (* bit 1: the property on the implementation's outputs: every render_call gives what the first gave, as the model does *)
  let model_equal := match snd (render_calls render_call envs sheets) with
                     | [] => true
                     | o :: r => forallb (out_eqb o) r
                     end in
  ((if same then 0 else 1) + (if Bool.eqb outputs_equal model_equal && outputs_equal then 0 else 2))%nat.
