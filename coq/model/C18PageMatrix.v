(* C18 - where generate_pdf (weasyprint/pdf/__init__.py) puts a page and its links in PDF space: hand model of the
   per-page statements `matrix = Matrix(scale, 0, 0, -scale, 0, page.height * scale)` ... `page_rectangle = ...`
   and `trim_left = ...` ... `trim_bottom = ...`.  Lengths are CSS px, scale = zoom * 0.75 PDF points per px;
   bleed = (left, top, right, bottom).  Definitions only. *)
From Coq Require Import QArith.
Require Import WV.model.C18Aabb.
Open Scope Q_scope.

(* the matrix handed to add_links / add_annotations / add_forms (and through them to rectangle_aabb) *)
Definition page_matrix (s ph : Q) : matrix := (s, 0, 0, - s, 0, ph * s).

(* what the property demands: a point x px right of / y px below the top-left corner of the page box lies
   x*scale points right of and (height - y)*scale points above the PDF origin (the bottom-left corner of the page
   box: the TrimBox), whatever the bleed *)
Definition css_to_pdf (s ph x y : Q) : Q * Q := (x * s, (ph - y) * s).

Definition rect := (Q * Q * Q * Q)%type.
(* [left, top, right, bottom] of the MediaBox *)
Definition media_box (s pw ph bl bt br bb : Q) : rect :=
  let page_width := s * (pw + bl + br) in
  let page_height := s * (ph + bt + bb) in
  let mleft := - s * bl in
  let mtop := - s * bt in
  (mleft, mtop, mleft + page_width, mtop + page_height).
(* page_rectangle of the content stream *)
Definition page_rectangle (s pw ph bl bt br bb : Q) : rect :=
  let '(mleft, mtop, mright, mbottom) := media_box s pw ph bl bt br bb in
  (mleft / s, mtop / s, (mright - mleft) / s, (mbottom - mtop) / s).
(* TrimBox: the MediaBox inset by the bleed at scale *)
Definition trim_box (media : rect) (l t r b : Q) : rect :=
  let '(mleft, mtop, mright, mbottom) := media in (mleft + l, mtop + t, mright - r, mbottom - b).
