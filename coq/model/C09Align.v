(* C09 - horizontal offsets of a line (text_align, justify_line, add_word_spacing, the rtl mirror of
   get_next_linebox) and vertical stacking of lines (line_box_verticality on baseline-aligned children,
   iter_line_boxes), weasyprint/layout/inline.py.  Models in Q.  Definitions only. *)
From Coq Require Import ZArith QArith Qminmax List Bool.
Import ListNotations.
Open Scope Q_scope.

(* ---------------------------------------------------------------------------------------- text_align *)
Inductive align := AStart | AEnd | ALeft | ARight | ACenter | AJustify.
Inductive align_last := LAuto | LSome (a : align).

(* returns (offset, Some extra_width when justify_line is called) *)
Definition text_align (line_width available : Q) (a_all : align) (a_last : align_last) (rtl collapse last : bool)
  : Q * option Q :=
  if Qle_bool available line_width then (0, None)
  else
    let a := if last then match a_last with LAuto => a_all | LSome x => x end else a_all in
    let a := match a with
             | ALeft => if xorb true rtl then AStart else AEnd
             | ARight => if xorb false rtl then AStart else AEnd
             | x => x
             end in
    match a with
    | AStart => (0, None)
    | AJustify => (0, if collapse then Some (available - line_width) else None)
    | ACenter => ((available - line_width) / 2, None)
    | _ => (available - line_width, None)
    end.

Definition effective_b (a : align) (l : align_last) (last : bool) : align :=
  if last then match l with LAuto => a | LSome x => x end else a.

(* get_next_linebox: position of the left edge of the line box after line.translate(offset_x);
   x = position_x returned by avoid_collisions (left bound in ltr; in rtl the bound minus the width the line box
   had when it was asked, 0 without floats, so x is the right bound) *)
Definition line_left (rtl : bool) (x offset line_width : Q) : Q :=
  if rtl then x + (- offset - line_width) else x + offset.

(* ------------------------------------------------------------------------- justify / add_word_spacing *)
Inductive ibox :=
| T (spaces : nat) (x w js : Q)              (* TextBox: number of expandable spaces, position_x, width, justification_spacing *)
| I (rtl : bool) (x w : Q) (kids : list ibox)   (* InlineBox / LineBox *)
| A (x w : Q) (inside : list ibox)           (* atomic inline-level box (inline-block, inline-table, ...) and the boxes
                                                laid out inside it, positioned in page coordinates *)
| F (x w : Q).                                (* out-of-flow child: skipped *)

Fixpoint count_spaces (b : ibox) : nat :=
  match b with
  | T n _ _ _ => n
  | I _ _ _ kids => fold_right (fun k acc => (count_spaces k + acc)%nat) O kids
  | _ => O
  end.

(* Box.translate(dx): the box and every descendant *)
Fixpoint shift (d : Q) (b : ibox) : ibox :=
  match b with
  | T n x w j => T n (x + d) w j
  | I r x w kids => I r (x + d) w (map (shift d) kids)
  | A x w ins => A (x + d) w (map (shift d) ins)
  | F x w => F (x + d) w
  end.

Section Go.
  Variable f : ibox -> Q -> ibox * Q.
  (* children in document order (ltr) or reversed (rtl: `children[::-1]`), the advance threaded through *)
  Fixpoint ltr_go (l : list ibox) (a : Q) : list ibox * Q :=
    match l with
    | [] => ([], a)
    | k :: r => let '(k', a1) := f k a in
                let '(r', a2) := ltr_go r a1 in (k' :: r', a2)
    end.
  Fixpoint rtl_go (l : list ibox) (a : Q) : list ibox * Q :=
    match l with
    | [] => ([], a)
    | k :: r => let '(r', a1) := rtl_go r a in
                let '(k', a2) := f k a1 in (k' :: r', a2)
    end.
End Go.

Fixpoint add_word_spacing (b : ibox) (js adv : Q) : ibox * Q :=
  match b with
  | T n x w old =>
      if (0 <? n)%nat then (T n (x + adv) (w + js * inject_Z (Z.of_nat n)) js, adv + js * inject_Z (Z.of_nat n))
      else (T n (x + adv) w js, adv)
  | I rtl x w kids =>
      let '(kids', a') := if rtl then rtl_go (fun k a => add_word_spacing k js a) kids adv
                          else ltr_go (fun k a => add_word_spacing k js a) kids adv in
      (I rtl (x + adv) (w + (a' - adv)) kids', a')
  | A x w ins => (shift adv (A x w ins), adv)           (* box.translate(x_advance, 0) *)
  | F x w => (F x w, adv)
  end.

Definition justify_line (line : ibox) (extra : Q) : ibox :=
  let n := count_spaces line in
  if (0 <? n)%nat then fst (add_word_spacing line (extra / inject_Z (Z.of_nat n)) 0) else line.

Definition box_w (b : ibox) : Q := match b with T _ _ w _ | I _ _ w _ | A _ w _ | F _ w => w end.
Definition box_x (b : ibox) : Q := match b with T _ x _ _ | I _ x _ _ | A x _ _ | F x _ => x end.

(* every box laid out inside an atomic box lies inside that box, at every depth *)
Fixpoint well_nested (b : ibox) : Prop :=
  match b with
  | A x w ins =>
      (fix go (l : list ibox) : Prop :=
         match l with
         | [] => True
         | d :: r => (x <= box_x d /\ box_x d + box_w d <= x + w /\ well_nested d) /\ go r
         end) ins
  | I _ _ _ kids =>
      (fix go (l : list ibox) : Prop := match l with [] => True | k :: r => well_nested k /\ go r end) kids
  | _ => True
  end.

(* decidable rendition, for the judges *)
Fixpoint well_nested_b (b : ibox) : bool :=
  match b with
  | A x w ins =>
      (fix go (l : list ibox) : bool :=
         match l with
         | [] => true
         | d :: r => Qle_bool x (box_x d) && Qle_bool (box_x d + box_w d) (x + w) && well_nested_b d && go r
         end) ins
  | I _ _ _ kids =>
      (fix go (l : list ibox) : bool := match l with [] => true | k :: r => well_nested_b k && go r end) kids
  | _ => true
  end.

(* --------------------------------------------------------------------------------- vertical stacking *)
(* line_box_verticality for children with vertical-align: baseline: each child is (baseline, margin_height),
   the line box itself (the strut) is one more such pair; returns (max_y, min_y) around the baseline y = 0 *)
Definition vert_child (acc : Q * Q) (c : Q * Q) : Q * Q :=
  let top := - fst c in let bottom := top + snd c in
  (Qmax (fst acc) bottom, Qmin (snd acc) top).
Definition verticality (strut : Q * Q) (children : list (Q * Q)) : Q * Q :=
  fold_left vert_child children (- fst strut + snd strut, - fst strut).
Definition line_height_of (strut : Q * Q) (children : list (Q * Q)) : Q :=
  let '(mx, mn) := verticality strut children in mx - mn.

(* iter_line_boxes: position_y = line.position_y + line.height *)
Fixpoint stack (y : Q) (heights : list Q) : list (Q * Q) :=
  match heights with [] => [] | h :: r => (y, h) :: stack (y + h) r end.
