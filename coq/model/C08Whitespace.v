(* C08 - white-space processing and text-transform: hand model of
   weasyprint/formatting_structure/build.py  process_whitespace / process_text_transform / capitalize.
   Definitions only (proofs: proofs/C08_whitespace.v).

   Text is a list of bytes (ascii): the UTF-8 encoding of the Python str.  The regular expressions of the
   code (LINE_FEED_RE = '\r\n?', TAB_RE = '[\t ]*\n[\t ]*', SPACE_RE = '[\t ]+') only mention ASCII characters
   and UTF-8 is self-synchronising, so substitution on code points and on bytes coincide.

   process_whitespace(box, following_collapsible_space):
     TextBox:   '' -> return the flag unchanged
                text = LINE_FEED_RE.sub('\n')            norm_lf
                if space_collapse: TAB_RE.sub('\n')      strip_nl
                if new_line_collapse: replace('\n',' ')  nl_to_sp
                if space_collapse: SPACE_RE.sub(' ') ; drop one leading ' ' when the flag is set
                                   (leading_collapsible_space = True) ; flag = previous_text.endswith(' ')
                else flag = False
     other box: children in order; TextBox/InlineBox children are processed recursively and hand their flag on
                if child.is_in_normal_flow() (whether the box itself is in flow or not); any other in-flow child
                resets the flag; returns flag and not box.is_running(). *)
From Coq Require Import List Ascii Bool Arith NArith.
Import ListNotations.

Definition TAB : ascii := ascii_of_nat 9.
Definition LF : ascii := ascii_of_nat 10.
Definition CR : ascii := ascii_of_nat 13.
Definition SP : ascii := ascii_of_nat 32.

Inductive cclass := Kts | Klf | Kcr | Kot.        (* [\t ] , \n , \r , anything else *)

Definition cls (c : ascii) : cclass :=
  if Ascii.eqb c TAB then Kts else if Ascii.eqb c SP then Kts
  else if Ascii.eqb c LF then Klf else if Ascii.eqb c CR then Kcr else Kot.

Definition is_ts (c : ascii) : bool := match cls c with Kts => true | _ => false end.
Definition is_lf (c : ascii) : bool := match cls c with Klf => true | _ => false end.
Definition is_cr (c : ascii) : bool := match cls c with Kcr => true | _ => false end.
(* document white space of CSS Text 3 section 4: space, tab, segment break (LF, CR) *)
Definition is_white (c : ascii) : bool := match cls c with Kot => false | _ => true end.

(* the values of white-space accepted by the validator *)
Inductive wsv := WNormal | WNowrap | WPre | WPreWrap | WPreLine | WBreakSpaces.

(* build.py: new_line_collapse = white_space in ('normal','nowrap');
             space_collapse = white_space in ('normal','nowrap','pre-line') *)
Definition nl_collapse (w : wsv) : bool := match w with WNormal | WNowrap => true | _ => false end.
Definition sp_collapse (w : wsv) : bool := match w with WNormal | WNowrap | WPreLine => true | _ => false end.

(* LINE_FEED_RE.sub('\n', text): skip_lf = the previous character was a \r (its \n? is still to be eaten) *)
Fixpoint norm_lf (skip_lf : bool) (s : list ascii) : list ascii :=
  match s with
  | [] => []
  | c :: r =>
      match cls c with
      | Kcr => LF :: norm_lf true r
      | Klf => if skip_lf then norm_lf false r else c :: norm_lf false r
      | _ => c :: norm_lf false r
      end
  end.

(* TAB_RE.sub('\n', text), leftmost-longest scan of [\t ]*\n[\t ]*:
   pend = the run of [\t ] read since the last other character (kept if no \n follows),
   after_nl = we are in the trailing [\t ]* of a match. *)
Fixpoint strip_nl (pend : list ascii) (after_nl : bool) (s : list ascii) : list ascii :=
  match s with
  | [] => pend
  | c :: r =>
      match cls c with
      | Kts => if after_nl then strip_nl [] true r else strip_nl (pend ++ [c]) false r
      | Klf => c :: strip_nl [] true r
      | _ => pend ++ c :: strip_nl [] false r
      end
  end.

(* text.replace('\n', ' ') *)
Definition nl_to_sp (s : list ascii) : list ascii := map (fun c => if is_lf c then SP else c) s.

(* SPACE_RE.sub(' ', text) *)
Fixpoint collapse_sp (in_run : bool) (s : list ascii) : list ascii :=
  match s with
  | [] => []
  | c :: r =>
      if is_ts c then (if in_run then collapse_sp true r else SP :: collapse_sp true r)
      else c :: collapse_sp false r
  end.

Fixpoint bytes_eqb (x y : list ascii) : bool :=
  match x, y with [], [] => true | a :: x', b :: y' => Ascii.eqb a b && bytes_eqb x' y' | _, _ => false end.

Definition starts_sp (s : list ascii) : bool := match s with c :: _ => Ascii.eqb c SP | [] => false end.
Definition ends_sp (s : list ascii) : bool := match rev s with c :: _ => Ascii.eqb c SP | [] => false end.

(* the text before the flag-dependent trimming (previous_text in the code, for the collapsing values) *)
Definition pw_pipeline (w : wsv) (s : list ascii) : list ascii :=
  let t := norm_lf false s in
  let t := if sp_collapse w then strip_nl [] false t else t in
  let t := if nl_collapse w then nl_to_sp t else t in
  if sp_collapse w then collapse_sp false t else t.

(* TextBox branch: (new text, returned flag, leading_collapsible_space was set) *)
Definition pw_text (w : wsv) (f : bool) (s : list ascii) : list ascii * bool * bool :=
  match s with
  | [] => ([], f, false)
  | _ =>
      let p := pw_pipeline w s in
      if sp_collapse w then
        if f && starts_sp p then (tl p, ends_sp p, true) else (p, ends_sp p, false)
      else (p, false, false)
  end.

(* ---- threading through the children, as process_whitespace does ---- *)
Inductive node :=
| T (w : wsv) (lead : bool) (s : list ascii)        (* TextBox: white-space, leading_collapsible_space, text *)
| I (flow run : bool) (kids : list node)            (* InlineBox: is_in_normal_flow(), is_running() *)
| O (flow : bool).                                  (* any other child: is_in_normal_flow() *)

Definition node_flow (n : node) : bool :=
  match n with T _ _ _ => true | I flow _ _ => flow | O flow => flow end.

(* pw_node f n = process_whitespace(n, f) for a TextBox / InlineBox n : (n after the call, returned flag).
   Text boxes are anonymous (float and position are not inherited): in normal flow, not running. *)
Fixpoint pw_node (f : bool) (n : node) : node * bool :=
  match n with
  | T w lead s => let '(t, f', l) := pw_text w f s in (T w (lead || l) t, f')
  | I flow run kids =>
      let '(ks, f') :=
        (fix go (f : bool) (l : list node) : list node * bool :=
           match l with
           | [] => ([], f)
           | k :: r =>
               match k with
               | O fl => let '(r', g) := go (if fl then false else f) r in (k :: r', g)
               | _ => let '(k', fc) := pw_node f k in
                      let '(r', g) := go (if node_flow k then fc else f) r in (k' :: r', g)
               end
           end) f kids in
      (I flow run ks, f' && negb run)
  | O fl => (n, f)
  end.

(* the loop over box.children (the same whether the parent box is in normal flow or not) *)
Fixpoint pw_kids (f : bool) (l : list node) : list node * bool :=
  match l with
  | [] => ([], f)
  | k :: r =>
      match k with
      | O fl => let '(r', g) := pw_kids (if fl then false else f) r in (k :: r', g)
      | _ => let '(k', fc) := pw_node f k in
             let '(r', g) := pw_kids (if node_flow k then fc else f) r in (k' :: r', g)
      end
  end.

(* process_whitespace(box) as called by element_to_box on a non-text box *)
Definition pw_box (run : bool) (kids : list node) : list node * bool :=
  let '(ks, f) := pw_kids false kids in (ks, f && negb run).

(* the characters of the inline content in order; None = an in-flow box of another kind (atomic inline,
   block...), which separates the text runs; out-of-flow boxes contribute nothing *)
Fixpoint flat (n : node) : list (option ascii) :=
  match n with
  | T _ _ s => map Some s
  | I _ _ kids => (fix go (l : list node) := match l with [] => [] | k :: r => flat k ++ go r end) kids
  | O fl => if fl then [None] else []
  end.
Fixpoint flats (l : list node) : list (option ascii) :=
  match l with [] => [] | k :: r => flat k ++ flats r end.

Fixpoint all_text (P : wsv -> bool) (n : node) : bool :=
  match n with
  | T w _ _ => P w
  | I _ _ kids => (fix go (l : list node) := match l with [] => true | k :: r => all_text P k && go r end) kids
  | O _ => true
  end.
Fixpoint all_texts (P : wsv -> bool) (l : list node) : bool :=
  match l with [] => true | k :: r => all_text P k && all_texts P r end.

(* every inline box of the tree is in normal flow (hence not a running element) *)
Fixpoint inl_flow (n : node) : bool :=
  match n with
  | T _ _ _ => true
  | I flow run kids => flow && negb run && (fix go (l : list node) := match l with [] => true | k :: r => inl_flow k && go r end) kids
  | O _ => true
  end.
Fixpoint inl_flows (l : list node) : bool :=
  match l with [] => true | k :: r => inl_flow k && inl_flows r end.

(* no two adjacent collapsible spaces *)
Fixpoint no_double (prev_sp : bool) (l : list (option ascii)) : bool :=
  match l with
  | [] => true
  | Some c :: r => if Ascii.eqb c SP then negb prev_sp && no_double true r else no_double false r
  | None :: r => no_double false r
  end.

(* ---- decidable specification of one text run, written from CSS Text 3 section 4.1 (not from the code) ----
   words: maximal runs of non-white characters; for the values that collapse everything the result is the words
   joined by single spaces, with one space kept at either end if the input had white space there (the leading
   one is dropped when the previous run ended with a collapsible space). *)
Fixpoint skel (in_ws : bool) (s : list ascii) : list ascii :=
  match s with
  | [] => []
  | c :: r => if is_white c then (if in_ws then skel true r else SP :: skel true r) else c :: skel false r
  end.

Definition spec_text (w : wsv) (f : bool) (s t : list ascii) : bool :=
  let eq := bytes_eqb in
  match s with
  | [] => eq t []
  | _ =>
    if nl_collapse w then eq t (if f && starts_sp (skel false s) then tl (skel false s) else skel false s)
    else if sp_collapse w then
      (* pre-line: segment breaks kept, no space or tab next to them or doubled, other characters in order *)
      eq (filter (fun c => negb (is_ts c)) t) (filter (fun c => negb (is_ts c)) (norm_lf false s))
      && no_double f (map Some t)
      && forallb (fun c => negb (is_ts c) || Ascii.eqb c SP) t
    else eq t (norm_lf false s)
  end.

(* ---- text-transform (ASCII): process_text_transform on one TextBox ---- *)
Inductive ttv := TNone | TUpper | TLower | TCapitalize | TFullWidth.

Definition is_lower (c : ascii) : bool := (97 <=? nat_of_ascii c) && (nat_of_ascii c <=? 122).
Definition is_upper (c : ascii) : bool := (65 <=? nat_of_ascii c) && (nat_of_ascii c <=? 90).
Definition is_digit (c : ascii) : bool := (48 <=? nat_of_ascii c) && (nat_of_ascii c <=? 57).
Definition up (c : ascii) : ascii := if is_lower c then ascii_of_nat (nat_of_ascii c - 32) else c.
Definition low (c : ascii) : ascii := if is_upper c then ascii_of_nat (nat_of_ascii c + 32) else c.
Definition is_ascii (c : ascii) : bool := nat_of_ascii c <? 128.

(* capitalize(): unicodedata.category(letter)[0] in ('L','N') starts a word, 'Z' (the space, for ASCII) ends it *)
Fixpoint capitalize (found : bool) (s : list ascii) : list ascii :=
  match s with
  | [] => []
  | c :: r =>
      if negb found && (is_lower c || is_upper c || is_digit c) then up c :: capitalize true r
      else if Ascii.eqb c SP then c :: capitalize false r
      else c :: capitalize found r
  end.

(* text.translate(ASCII_TO_WIDE): 0x21..0x7e -> U+FF01..U+FF5E, space -> U+3000, '-' -> U+2212, as UTF-8 bytes *)
Definition utf8_3 (cp : N) : list ascii :=
  [ascii_of_N (224 + cp / 4096); ascii_of_N (128 + (cp / 64) mod 64); ascii_of_N (128 + cp mod 64)]%N.
Definition wide (c : ascii) : list ascii :=
  let n := N_of_ascii c in
  (if n =? 32 then utf8_3 12288 else if n =? 45 then utf8_3 8722
   else if (33 <=? n) && (n <=? 126) then utf8_3 (n + 65248) else [c])%N.

Definition tt_text (t : ttv) (s : list ascii) : list ascii :=
  match t with
  | TNone => s
  | TUpper => map up s
  | TLower => map low s
  | TCapitalize => capitalize false s
  | TFullWidth => flat_map wide s
  end.

(* ---- judges for the correspondence streams ---- *)
Definition codes (l : list nat) : list ascii := map ascii_of_nat l.

(* one TextBox: (white-space, flag in, text in, text out, flag out, leading_collapsible_space out) *)
Definition text_judge (c : wsv * bool * list nat * list nat * bool * bool) : nat :=
  let '(w, f, s, t, f', l) := c in
  let '(mt, mf, ml) := pw_text w f (codes s) in
  (if bytes_eqb mt (codes t) && Bool.eqb mf f' && Bool.eqb ml l then 0 else 1)
  + (if spec_text w f (codes s) (codes t) then 0 else 2).

Inductive cnode := CT (w : wsv) (lead : bool) (s : list nat) | CI (flow run : bool) (kids : list cnode) | CO (flow : bool).
Fixpoint un (c : cnode) : node :=
  match c with
  | CT w l s => T w l (codes s)
  | CI fl ru ks => I fl ru (map un ks)
  | CO fl => O fl
  end.

Fixpoint node_eqb (a b : node) : bool :=
  match a, b with
  | T w l s, T w' l' s' =>
      (match w, w' with WNormal, WNormal | WNowrap, WNowrap | WPre, WPre | WPreWrap, WPreWrap
                      | WPreLine, WPreLine | WBreakSpaces, WBreakSpaces => true | _, _ => false end)
      && Bool.eqb l l' && bytes_eqb s s'
  | I fl ru ks, I fl' ru' ks' =>
      Bool.eqb fl fl' && Bool.eqb ru ru' &&
      (fix go (x y : list node) : bool :=
         match x, y with [], [] => true | p :: x', q :: y' => node_eqb p q && go x' y' | _, _ => false end) ks ks'
  | O fl, O fl' => Bool.eqb fl fl'
  | _, _ => false
  end.
Fixpoint nodes_eqb (x y : list node) : bool :=
  match x, y with [] , [] => true | p :: x', q :: y' => node_eqb p q && nodes_eqb x' y' | _, _ => false end.

(* a parent box: (is_in_normal_flow, is_running, flag in, children before, children after, returned flag);
   bit 1: the spec clause "no two adjacent collapsible spaces among collapsing text of one in-flow inline
   formatting context" fails on the implementation's output *)
Definition tree_judge (c : bool * bool * bool * list cnode * list cnode * bool) : nat :=
  let '(pflow, run, f, ks, out, f') := c in
  let ks := map un ks in let out := map un out in
  let '(m, mf) := pw_kids f ks in
  (if nodes_eqb m out && Bool.eqb (mf && negb run) f' then 0 else 1)
  + (if inl_flows ks && all_texts sp_collapse ks then (if no_double f (flats out) then 0 else 2) else 0).

(* text-transform on one TextBox (ASCII input): (value, text in, text out) *)
Definition tt_judge (c : ttv * list nat * list nat) : nat :=
  let '(t, s, o) := c in
  if bytes_eqb (tt_text t (codes s)) (codes o) then 0 else 1.
