(* C13 - replaced content.  Hand-written executable models of weasyprint/layout/replaced.py (definitions only).
   Lengths are rationals; `None : oq` is Python's None (unknown intrinsic dimension) or the keyword 'auto'
   (which of the two is said at each use); an outer `option` is "the Python code raises"
   (ZeroDivisionError / TypeError), never a silent x/0. *)
From Coq Require Import QArith Qminmax List Bool.
Import ListNotations.
Open Scope Q_scope.

Definition oq := option Q.

Definition Qltb (a b : Q) : bool := negb (Qle_bool b a).
Definition qdiv (a b : Q) : option Q := if Qeq_bool b 0 then None else Some (a / b).
Definition bind {A B} (x : option A) (f : A -> option B) : option B :=
  match x with Some a => f a | None => None end.
Definition is_none {A} (x : option A) : bool := match x with None => true | Some _ => false end.

(* intrinsic size as returned by image.get_intrinsic_size: (width, height, ratio), each possibly None *)
Record intr := Intr { iw : oq; ih : oq; ir : oq }.

(* ---------------------------------------------------------------- _constraint_image_sizing *)
Definition constraint_sizing (cw ch : Q) (r : oq) (cover : bool) : option (Q * Q) :=
  match r with
  | None => Some (cw, ch)
  | Some r =>
      if xorb cover (Qltb (ch * r) cw)                 (* cover ^ (cw > ch * ratio) *)
      then Some (ch * r, ch)
      else bind (qdiv cw r) (fun h => Some (cw, h))
  end.
Definition contain_sizing cw ch r := constraint_sizing cw ch r false.
Definition cover_sizing cw ch r := constraint_sizing cw ch r true.

(* ---------------------------------------------------------------- default_image_sizing
   sw sh: specified size, None = 'auto' or None (the code maps 'auto' to None first) *)
Definition dis_step (i : intr) (sw sh : oq) (dw dh : Q) (k : option (Q * Q)) : option (Q * Q) :=
  match sw, sh with
  | Some w, Some h => Some (w, h)
  | Some w, None =>
      match ir i with
      | Some r => bind (qdiv w r) (fun h => Some (w, h))
      | None => match ih i with Some h => Some (w, h) | None => Some (w, dh) end
      end
  | None, Some h =>
      match ir i with
      | Some r => Some (h * r, h)
      | None => match iw i with Some w => Some (w, h) | None => Some (dw, h) end
      end
  | None, None => k
  end.

Definition default_sizing (i : intr) (sw sh : oq) (dw dh : Q) : option (Q * Q) :=
  dis_step i sw sh dw dh
    (match iw i, ih i with
     | None, None => contain_sizing dw dh (ir i)
     | _, _ => dis_step i (iw i) (ih i) dw dh None     (* the recursive call; its last branch is unreachable *)
     end).

(* ---------------------------------------------------------------- handle_min_max_width / _height
   max : None = float('inf') *)
Definition gt_inf (x : Q) (mx : oq) : bool := match mx with Some m => Qltb m x | None => false end.

(* f : the decorated function as a map "box.width before -> box.width after" (None = 'auto') *)
Definition handle_min_max (f : oq -> option Q) (start : oq) (mn : Q) (mx : oq) : option Q :=
  bind (f start) (fun w1 =>
  bind (if gt_inf w1 mx then match mx with Some m => f (Some m) | None => None end else Some w1) (fun w2 =>
  if Qltb w2 mn then f (Some mn) else Some w2)).

Definition clamp (x mn : Q) (mx : oq) : Q :=
  let x1 := if gt_inf x mx then match mx with Some m => m | None => x end else x in
  if Qltb x1 mn then mn else x1.

Definition qmax_inf (a : Q) (b : oq) : oq := match b with Some b => Some (Qmax a b) | None => None end.
Definition qmin_inf (a : Q) (b : oq) : Q := match b with Some b => Qmin a b | None => a end.

(* ---------------------------------------------------------------- replaced_box_width (undecorated)
   bw bh : box.width / box.height, None = 'auto'.
   fill  : the value block_level_width (decorated: clamped by min/max-width) gives to an auto width,
           cb_width - (margins with auto as 0 + paddings + borders)  [point #3] *)
Definition rbw_raw (bh : oq) (i : intr) (fill minh : Q) (maxh : oq) (bw : oq) : option Q :=
  let bw1 : oq :=
    match bw, bh with
    | None, None =>
        match iw i with
        | Some w => Some w                                          (* point 1 *)
        | None =>
            match ir i with
            | Some r => match ih i with
                        | Some h => Some (h * r)                    (* point 2, first part *)
                        | None => Some fill                         (* point 3 *)
                        end
            | None => None
            end
        end
    | _, _ => bw
    end in
  match bw1 with
  | Some w => Some w
  | None =>
      match ir i with
      | Some r => match bh with
                  | Some h => Some (Qmax minh (qmin_inf h maxh) * r)  (* point 2, second part: used height *)
                  | None => None                                    (* 'auto' * ratio : TypeError *)
                  end
      | None => match iw i with
                | Some w => Some w                                  (* point 4 *)
                | None => Some 300                                  (* point 5 *)
                end
      end
  end.

Definition fill_width (cbw hsum minw : Q) (maxw : oq) : Q := clamp (cbw - hsum) minw maxw.

Definition rbw (bw bh : oq) (i : intr) (cbw hsum minw minh : Q) (maxw maxh : oq) : option Q :=
  handle_min_max (rbw_raw bh i (fill_width cbw hsum minw maxw) minh maxh) bw minw maxw.

(* ---------------------------------------------------------------- replaced_box_height (undecorated)
   box.height can become None (Python) when both are 'auto' and the intrinsic height is unknown *)
Inductive hv := HAuto | HNone | HNum (q : Q).

Definition truthy (r : oq) : bool := match r with Some r => negb (Qeq_bool r 0) | None => false end.

Definition rbh_step1 (bw bh : oq) (i : intr) : option hv :=
  match bh with
  | Some h => Some (HNum h)
  | None =>
      match bw with
      | None => Some (match ih i with Some h => HNum h | None => HNone end)
      | Some w =>
          if truthy (ir i)
          then match ir i with Some r => bind (qdiv w r) (fun h => Some (HNum h)) | None => None end
          else Some HAuto
      end
  end.

Definition rbh_step2 (bw : oq) (h1 : hv) (i : intr) : option hv :=
  match h1 with
  | HAuto =>
      if is_none bw && negb (is_none (ih i))
      then match ih i with Some h => Some (HNum h) | None => None end
      else match ir i with
           | Some r => match bw with
                       | Some w => bind (qdiv w r) (fun h => Some (HNum h))
                       | None => None                               (* 'auto' / ratio *)
                       end
           | None => match ih i with
                     | Some h => Some (HNum h)
                     | None => Some (HNum 150)
                     end
           end
  | _ => Some h1
  end.

Definition rbh_raw_hv (bw : oq) (i : intr) (bh : oq) : option hv :=
  bind (rbh_step1 bw bh i) (fun h1 => rbh_step2 bw h1 i).

(* as a number; Python None makes the callers raise (None > max_height, None < min_height, None == 0 ... / ) *)
Definition rbh_raw (bw : oq) (i : intr) (bh : oq) : option Q :=
  bind (rbh_raw_hv bw i bh) (fun h => match h with HNum q => Some q | _ => None end).

Definition rbh (bw bh : oq) (i : intr) (minh : Q) (maxh : oq) : option Q :=
  handle_min_max (rbh_raw bw i) bh minh maxh.

(* ---------------------------------------------------------------- min_max_auto_replaced *)
Inductive viol := VNo | VMin | VMax (m : Q).


Definition viol_of (x mn : Q) (mx : oq) : viol :=
  if Qltb x mn then VMin
  else match mx with Some m => if Qltb m x then VMax m else VNo | None => VNo end.

Definition tiny : Q := 1 # 1000000.                      (* the code's 1e-6 *)
Definition nz (x : Q) : Q := if Qeq_bool x 0 then tiny else x.

Definition mmar_ratio (w h minw minh : Q) (maxw maxh : oq) : Q * Q :=
  let vw := viol_of w minw maxw in
  let vh := viol_of h minh maxh in
  let w' := nz w in
  let h' := nz h in
  match vw, vh with
  | VNo, VNo => (w, h)
  | VMax mw, VNo => (mw, Qmax (mw * h' / w') minh)
  | VMin, VNo => (minw, qmin_inf (minw * h' / w') maxh)
  | VNo, VMax mh => (Qmax (mh * w' / h') minw, mh)
  | VNo, VMin => (qmin_inf (minh * w' / h') maxw, minh)
  | VMax mw, VMax mh =>
      if Qle_bool (mw / w') (mh / h')
      then (mw, Qmax minh (mw * h' / w'))
      else (Qmax minw (mh * w' / h'), mh)
  | VMin, VMin =>
      if Qle_bool (minw / w') (minh / h')
      then (qmin_inf (minh * w' / h') maxw, minh)
      else (minw, qmin_inf (minw * h' / w') maxh)
  | VMin, VMax mh => (minw, mh)
  | VMax mw, VMin => (mw, minh)
  end.

(* r : the intrinsic ratio (only tested against None) *)
Definition mmar (r : oq) (w h minw minh : Q) (maxw0 maxh0 : oq) : Q * Q :=
  let maxw := qmax_inf minw maxw0 in
  let maxh := qmax_inf minh maxh0 in
  match r with
  | None => (Qmax minw (qmin_inf w maxw), Qmax minh (qmin_inf h maxh))
  | Some _ => mmar_ratio w h minw minh maxw maxh
  end.

(* ---------------------------------------------------------------- inline_replaced_box_width_height
   bw, bh : box.width / box.height after percentage resolution (None = 'auto'); the test is on these used values *)
Definition inline_wh (bw bh : oq) (i : intr) (cbw hsum minw minh : Q) (maxw maxh : oq) : option (Q * Q) :=
  if is_none bw && is_none bh then
    bind (rbw_raw bh i (fill_width cbw hsum minw maxw) minh maxh bw) (fun w =>
    bind (rbh_raw (Some w) i bh) (fun h =>
    Some (mmar (ir i) w h minw minh maxw maxh)))
  else
    bind (rbw bw bh i cbw hsum minw minh maxw maxh) (fun w =>
    bind (rbh (Some w) bh i minh maxh) (fun h => Some (w, h))).

(* ---------------------------------------------------------------- replacedbox_layout *)
Inductive fit := Fill | Contain | Cover | FitNone | ScaleDown.
Inductive lenpct := Px (q : Q) | Pct (q : Q).

Definition percentage (v : lenpct) (ref : Q) : Q :=
  match v with Px q => q | Pct p => ref * p / 100 end.

(* returns (draw_width, draw_height, position_x, position_y) *)
Definition rb_layout (f : fit) (rgt btm : bool) (px py : lenpct) (bw bh : Q) (i : intr) (cx cy : Q)
  : option (Q * Q * Q * Q) :=
  bind (match iw i, ih i with
        | Some w, Some h => Some (w, h)
        | _, _ => contain_sizing bw bh (ir i)
        end) (fun '(iw', ih') =>
  bind (match f with
        | Fill => Some (bw, bh)
        | Contain => contain_sizing bw bh (ir i)
        | Cover => cover_sizing bw bh (ir i)
        | FitNone => Some (iw', ih')
        | ScaleDown => bind (contain_sizing bw bh (ir i)) (fun '(dw, dh) => Some (Qmin dw iw', Qmin dh ih'))
        end) (fun '(dw, dh) =>
  let refx := bw - dw in
  let refy := bh - dh in
  let x := percentage px refx in
  let y := percentage py refy in
  let x := if rgt then refx - x else x in
  let y := if btm then refy - y else y in
  Some (dw, dh, x + cx, y + cy))).

(* ================================================================ judges (correspondence) *)
Definition Qabs' (x : Q) : Q := if Qle_bool 0 x then x else - x.
Definition close (tol a b : Q) : bool :=
  Qle_bool (Qabs' (a - b)) (tol * Qmax 1 (Qmax (Qabs' a) (Qabs' b))).
Definition q2_eqb (a b : Q * Q) : bool := Qeq_bool (fst a) (fst b) && Qeq_bool (snd a) (snd b).
Definition q2_close (tol : Q) (a b : Q * Q) : bool := close tol (fst a) (fst b) && close tol (snd a) (snd b).
Definition oq2_eqb (a b : option (Q * Q)) : bool :=
  match a, b with Some x, Some y => q2_eqb x y | None, None => true | _, _ => false end.
Definition oq2_close tol (a b : option (Q * Q)) : bool :=
  match a, b with Some x, Some y => q2_close tol x y | None, None => true | _, _ => false end.
Definition oq_eqb (a b : option Q) : bool :=
  match a, b with Some x, Some y => Qeq_bool x y | None, None => true | _, _ => false end.
Definition impl (a b : bool) := negb a || b.
Definition bit (n : nat) (ok : bool) : nat := if ok then 0%nat else n.
