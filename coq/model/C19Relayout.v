(* C19 - layout and child.style: hand model of the cross axis of flex_layout (weasyprint/layout/flex.py, steps 7, 8, 9,
   11 and the write `child.style[cross] = Dimension(line.cross_size - margins, 'px')` of step 14) for a row container
   (cross = height), with the style as state.  Since c81ab3a the write goes to a copy of the item with its own copy of
   the style (`child = child.copy(); child.style = child.style.copy()`), used for the rest of this layout only: the
   styles the next layout of the same boxes starts from are the ones this layout started from (`after`).  The earlier
   behaviour (the style shared by every copy of the box is written) is kept as `after_shared_style`, the variant the
   proofs refute.  Definitions only.

   An item carries style['height'] (None = auto), the height its content takes when the height is auto, the sum of its
   cross-axis margins, borders and paddings (box-sizing: content-box, no auto margin), and whether align-self
   resolves to stretch.  A container carries its definite cross size (None = auto height), the cross gap and its
   lines (line breaking happens on the main axis and does not read the heights).  min/max-height are auto/none; the
   correspondence stream covers containers whose lines fit (no negative free space on the cross axis). *)
From Coq Require Import QArith Qminmax Qabs List Bool.
Import ListNotations.
Open Scope Q_scope.

Record item := imk { i_style : option Q; i_nat : Q; i_mbp : Q; i_stretch : bool }.
Record container := cmk { c_cross : option Q; c_gap : Q; c_lines : list (list item) }.

(* step 7: hypothetical cross size = the height block layout gives the item *)
Definition height (i : item) : Q := match i_style i with Some v => v | None => i_nat i end.
Definition outer (i : item) : Q := height i + i_mbp i.

(* step 8.2: the largest outer hypothetical cross size of the line *)
Definition maxq (l : list Q) : Q := match l with [] => 0 | x :: r => fold_left Qmax r x end.
Definition base_line (l : list item) : Q := maxq (map outer l).

Definition sumq (l : list Q) : Q := fold_right Qplus 0 l.

(* steps 8 and 9 *)
Definition line_sizes (c : container) : list Q :=
  let base :=
    match c_lines c, c_cross c with
    | [_], Some d => [d]                                   (* single-line container with a definite cross size *)
    | ls, _ => map base_line ls
    end in
  match c_cross c with
  | Some d =>                                              (* align-content: stretch (the default) *)
      let n := inject_Z (Z.of_nat (length base)) in
      let extra := d - sumq base - (n - 1) * c_gap c in
      if Qeq_bool extra 0 then base else map (fun x => x + extra / n) base
  | None => base
  end.

Definition stretched (i : item) : bool := i_stretch i && match i_style i with None => true | Some _ => false end.

(* step 11 / the final layout of the item: its used cross size *)
Definition used (lsize : Q) (i : item) : Q := if stretched i then lsize - i_mbp i else height i.
(* step 14: the stretched size written into the style (of the item's private copy) *)
Definition write_back (lsize : Q) (i : item) : item :=
  if stretched i then imk (Some (lsize - i_mbp i)) (i_nat i) (i_mbp i) (i_stretch i) else i.

(* position of each line from the container's content edge *)
Fixpoint starts (from gap : Q) (sizes : list Q) : list Q :=
  match sizes with [] => [] | s :: r => from :: starts (from + s + gap) gap r end.

(* one layout pass: (line cross size, line start, used heights of its items) and the container as it is left *)
Definition layout (c : container) : list (Q * Q * list Q) :=
  let sizes := line_sizes c in
  map (fun p => (fst (fst p), snd (fst p), map (used (fst (fst p))) (snd p)))
      (combine (combine sizes (starts 0 (c_gap c) sizes)) (c_lines c)).
(* the items as this layout pass leaves its own copies *)
Definition laid_out_items (c : container) : list (list item) :=
  map (fun p => map (write_back (fst p)) (snd p)) (combine (line_sizes c) (c_lines c)).
(* what the next layout of the same boxes starts from: the writes went to copies *)
Definition after (c : container) : container := cmk (c_cross c) (c_gap c) (c_lines c).
(* the variant before c81ab3a: the writes went to the style shared with the original boxes *)
Definition after_shared_style (c : container) : container := cmk (c_cross c) (c_gap c) (laid_out_items c).

(* ---- judge of the correspondence stream: the container, what a single layout pass of the implementation gives and
   what the second pass gives when the same boxes are laid out again; per line (item position y, item heights) ---- *)
(* the implementation computes in floats: 1e-9 px of tolerance *)
Definition near (a b : Q) : bool := Qle_bool (Qabs (a - b)) (1 # 1000000000).
Definition qeqb_list (a b : list Q) : bool :=
  (Nat.eqb (length a) (length b)) && forallb (fun p => near (fst p) (snd p)) (combine a b).
Definition obs_eqb (m : list (Q * Q * list Q)) (i : list (Q * list Q)) : bool :=
  (Nat.eqb (length m) (length i)) &&
  forallb (fun p => let '(_, st, us) := fst p in near st (fst (snd p)) && qeqb_list us (snd (snd p))) (combine m i).
Definition impl_eqb (a b : list (Q * list Q)) : bool :=
  (Nat.eqb (length a) (length b)) &&
  forallb (fun p => near (fst (fst p)) (fst (snd p)) && qeqb_list (snd (fst p)) (snd (snd p))) (combine a b).

Definition rcase := (container * list (Q * list Q) * list (Q * list Q))%type.

Definition relayout_judge (c : rcase) : nat :=
  let '(k, once, twice) := c in
  let same := obs_eqb (layout k) once && obs_eqb (layout (after k)) twice in
  let spec := impl_eqb once twice in
  ((if same then 0 else 1) + (if spec then 0 else 2))%nat.
