(* C18 - dates: hand model of weasyprint/pdf/__init__.py _w3c_date_to_pdf on the groups of W3C_DATE_RE
   (the regular expression itself is glue, exercised by the correspondence stream), and a reader for PDF
   date strings (ISO 32000-1 7.9.4  D:YYYYMMDDHHmmSSOHH'mm, everything after the year optional).
   Group texts are fixed-width decimal numbers (\d\d\d\d, \d\d), so a group is modelled by its value and printed
   back with that width.  Definitions only. *)
From Coq Require Import ZArith List Bool String Ascii.
Import ListNotations.
Open Scope Z_scope.

Definition digit (k : Z) : ascii := ascii_of_nat (48 + Z.to_nat k).
Definition two (v : Z) : string := String (digit (v / 10)) (String (digit (v mod 10)) EmptyString).
Definition four (v : Z) : string := (two (v / 100) ++ two (v mod 100))%string.

(* match.groupdict(): year always present; tz = (negative sign?, hour, minute) of (?P<tz_hour>[+-]hh):(?P<tz_minute>mm),
   None for 'Z' and for dates without a time *)
Record groups := mkg { g_year : Z; g_month : option Z; g_day : option Z; g_hour : option Z;
                       g_minute : option Z; g_second : option Z; g_tz : option (bool * Z * Z) }.

Definition is_some {X} (o : option X) : bool := match o with Some _ => true | None => false end.

(* one turn of: for key in ('second','minute','hour','day','month','year') *)
Definition turn (field : option Z) (day_or_month : bool) (fmt : Z -> string) (st : string * bool) : string * bool :=
  let '(pdf_date, found) := st in
  match field with
  | Some v => ((fmt v ++ pdf_date)%string, true)
  | None => if found then (((if day_or_month then "01" else "00") ++ pdf_date)%string, found) else (pdf_date, found)
  end.

Inductive derr := EAssertMinute | EAssertTzMinute.

Definition w3c_date_to_pdf (g : groups) : derr + string :=
  let st := (EmptyString, is_some (g_hour g)) in
  let st := turn (g_second g) false two st in
  let st := turn (g_minute g) false two st in
  let st := turn (g_hour g) false two st in
  let st := turn (g_day g) true two st in
  let st := turn (g_month g) true two st in
  let st := turn (Some (g_year g)) false four st in
  let pdf_date := fst st in
  if is_some (g_hour g) then
    if negb (is_some (g_minute g)) then inl EAssertMinute
    else match g_tz g with
         | Some (neg, h, m) =>
             (* f"{groups['tz_hour']}'{groups['tz_minute']}": the matched texts, sign included *)
             inr ("D:" ++ pdf_date ++ (if neg then "-" else "+") ++ two h ++ "'" ++ two m)%string
         | None => inr ("D:" ++ pdf_date ++ "Z")%string
         end
  else inr ("D:" ++ pdf_date)%string.

(* what the regular expression can produce *)
Definition in_range (lo hi : Z) (o : option Z) : Prop := match o with Some v => lo <= v <= hi | None => True end.
Definition wf (g : groups) : Prop :=
  0 <= g_year g <= 9999 /\ in_range 0 12 (g_month g) /\ in_range 0 31 (g_day g) /\ in_range 0 23 (g_hour g) /\
  in_range 0 59 (g_minute g) /\ in_range 0 59 (g_second g) /\
  match g_tz g with Some (_, h, m) => 0 <= h <= 23 /\ 0 <= m <= 59 | None => True end /\
  (g_day g <> None -> g_month g <> None) /\
  (g_hour g <> None -> g_day g <> None /\ g_minute g <> None) /\
  (g_minute g <> None -> g_hour g <> None) /\
  (g_second g <> None -> g_minute g <> None) /\
  (g_tz g <> None -> g_hour g <> None).
Definition wf_b (g : groups) : bool :=
  let rng lo hi o := match o with Some v => (lo <=? v) && (v <=? hi) | None => true end in
  (0 <=? g_year g) && (g_year g <=? 9999) && rng 0 12 (g_month g) && rng 0 31 (g_day g) && rng 0 23 (g_hour g) &&
  rng 0 59 (g_minute g) && rng 0 59 (g_second g) &&
  match g_tz g with Some (_, h, m) => (0 <=? h) && (h <=? 23) && (0 <=? m) && (m <=? 59) | None => true end &&
  implb (is_some (g_day g)) (is_some (g_month g)) &&
  implb (is_some (g_hour g)) (is_some (g_day g) && is_some (g_minute g)) &&
  implb (is_some (g_minute g)) (is_some (g_hour g)) &&
  implb (is_some (g_second g)) (is_some (g_minute g)) &&
  implb (is_some (g_tz g)) (is_some (g_hour g)).

(* ---- reading a PDF date ---- *)
Inductive ptz := PNone | PZ | POff (minutes : Z).
Record pdfdate := mkp { p_year : Z; p_month : option Z; p_day : option Z; p_hour : option Z;
                        p_minute : option Z; p_second : option Z; p_tz : ptz }.

Definition digit_of (a : ascii) : option Z :=
  let n := Z.of_nat (nat_of_ascii a) in if (48 <=? n) && (n <=? 57) then Some (n - 48) else None.
Definition parse2 (s : string) : option (Z * string) :=
  match s with
  | String a (String b r) =>
      match digit_of a, digit_of b with Some x, Some y => Some (10 * x + y, r) | _, _ => None end
  | _ => None
  end.
Definition parse4 (s : string) : option (Z * string) :=
  match parse2 s with
  | Some (a, r) => match parse2 r with Some (b, r') => Some (100 * a + b, r') | None => None end
  | None => None
  end.
Fixpoint opt_fields (n : nat) (s : string) : option (list Z * string) :=
  match n with
  | O => Some ([], s)
  | S n' =>
      match s with
      | String c _ =>
          match digit_of c with
          | Some _ =>
              match parse2 s with
              | Some (v, r) =>
                  match opt_fields n' r with Some (vs, r') => Some (v :: vs, r') | None => None end
              | None => None
              end
          | None => Some ([], s)
          end
      | EmptyString => Some ([], s)
      end
  end.
Definition parse_tz (s : string) : option ptz :=
  match s with
  | EmptyString => Some PNone
  | String c r =>
      if Ascii.eqb c "Z"%char then (match r with EmptyString => Some PZ | _ => None end)
      else if Ascii.eqb c "+"%char || Ascii.eqb c "-"%char then
        match parse2 r with
        | Some (h, String q r2) =>
            if Ascii.eqb q "'"%char then
              match parse2 r2 with
              | Some (m, EmptyString) => Some (POff ((if Ascii.eqb c "-"%char then -1 else 1) * (60 * h + m)))
              | _ => None
              end
            else None
        | _ => None
        end
      else None
  end.
Definition parse_pdf_date (s : string) : option pdfdate :=
  match s with
  | String d (String c r) =>
      if Ascii.eqb d "D"%char && Ascii.eqb c ":"%char then
        match parse4 r with
        | Some (y, r1) =>
            match opt_fields 5 r1 with
            | Some (vs, r2) =>
                match parse_tz r2 with
                | Some tz => Some (mkp y (nth_error vs 0) (nth_error vs 1) (nth_error vs 2) (nth_error vs 3)
                                       (nth_error vs 4) tz)
                | None => None
                end
            | None => None
            end
        | None => None
        end
      else None
  | _ => None
  end.

(* the fields a reader of the PDF must get back *)
Definition expected (g : groups) : pdfdate :=
  mkp (g_year g) (g_month g) (g_day g) (g_hour g) (g_minute g)
      (if is_some (g_hour g) then Some (match g_second g with Some s => s | None => 0 end) else None)
      (if is_some (g_hour g)
       then match g_tz g with Some (neg, h, m) => POff ((if neg then -1 else 1) * (60 * h + m)) | None => PZ end
       else PNone).

(* ---- judge ---- *)
Definition oz_eqb (a b : option Z) : bool :=
  match a, b with None, None => true | Some x, Some y => x =? y | _, _ => false end.
Definition ptz_eqb (a b : ptz) : bool :=
  match a, b with PNone, PNone | PZ, PZ => true | POff x, POff y => x =? y | _, _ => false end.
Definition pdfdate_eqb (a b : pdfdate) : bool :=
  (p_year a =? p_year b) && oz_eqb (p_month a) (p_month b) && oz_eqb (p_day a) (p_day b) &&
  oz_eqb (p_hour a) (p_hour b) && oz_eqb (p_minute a) (p_minute b) && oz_eqb (p_second a) (p_second b) &&
  ptz_eqb (p_tz a) (p_tz b).

(* case: (groups, implementation output: None when it returned None / raised).
   bit 0: model <> implementation; bit 1: a PDF reader does not get the fields of the W3C date back *)
Definition date_judge (c : groups * option string) : nat :=
  let '(g, out) := c in
  ((match w3c_date_to_pdf g, out with
    | inr s, Some s' => if String.eqb s s' then 0 else 1
    | inl _, None => 0
    | _, _ => 1
    end) +
   (match out with
    | Some s' => match parse_pdf_date s' with
                 | Some p => if pdfdate_eqb p (expected g) then 0 else 2
                 | None => 2
                 end
    | None => if wf_b g then 2 else 0
    end))%nat.
