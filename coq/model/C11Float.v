(* C11 - floats, clearance, relative positioning: hand-written models of weasyprint/layout/float.py
   (get_clearance, avoid_collisions, find_float_position) over the list `context.excluded_shapes` of already
   placed floats, and of weasyprint/layout/block.py relative_positioning + Box.translate.
   Definitions only; theorems in proofs/C11_float.v. *)
From Coq Require Import QArith Qminmax List Bool.
Import ListNotations.
Open Scope Q_scope.

Definition oq := option Q.
Definition Qlt_b (a b : Q) : bool := negb (Qle_bool b a).

(* an excluded shape: a placed float; s_left = (shape.style['float'] == 'left'), position_x, position_y,
   margin_width(), margin_height() *)
Record shape := mk_shape { s_left : bool; s_x : Q; s_y : Q; s_w : Q; s_h : Q }.
Definition s_bottom (s : shape) : Q := s_y s + s_h s.

(* ---------------------------------------------------------------------------------------- get_clearance *)
Inductive clear_t := ClearNone | ClearLeft | ClearRight | ClearBoth.
(* box.style['clear'] in (excluded_shape.style['float'], 'both') *)
Definition names (c : clear_t) (s : shape) : bool :=
  match c with ClearNone => false | ClearBoth => true | ClearLeft => s_left s | ClearRight => negb (s_left s) end.

(* hyp = box.position_y + collapsed_margin *)
Definition get_clearance (shapes : list shape) (c : clear_t) (hyp : Q) : oq :=
  fold_left (fun (clearance : oq) (s : shape) =>
               if names c s then
                 if Qlt_b hyp (s_bottom s)
                 then Some (Qmax (match clearance with Some v => v | None => 0 end) (s_bottom s - hyp))
                 else clearance
               else clearance) shapes None.

(* --------------------------------------------------------------------------------------- avoid_collisions *)
Inductive kind := FloatLeft | FloatRight | LineBox | TableWrapper | OtherBFC.
Definition is_floated (k : kind) : bool := match k with FloatLeft | FloatRight => true | _ => false end.

(* the box as avoid_collisions reads it: position_y (margin-box top), margins, border-box width and height *)
Record fbox := mk_fbox { f_kind : kind; f_py : Q; f_ml : Q; f_mr : Q; f_mt : Q; f_mb : Q; f_bw : Q; f_bh : Q }.
Definition margin_width (b : fbox) : Q := f_bw b + f_ml b + f_mr b.
Definition margin_height (b : fbox) : Q := f_bh b + f_mt b + f_mb b.

(* the three-clause vertical collision test of the loop *)
Definition collides (y bh : Q) (s : shape) : bool :=
  (Qlt_b (s_y s) y && Qlt_b y (s_bottom s)) ||
  (Qlt_b (s_y s) (y + bh) && Qlt_b (y + bh) (s_bottom s)) ||
  (Qle_bool y (s_y s) && Qle_bool (s_bottom s) (y + bh)).

Definition left_bounds (cs : list shape) : list Q := map (fun s => s_x s + s_w s) (filter s_left cs).
Definition right_bounds (cs : list shape) : list Q := map s_x (filter (fun s => negb (s_left s)) cs).
Definition band_left (cs : list shape) (l0 : Q) : Q := fold_left Qmax (left_bounds cs) l0.
Definition band_right (cs : list shape) (r0 : Q) : Q := fold_left Qmin (right_bounds cs) r0.
Definition min_bottom (s0 : shape) (rest : list shape) : Q := fold_left Qmin (map s_bottom rest) (s_bottom s0).

(* `while True:` with fuel.  l0/r0 are the default bounds (content box of the containing block, shrunk by the
   margins when not outer).  Returns (position_y, max_left_bound, max_right_bound). *)
Fixpoint avoid_loop (fuel : nat) (shapes : list shape) (l0 r0 bw bh y : Q) : option (Q * Q * Q) :=
  match fuel with
  | O => None
  | S fuel' =>
      let cs := filter (collides y bh) shapes in
      match cs with
      | [] => Some (y, l0, r0)
      | s0 :: rest =>
          let mlb := band_left cs l0 in
          let mrb := band_right cs r0 in
          if Qlt_b (mrb - mlb) bw then
            let ny := min_bottom s0 rest in
            if Qlt_b y ny then avoid_loop fuel' shapes l0 r0 bw bh ny else Some (y, mlb, mrb)
          else Some (y, mlb, mrb)
      end
  end.

(* avoid_collisions(context, box, containing_block, outer): cbx = containing_block.content_box_x(),
   cbw = containing_block.width, rtl = containing_block.style['direction'] == 'rtl'.
   Returns (position_x, position_y, available_width). *)
Definition avoid_collisions (fuel : nat) (shapes : list shape) (cbx cbw : Q) (rtl outer : bool) (b : fbox)
  : option (Q * Q * Q) :=
  let y0 := if outer then f_py b else f_py b + f_mt b in
  let bw := if outer then margin_width b else f_bw b in
  let bh := if outer then margin_height b else f_bh b in
  if Qeq_bool (f_bh b) 0 && is_floated (f_kind b) then Some (0, 0, cbw)
  else
    let l0 := if outer then cbx else cbx + f_ml b in
    let r0 := if outer then cbx + cbw else cbx + cbw - f_mr b in
    match avoid_loop fuel shapes l0 r0 bw bh y0 with
    | None => None
    | Some (y, mlb, mrb) =>
        let x :=
          match f_kind b with
          | FloatLeft | FloatRight => mlb
          | LineBox => if rtl then mrb else mlb
          | TableWrapper | OtherBFC => if rtl then mrb - bw else mlb
          end in
        let x := if outer then x else x - f_ml b in
        let y := if outer then y else y - f_mt b in
        Some (x, y, mrb - mlb)
    end.

(* find_float_position: returns the new position (position_x, position_y) of the float's margin box *)
Definition find_float_position (fuel : nat) (shapes : list shape) (cbx cbw : Q) (rtl : bool) (b : fbox)
  : option (Q * Q) :=
  let py :=
    match shapes with
    | [] => f_py b
    | _ => let highest := s_y (last shapes (mk_shape true 0 0 0 0)) in
           if Qlt_b (f_py b) highest then f_py b + (highest - f_py b) else f_py b
    end in
  let b1 := mk_fbox (f_kind b) py (f_ml b) (f_mr b) (f_mt b) (f_mb b) (f_bw b) (f_bh b) in
  match avoid_collisions fuel shapes cbx cbw rtl true b1 with
  | None => None
  | Some (x, y, aw) =>
      let x := match f_kind b with FloatRight => x + (aw - margin_width b) | _ => x end in
      Some (x, y)
  end.

(* float_layout's last step: context.excluded_shapes.append(box) *)
Definition shape_of (b : fbox) (pos : Q * Q) : shape :=
  mk_shape (match f_kind b with FloatRight => false | _ => true end) (fst pos) (snd pos) (margin_width b) (margin_height b).

(* a whole sequence of floats of one block formatting context, each with its own containing block *)
Fixpoint place_all (shapes : list shape) (reqs : list (Q * Q * fbox)) : option (list shape) :=
  match reqs with
  | [] => Some shapes
  | (cbx, cbw, b) :: rest =>
      match find_float_position (S (length shapes)) shapes cbx cbw false b with
      | None => None
      | Some pos => place_all (shapes ++ [shape_of b pos]) rest
      end
  end.

(* ------------------------------------------------------------------------------------------------ spec *)
(* two rectangles overlap (positive-area intersection) *)
Definition overlaps (x y w h : Q) (s : shape) : Prop :=
  x < s_x s + s_w s /\ s_x s < x + w /\ y < s_bottom s /\ s_y s < y + h.
Definition overlaps_b (x y w h : Q) (s : shape) : bool :=
  Qlt_b x (s_x s + s_w s) && Qlt_b (s_x s) (x + w) && Qlt_b y (s_bottom s) && Qlt_b (s_y s) (y + h).
Definition shapes_overlap (a b : shape) : Prop := overlaps (s_x a) (s_y a) (s_w a) (s_h a) b.

(* vertical overlap of the band [y, y+bh) with a shape *)
Definition v_overlaps (y bh : Q) (s : shape) : Prop := s_y s < y + bh /\ y < s_bottom s.

(* the box does not fit next to the floats at y *)
Definition no_room_at (shapes : list shape) (l0 r0 bw bh y : Q) : Prop :=
  let cs := filter (collides y bh) shapes in
  cs <> [] /\ band_right cs r0 - band_left cs l0 < bw.

(* --------------------------------------------------------------------------------- relative_positioning *)
(* a box tree as relative_positioning and Box.translate see it *)
Inductive rbox :=
  RBox (relative : bool)            (* box.style['position'] == 'relative' *)
       (inline : bool)              (* isinstance(box, (InlineBox, LineBox)) *)
       (ltr : bool)                 (* box.style['direction'] == 'ltr' *)
       (offs : oq * oq * oq * oq)   (* left, right, top, bottom (after resolve_position_percentages) *)
       (x y : Q) (kids : list rbox).

Fixpoint translate (dx dy : Q) (b : rbox) : rbox :=
  match b with
  | RBox rel isinl ltr offs x y kids => RBox rel isinl ltr offs (x + dx) (y + dy) (map (translate dx dy) kids)
  end.

(* relative_positioning(box, containing_block): translate the box (and so its subtree) by its own vector,
   then recurse into the children of inline / line boxes.  The recursion of the code runs on the already
   translated children; here the vector of the inline ancestors is accumulated in (ax, ay) instead, which is
   structurally recursive.  (Box.translate returns early when dx == dy == 0: the identity either way.) *)
Definition rel_vector (ltr : bool) (offs : oq * oq * oq * oq) : Q * Q :=
  let '(l, r, t, bo) := offs in
  (match l, r with
   | Some lv, Some rv => if ltr then lv else - rv
   | Some lv, None => lv
   | None, Some rv => - rv
   | None, None => 0
   end,
   match t, bo with
   | Some tv, _ => tv
   | None, Some bv => - bv
   | None, None => 0
   end).

Fixpoint rel_acc (ax ay : Q) (b : rbox) : rbox :=
  match b with
  | RBox rel isinl ltr offs x y kids =>
      let v := if rel then rel_vector ltr offs else (0, 0) in
      let ax' := ax + fst v in
      let ay' := ay + snd v in
      RBox rel isinl ltr offs (x + ax') (y + ay')
           (if isinl then map (rel_acc ax' ay') kids else map (translate ax' ay') kids)
  end.

Definition relative_positioning (b : rbox) : rbox :=
  match b with
  | RBox rel isinl ltr offs x y kids =>
      if rel then
        let v := rel_vector ltr offs in
        RBox rel isinl ltr offs (x + fst v) (y + snd v)
             (if isinl then map (rel_acc (fst v) (snd v)) kids else map (translate (fst v) (snd v)) kids)
      else if isinl then RBox rel isinl ltr offs x y (map (rel_acc 0 0) kids)
      else b
  end.

Fixpoint positions (b : rbox) : list (Q * Q) :=
  match b with RBox _ _ _ _ x y kids => (x, y) :: flat_map positions kids end.

(* CSS 2.1 9.4.3, written from the clause *)
Definition rel_vector_spec (ltr : bool) (offs : oq * oq * oq * oq) (v : Q * Q) : Prop :=
  let '(l, r, t, bo) := offs in
  (l = None -> r = None -> fst v == 0) /\
  (forall rv, l = None -> r = Some rv -> fst v == - rv) /\
  (forall lv, l = Some lv -> r = None -> fst v == lv) /\
  (forall lv rv, l = Some lv -> r = Some rv -> fst v == (if ltr then lv else - rv)) /\
  (t = None -> bo = None -> snd v == 0) /\
  (forall bv, t = None -> bo = Some bv -> snd v == - bv) /\
  (forall tv, t = Some tv -> snd v == tv).

(* ======================================================================================================
   Decidable specifications and judges for the correspondence streams.
   bit 0: model <> implementation ; bit 1: the implementation's output violates the specification. *)
Definition mask (same spec_ok : bool) : nat := ((if same then 0 else 1) + (if spec_ok then 0 else 2))%nat.
Definition impl (a b : bool) : bool := negb a || b.
Definition positive_shapes (shapes : list shape) : bool := forallb (fun s => Qlt_b 0 (s_h s)) shapes.
Definition dflt_shape := mk_shape true 0 0 0 0.

Definition no_room_at_b (shapes : list shape) (l0 r0 bw bh y : Q) : bool :=
  let cs := filter (collides y bh) shapes in
  match cs with [] => false | _ => Qlt_b (band_right cs r0 - band_left cs l0) bw end.

(* the CSS 2.1 9.5.1 rules for one float placed at (x, y) among the floats `shapes` placed before it *)
Definition float_spec_b (shapes : list shape) (cbx cbw : Q) (b : fbox) (x y : Q) : bool :=
  let mw := margin_width b in
  let mh := margin_height b in
  let regular := positive_shapes shapes && Qlt_b 0 mh && negb (Qeq_bool (f_bh b) 0) in
  let start := match shapes with [] => f_py b | _ => Qmax (f_py b) (s_y (last shapes dflt_shape)) end in
  impl regular
    ((* rules 2, 3, 7: no overlap with an earlier float *)
     forallb (fun s => negb (overlaps_b x y mw mh s)) shapes &&
     (* rules 4, 5, 6: not above its start nor above the float placed before it *)
     Qle_bool start y &&
     (* rule 1: inside the containing block when it fits *)
     impl (Qle_bool mw cbw) (Qle_bool cbx x && Qle_bool (x + mw) (cbx + cbw)) &&
     (* rule 8: as high as possible: no room at the start nor at any bottom edge passed on the way *)
     forallb (fun y' => impl (Qle_bool start y' && Qlt_b y' y) (no_room_at_b shapes cbx (cbx + cbw) mw mh y'))
             (start :: map s_bottom shapes) &&
     (* rule 9: as far to its side as possible *)
     match f_kind b with
     | FloatRight => Qeq_bool (x + mw) (cbx + cbw) ||
                     existsb (fun s => negb (s_left s) && collides y mh s && Qeq_bool (x + mw) (s_x s)) shapes
     | _ => Qeq_bool x cbx ||
            existsb (fun s => s_left s && collides y mh s && Qeq_bool x (s_x s + s_w s)) shapes
     end).

Definition ffp_case := (list shape * (Q * Q) * bool * fbox * (Q * Q))%type.
Definition ffp_judge (c : ffp_case) : nat :=
  let '(shapes, (cbx, cbw), rtl, b, (ox, oy)) := c in
  mask (match find_float_position (S (length shapes)) shapes cbx cbw rtl b with
        | Some (x, y) => Qeq_bool x ox && Qeq_bool y oy
        | None => false
        end)
       (float_spec_b shapes cbx cbw b ox oy).

(* a sequence of floats: requests and the implementation's positions *)
Definition fseq_case := (list (Q * Q * fbox) * list (Q * Q))%type.
Fixpoint fseq_spec (shapes : list shape) (reqs : list (Q * Q * fbox)) (outs : list (Q * Q)) : bool :=
  match reqs, outs with
  | [], [] => true
  | (cbx, cbw, b) :: reqs', (x, y) :: outs' =>
      float_spec_b shapes cbx cbw b x y && fseq_spec (shapes ++ [shape_of b (x, y)]) reqs' outs'
  | _, _ => false
  end.
Definition shape_eqb (a b : shape) : bool :=
  Bool.eqb (s_left a) (s_left b) && Qeq_bool (s_x a) (s_x b) && Qeq_bool (s_y a) (s_y b) &&
  Qeq_bool (s_w a) (s_w b) && Qeq_bool (s_h a) (s_h b).
Fixpoint list_eqb {A} (eqb : A -> A -> bool) (a b : list A) : bool :=
  match a, b with
  | [], [] => true
  | x :: a', y :: b' => eqb x y && list_eqb eqb a' b'
  | _, _ => false
  end.
Fixpoint shapes_of (reqs : list (Q * Q * fbox)) (outs : list (Q * Q)) : list shape :=
  match reqs, outs with
  | (_, _, b) :: reqs', p :: outs' => shape_of b p :: shapes_of reqs' outs'
  | _, _ => []
  end.
Definition fseq_judge (c : fseq_case) : nat :=
  let '(reqs, outs) := c in
  mask (match place_all [] reqs with
        | Some out => list_eqb shape_eqb out (shapes_of reqs outs) && Nat.eqb (length outs) (length reqs)
        | None => false
        end)
       (fseq_spec [] reqs outs).

(* avoid_collisions(outer=False) *)
Definition avc_case := (list shape * (Q * Q) * bool * fbox * (Q * Q * Q))%type.
Definition avc_judge (c : avc_case) : nat :=
  let '(shapes, (cbx, cbw), rtl, b, (ox, oy, oaw)) := c in
  mask (match avoid_collisions (S (length shapes)) shapes cbx cbw rtl false b with
        | Some (x, y, aw) => Qeq_bool x ox && Qeq_bool y oy && Qeq_bool aw oaw
        | None => false
        end)
       (impl (positive_shapes shapes && Qle_bool 0 (f_bh b))
          (Qle_bool (f_py b) oy &&
           match f_kind b with
           | LineBox =>
               (* the band handed to the line: [x, x + available_width) in ltr, (x - available_width, x] in rtl *)
               let bx := if rtl then ox + f_ml b - oaw else ox + f_ml b in
               forallb (fun s => negb (overlaps_b bx (oy + f_mt b) oaw (f_bh b) s)) shapes
           | _ => forallb (fun s => negb (overlaps_b (ox + f_ml b) (oy + f_mt b) (f_bw b) (f_bh b) s)) shapes
           end)).

(* get_clearance *)
Definition oq_eqb (a b : oq) : bool :=
  match a, b with Some x, Some y => Qeq_bool x y | None, None => true | _, _ => false end.
Definition clr_case := (list shape * clear_t * Q * oq)%type.
Definition clr_judge (c : clr_case) : nat :=
  let '(shapes, cl, hyp, out) := c in
  mask (oq_eqb (get_clearance shapes cl hyp) out)
       (match out with
        | None => forallb (fun s => impl (names cl s) (Qle_bool (s_bottom s) hyp)) shapes
        | Some v => Qlt_b 0 v && forallb (fun s => impl (names cl s) (Qle_bool (s_bottom s) (hyp + v))) shapes &&
                    existsb (fun s => names cl s && Qeq_bool (s_bottom s) (hyp + v)) shapes
        end).

(* relative_positioning: the tree before, the positions (pre-order) after *)
Definition spec_vector (ltr : bool) (offs : oq * oq * oq * oq) : Q * Q :=
  let '(l, r, t, bo) := offs in
  ((if match l with None => true | _ => false end
    then match r with Some rv => - rv | None => 0 end
    else if match r with None => true | _ => false end then match l with Some lv => lv | None => 0 end
    else if ltr then match l with Some lv => lv | None => 0 end else match r with Some rv => - rv | None => 0 end),
   match t with Some tv => tv | None => match bo with Some bv => - bv | None => 0 end end).
Definition pos_eqb (a b : Q * Q) : bool := Qeq_bool (fst a) (fst b) && Qeq_bool (snd a) (snd b).
Definition rel_case := (rbox * list (Q * Q))%type.
Definition rel_judge (c : rel_case) : nat :=
  let '(b, out) := c in
  mask (list_eqb pos_eqb (positions (relative_positioning b)) out)
       (match b with
        | RBox rel false ltr offs _ _ _ =>
            let v := if rel then spec_vector ltr offs else (0, 0) in
            list_eqb pos_eqb (map (fun p => (fst p + fst v, snd p + snd v)) (positions b)) out
        | RBox rel true ltr offs x y _ =>
            let v := if rel then spec_vector ltr offs else (0, 0) in
            match out with p :: _ => pos_eqb p (x + fst v, y + snd v) | [] => false end &&
            Nat.eqb (length out) (length (positions b))
        end).
