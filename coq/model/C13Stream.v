(* C13 - image identity in the PDF: state machines for Stream.add_image (weasyprint/pdf/stream.py) and the image
   part of _use_references (weasyprint/pdf/__init__.py).  Definitions only. *)
From Coq Require Import QArith List Bool String Ascii.
Require Import WV.model.C13Replaced.
Import ListNotations.
Open Scope string_scope.
Open Scope list_scope.

(* ---- Stream.add_image(image, interpolate, ratio) *)
Definition name_of (id : string) (interp : bool) : string := ("i" ++ id ++ (if interp then "1" else "0"))%string.

Record entry := Entry { e_name : string; e_img : nat; e_interp : bool; e_ratios : list Q }.

(* self._images (insertion-ordered dict) and self._resources['XObject'] keys (insertion-ordered) *)
Record sstate := SState { images : list entry; xobjs : list string }.
Definition sinit : sstate := SState [] [].

Definition has (n : string) (l : list string) : bool := existsb (String.eqb n) l.
Definition set_add (q : Q) (l : list Q) : list Q := if existsb (Qeq_bool q) l then l else l ++ [q].

Fixpoint add_ratio (n : string) (q : Q) (l : list entry) : list entry :=
  match l with
  | [] => []
  | e :: t => if String.eqb n (e_name e)
              then Entry (e_name e) (e_img e) (e_interp e) (set_add q (e_ratios e)) :: t
              else e :: add_ratio n q t
  end.

(* a call: the image object (img), its id, interpolate, ratio *)
Record call := Call { c_img : nat; c_id : string; c_interp : bool; c_ratio : Q }.

Definition add_image (s : sstate) (c : call) : sstate * string :=
  let n := name_of (c_id c) (c_interp c) in
  let xo := if has n (xobjs s) then xobjs s else xobjs s ++ [n] in
  if has n (map e_name (images s))
  then (SState (add_ratio n (c_ratio c) (images s)) xo, n)
  else (SState (images s ++ [Entry n (c_img c) (c_interp c) [c_ratio c]]) xo, n).

Fixpoint run_calls (s : sstate) (cs : list call) : sstate * list string :=
  match cs with
  | [] => (s, [])
  | c :: t => let '(s1, n) := add_image s c in let '(s2, ns) := run_calls s1 t in (s2, n :: ns)
  end.

(* ---- _use_references, images only.  built: names whose image_data['x_object'] is set; added: the log of
   pdf.add_object calls for image XObjects *)
Record rstate := RState { built : list string; added : list string }.

Definition use_one (s : rstate) (n : string) : rstate :=
  if has n (built s) then s else RState (n :: built s) (n :: added s).
Definition use_dict (s : rstate) (d : list string) : rstate := fold_left use_one d s.
Definition use_dicts (ds : list (list string)) : rstate := fold_left use_dict ds (RState [] []).

(* ---- judges *)
Definition str_list_eqb (a b : list string) : bool :=
  Nat.eqb (List.length a) (List.length b) && forallb (fun p => String.eqb (fst p) (snd p)) (combine a b).
Definition subset_q (a b : list Q) : bool := forallb (fun x => existsb (Qeq_bool x) b) a.
Definition entry_eqb (a b : entry) : bool :=
  String.eqb (e_name a) (e_name b) && Nat.eqb (e_img a) (e_img b) && Bool.eqb (e_interp a) (e_interp b) &&
  subset_q (e_ratios a) (e_ratios b) && subset_q (e_ratios b) (e_ratios a).
Definition entries_eqb (a b : list entry) : bool :=
  Nat.eqb (List.length a) (List.length b) && forallb (fun p => entry_eqb (fst p) (snd p)) (combine a b).
Definition count_s (n : string) (l : list string) : nat := List.length (filter (String.eqb n) l).

Fixpoint nodup_b (l : list string) : bool :=
  match l with [] => true | x :: t => negb (has x t) && nodup_b t end.

(* case: calls, then the implementation's returned names, final _images and XObject keys *)
Definition stream_judge (c : list call * list string * list entry * list string) : nat :=
  let '(cs, names, imgs, xo) := c in
  let '(s, ns) := run_calls sinit cs in
  (bit 1 (str_list_eqb ns names && entries_eqb (images s) imgs && str_list_eqb (xobjs s) xo) +
   bit 2 (nodup_b (map e_name imgs) &&
          forallb (fun cl => Nat.eqb (count_s (name_of (c_id cl) (c_interp cl)) (map e_name imgs)) 1) cs &&
          Nat.eqb (List.length names) (List.length cs) &&
          forallb (fun p => String.eqb (name_of (c_id (fst p)) (c_interp (fst p))) (snd p)) (combine cs names)))%nat.

(* case: the dictionaries, then per key (key, x objects built, objects added) from the implementation *)
Definition refs_judge (c : list (list string) * list (string * nat * nat)) : nat :=
  let '(ds, counts) := c in
  let s := use_dicts ds in
  (bit 1 (forallb (fun t => let '(k, b, a) := t in Nat.eqb (count_s k (built s)) b && Nat.eqb (count_s k (added s)) a) counts) +
   bit 2 (forallb (fun t => let '(k, b, a) := t in Nat.eqb b 1 && Nat.eqb a 1) counts))%nat.
