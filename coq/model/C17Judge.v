(* C17 - judges evaluated inside Coq on implementation outputs (correspondence runs).  Definitions only. *)
From Coq Require Import ZArith List Bool.
Require Import WV.model.C17Stacking.
Import ListNotations.
Open Scope Z_scope.

(* compact constructor used by the generated case files; flags: bit0 float, 1 opacity<1, 2 transform,
   3 overflow, 4 clip, 5 grid item, 6 border-collapse, 7 hidden empty cell, 8 root clip, 9 flex item *)
Definition I (id : Z) (k : kind) (p : position) (z : option Z) (t : tmat) (flags : Z) : info :=
  mkI id k p (Z.testbit flags 0) z (Z.testbit flags 1) (Z.testbit flags 2) t (Z.testbit flags 3)
      (Z.testbit flags 4) (Z.testbit flags 5) (Z.testbit flags 6) (Z.testbit flags 7) (Z.testbit flags 8)
      (Z.testbit flags 9).

(* the isinstance facts of a class as the harness measures them on the real classes:
   bit0 ParentBox, 1 BlockLevelBox, 2 TableCellBox, 3 (InlineBlockBox, InlineFlexBox, InlineGridBox),
   4 the point-2 tuple of draw_stacking_context, 5 TableBox, 6 InlineBox, 7 LineBox, 8 TextBox, 9 ReplacedBox,
   10 InlineReplacedBox, 11 PageBox *)
Definition b2z (b : bool) (n : Z) : Z := if b then Z.shiftl 1 n else 0.
Definition kind_bits (k : kind) : Z :=
  b2z (is_parent k) 0 + b2z (block_level k) 1 + b2z (is_cell k) 2 + b2z (stacking_class k) 3 +
  b2z (point2_class k) 4 + b2z (is_table k) 5 + b2z (is_inline k) 6 + b2z (is_line k) 7 + b2z (is_text k) 8 +
  b2z (is_replaced k) 9 + b2z (is_inline_replaced k) 10 + b2z (is_page k) 11.
Definition bits_ok (l : list (kind * Z)) : bool := forallb (fun p => kind_bits (fst p) =? snd p) l.

(* direct call of StackingContext.from_box on a tree: bit 0 = the model's context differs from the flattened
   implementation result (or the class tables differ) *)
Definition frombox_judge0 (c : box * pnode * list (kind * Z)) : nat :=
  let '(t, out, bits) := c in
  (if pnode_eqb (from_box t) out && bits_ok bits then 0 else 1)%nat.

Require Import WV.model.C17Spec.

Definition events_eqb (a b : list event) : bool := list_eqb event_eqb a b.
Fixpoint has_assert (l : list event) : bool :=
  match l with [] => false | EAssert _ :: _ => true | _ :: r => has_assert r end.

(* bit 0: the model's context differs from the flattened implementation result, or the class tables differ;
   bit 1: the tree is well-formed and the paint sequence of the implementation's context is not the Appendix E
          sequence of the tree; bit 2: the tree is not well-formed (reported with the reason by the harness) *)
Definition frombox_judge (c : box * pnode * list (kind * Z)) : nat :=
  let '(t, out, bits) := c in
  ((if pnode_eqb (from_box t) out && bits_ok bits then 0 else 1) +
   (if wf t then (if events_eqb (paint_ctx out) (appendix_E_paint t) then 0 else 2) else 4))%nat.

Definition frompage_judge (c : box * pnode * list (kind * Z)) : nat :=
  let '(page, out, bits) := c in
  ((if pnode_eqb (from_page (binfo page) (bkids page)) out && bits_ok bits then 0 else 1) +
   (if wf_page page then (if events_eqb (paint_ctx out) (appendix_E_page page) then 0 else 2) else 4))%nat.

(* diagnostics for bit 2: which node breaks which clause of wf_node (
   2 class of a box painted as a context, 3 shape of the children that stay in place) *)
Definition wf_codes (root : bool) (b : box) : list (Z * nat) :=
  let i := binfo b in
  (if wf_ctx_kind root i then [] else [(bid i, 2%nat)]) ++
  (if wf_kids b then [] else [(bid i, 3%nat)]).
Fixpoint wf_why_from (root : bool) (b : box) : list (Z * nat) :=
  match b with Box i kids => wf_codes root b ++ flat_map (wf_why_from false) kids end.
Definition wf_why (b : box) : list (Z * nat) := wf_why_from true b.
Definition wf_why_page (page : box) : list (Z * nat) := flat_map wf_why (bkids page).

(* ---- painted exactly once, judged on the paint list of the implementation's structure ----
   every box has exactly one outline visit (draw_outline is unconditional: the painter reached the box once);
   every text / replaced box shows its content exactly once; no box has its background or border painted twice;
   every box whose class carries a background (everything but line and text boxes, columns, page) has it painted
   once.  Returns the offending (box id, code): 1 outline count, 2 content count, 3 background/border twice,
   4 background missing. *)
Definition count_ev (l : list event) (id : Z) (ly : layer) : nat :=
  length (filter (fun e => match e with EPaint i y => (i =? id) && layer_eqb y ly | _ => false end) l).
Definition has_background (k : kind) : bool :=
  match k with KLine | KText | KOther | KPage => false | _ => true end.
Definition once_codes (evs : list event) (skip_root : bool) (t : box) : list (Z * nat) :=
  flat_map (fun x =>
    let i := binfo x in
    let id := bid i in
    (if Nat.eqb (count_ev evs id LOutline) 1 then [] else [(id, 1%nat)]) ++
    (if is_text (knd i) || is_replaced (knd i)
     then (if Nat.eqb (count_ev evs id LContent) 1 then [] else [(id, 2%nat)]) else []) ++
    (if Nat.leb (count_ev evs id LBg) 1 && Nat.leb (count_ev evs id LBorder) 1 then [] else [(id, 3%nat)]) ++
    (if has_background (knd i) && Nat.eqb (count_ev evs id LBg) 0 && negb (hid i) then [(id, 4%nat)] else []))
    (preorder t).

(* bit 3: some box of a regular tree is not painted exactly once *)
Definition frompage_judge2 (c : box * pnode * list (kind * Z)) : nat :=
  let '(page, out, bits) := c in
  (frompage_judge c +
   (if regular page then
      match once_codes (paint_ctx out) true page with [] => 0 | _ => 8 end
    else 0))%nat.
Definition once_why_page (c : box * pnode * list (kind * Z)) : list (Z * nat) :=
  let '(page, out, bits) := c in once_codes (paint_ctx out) true page.

(* ---- display list tie (monitor A): the colours of the fills / text shows of the page's content stream, in
        order, against the paint list of the model (bit 0) and of the Appendix E specification (bit 1) ----
   ink: per box id the colour number of its background, border and text (negative = that paint leaves no ink:
   transparent, hidden, zero width, blank).  The harness gives two tables: what the implementation's draw_* calls
   produce for a paint event (model side) and what CSS prescribes (specification side). *)
Fixpoint lookup3 (tbl : list (Z * (Z * list Z * Z))) (id : Z) : Z * list Z * Z :=
  match tbl with
  | [] => (-1, [], -1)
  | (k, v) :: r => if k =? id then v else lookup3 r id
  end.
(* a border may be painted side by side (bottom, left, right, top) in different colours: a list *)
Definition ink_of (tbl : list (Z * (Z * list Z * Z))) (e : event) : list Z :=
  match e with
  | EPaint id ly =>
      let '(bg, bd, tx) := lookup3 tbl id in
      match ly with
      | LBg => if bg <? 0 then [] else [bg]
      | LBorder => bd
      | LContent => if tx <? 0 then [] else [tx]
      | LOutline => []
      end
  | _ => []
  end.
Fixpoint dedup (l : list Z) : list Z :=
  match l with
  | a :: ((b :: _) as r) => if a =? b then dedup r else a :: dedup r
  | _ => l
  end.
Definition ink_seq (tbl : list (Z * (Z * list Z * Z))) (l : list event) : list Z := dedup (flat_map (ink_of tbl) l).

Definition display_judge (c : box * list (Z * (Z * list Z * Z)) * list (Z * (Z * list Z * Z)) * list Z) : nat :=
  let '(page, tbl_model, tbl_spec, observed) := c in
  let obs := dedup observed in
  ((if list_eqb Z.eqb (ink_seq tbl_model (paint_ctx (from_page (binfo page) (bkids page)))) obs then 0 else 1) +
   (if wf_page page && regular page
    then (if list_eqb Z.eqb (ink_seq tbl_spec (appendix_E_page page)) obs then 0 else 2) else 4))%nat.
