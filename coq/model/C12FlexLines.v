(* C12 - flex: `order` (sorted(children, key=order)), line collection (flex_layout step 5) and main-axis
   placement (step 12, main == 'width', direction ltr) as the code is now.  Definitions only. *)
From Coq Require Import QArith Qminmax List Bool ZArith Lia.
Require Import WV.model.C12Flex.
Import ListNotations.
Open Scope Q_scope.

Section Order.
  Context {A : Type} (key : A -> Z).
  (* Python's sorted() is stable: x is inserted before the first element whose key is >= key x when the
     list is built from the right *)
  Fixpoint insert_ord (x : A) (l : list A) : list A :=
    match l with
    | [] => [x]
    | y :: t => if (key x <=? key y)%Z then x :: y :: t else y :: insert_ord x t
    end.
  Definition sort_ord (l : list A) : list A := fold_right insert_ord [] l.
End Order.

Section Collect.
  Context {A : Type} (sz : A -> Q).   (* hypothetical_main_size + main_outer_extra *)
  (* the loop of step 5; `line`, `line_size` are the loop variables *)
  Fixpoint collect_aux (wrap : bool) (main gap : Q) (line : list A) (line_size : Q) (l : list A)
    : list (list A) :=
    match l with
    | [] => match line with [] => [] | _ => [line] end
    | c :: t =>
        let ls := line_size + sz c + (match line with [] => 0 | _ => gap end) in
        if wrap && (if Qlt_le_dec main ls then true else false)
        then match line with
             | [] => [c] :: collect_aux wrap main gap [] 0 t
             | _ => line :: collect_aux wrap main gap [c] (sz c) t
             end
        else collect_aux wrap main gap (line ++ [c]) ls t
    end.
  Definition collect (wrap : bool) (main gap : Q) (l : list A) : list (list A) :=
    collect_aux wrap main gap [] 0 l.

  (* outer size of a line as css-flexbox 9.3 counts it *)
  Definition line_outer (gap : Q) (line : list A) : Q := sumQ sz line + gaps_enum line gap.

  (* css-flexbox 9.3 reference: greedy; an item alone always goes in *)
  Fixpoint collect_css_aux (main gap : Q) (line : list A) (l : list A) : list (list A) :=
    match l with
    | [] => match line with [] => [] | _ => [line] end
    | c :: t =>
        match line with
        | [] => collect_css_aux main gap [c] t
        | _ => if Qlt_le_dec main (line_outer gap (line ++ [c]))
               then line :: collect_css_aux main gap [c] t
               else collect_css_aux main gap (line ++ [c]) t
        end
    end.
  Definition collect_css (wrap : bool) (main gap : Q) (l : list A) : list (list A) :=
    if wrap then collect_css_aux main gap [] l else match l with [] => [] | _ => [l] end.
End Collect.

(* ---- step 12, one line *)
Inductive justify := JStart | JEnd | JCenter | JBetween | JAround | JEvenly | JStretch.

(* an item as step 12 sees it: border-box width without the content width is in jextra
   (paddings + borders), content width jw, margins (None = auto), flex-grow (for 'stretch') *)
Record jitem := mkJ { jid : Z; jw : Q; jpb : Q; jml : option Q; jmr : option Q; jgrow : Q; jmin : Q; jmax : option Q }.

Definition oz (m : option Q) : Q := match m with None => 0 | Some q => q end.
Definition nauto (x : jitem) : Z :=
  ((match jml x with None => 1 | _ => 0 end) + (match jmr x with None => 1 | _ => 0 end))%Z.
Definition border_w (x : jitem) : Q := jw x + jpb x.

(* free_space before 12.1 *)
Definition jfree (W gap : Q) (line : list jitem) : Q :=
  W - sumQ (fun x => border_w x + oz (jml x) + oz (jmr x)) line - gaps_len line gap.
Definition nautos (line : list jitem) : Z := fold_right (fun x a => (nauto x + a)%Z) 0%Z line.

Definition fill_auto (share : Q) (x : jitem) : jitem :=
  mkJ (jid x) (jw x) (jpb x)
      (Some (match jml x with None => share | Some q => q end))
      (Some (match jmr x with None => share | Some q => q end)) (jgrow x) (jmin x) (jmax x).

(* placed item: id, position_x (margin-box left edge), used content width, used margins *)
Record placed := mkP { pid : Z; px : Q; pw : Q; pml : Q; pmr : Q }.

Definition lead (j : justify) (free : Q) (n : nat) : Q :=
  match j with
  | JEnd => free
  | JCenter => free / 2
  | JAround => free / nQ n / 2
  | JEvenly => free / (nQ n + 1)
  | _ => 0
  end.
Definition between (j : justify) (free : Q) (n : nat) : Q :=
  match j with
  | JAround => free / nQ n
  | JBetween => if (1 <? Z.of_nat n)%Z then free / (nQ n - 1) else 0
  | JEvenly => free / (nQ n + 1)
  | _ => 0
  end.

(* the loop `for i, (index, child) in enumerate(line)` of 12.2; growths = sum of flex-grow over all children *)
Fixpoint place_loop (j : justify) (free gap growths : Q) (n : nat) (first : bool) (pos : Q) (line : list jitem)
  : list placed :=
  match line with
  | [] => []
  | x :: t =>
      let pos1 := if first then pos else pos + gap in
      let w := match j with
               | JStretch => if Qeq_dec growths 0 then jw x else jw x + free * jgrow x / growths
               | _ => jw x
               end in
      let mw := oz (jml x) + w + jpb x + oz (jmr x) in
      (* the width written by 'stretch' goes through min/max again in the final block layout of the item *)
      let wf := match j with JStretch => Qmax (jmin x) (qmin_opt w (jmax x)) | _ => w end in
      mkP (jid x) pos1 wf (oz (jml x)) (oz (jmr x))
        :: place_loop j free gap growths n false (pos1 + mw + between j free n) t
  end.

Definition justify_line (j : justify) (origin W gap growths : Q) (line : list jitem) : list placed :=
  let free0 := jfree W gap line in
  let k := nautos line in
  let line1 := if (0 <? k)%Z then map (fill_auto (free0 / inject_Z k)) line else line in
  let free := if (0 <? k)%Z then 0 else free0 in
  place_loop j free gap growths (length line) true (origin + lead j free (length line)) line1.

(* css-flexbox 9.5 / css-align reference: auto margins only take positive free space; negative free space
   falls back (space-between -> start, space-around / space-evenly -> center); stretch behaves as start *)
Definition justify_css (j : justify) (origin W gap : Q) (line : list jitem) : list placed :=
  let free0 := jfree W gap line in
  let k := nautos line in
  let share := if Qlt_le_dec 0 free0 then free0 / inject_Z k else 0 in
  let line1 := if (0 <? k)%Z then map (fill_auto share) line else line in
  let free := if (0 <? k)%Z then (if Qlt_le_dec 0 free0 then 0 else free0) else free0 in
  let j' := match j with
            | JStretch => JStart
            | JBetween => if Qlt_le_dec free 0 then JStart else j
            | JAround | JEvenly => if Qlt_le_dec free 0 then JCenter else j
            | _ => j
            end in
  place_loop j' free gap 0 (length line) true (origin + lead j' free (length line)) line1.
