(* C12 - flex: `order` (sorted(children, key=order)), line collection (flex_layout step 5) and main-axis
   placement (step 12, main == 'width', direction ltr) as the code is now.  Definitions only. *)
From Coq Require Import QArith Qminmax List Bool ZArith Lia.
Require Import WV.model.C12Flex.
Import ListNotations.
Open Scope Q_scope.

Section Order.
  Context {A : Type} (key : A -> Z).
  (* Python's sorted() is stable: x is inserted before the first element whose key is >= key x when the
     list is built from the right *)
  Fixpoint insert_ord (x : A) (l : list A) : list A :=
    match l with
    | [] => [x]
    | y :: t => if (key x <=? key y)%Z then x :: y :: t else y :: insert_ord x t
    end.
  Definition sort_ord (l : list A) : list A := fold_right insert_ord [] l.
End Order.

Section Collect.
  Context {A : Type} (sz : A -> Q).   (* hypothetical_main_size + main_outer_extra *)
  (* the loop of step 5; `line`, `line_size` are the loop variables *)
  Fixpoint collect_aux (wrap : bool) (main gap : Q) (line : list A) (line_size : Q) (l : list A)
    : list (list A) :=
    match l with
    | [] => match line with [] => [] | _ => [line] end
    | c :: t =>
        let ls := line_size + sz c + (match line with [] => 0 | _ => gap end) in
        if wrap && (if Qlt_le_dec main ls then true else false)
        then match line with
             | [] => [c] :: collect_aux wrap main gap [] 0 t
             | _ => line :: collect_aux wrap main gap [c] (sz c) t
             end
        else collect_aux wrap main gap (line ++ [c]) ls t
    end.
  Definition collect (wrap : bool) (main gap : Q) (l : list A) : list (list A) :=
    collect_aux wrap main gap [] 0 l.

  (* outer size of a line as css-flexbox 9.3 counts it *)
  Definition line_outer (gap : Q) (line : list A) : Q := sumQ sz line + gaps_enum line gap.

  (* css-flexbox 9.3 reference: "collect consecutive items one by one until the first time that the next
     collected item would not fit ...  If the very first uncollected item wouldn't fit, collect just it
     into the line." *)
  Fixpoint collect_css_aux (main gap : Q) (line : list A) (l : list A) : list (list A) :=
    match l with
    | [] => match line with [] => [] | _ => [line] end
    | c :: t =>
        let start_with_c := if Qlt_le_dec main (sz c) then [c] :: collect_css_aux main gap [] t
                            else collect_css_aux main gap [c] t in
        match line with
        | [] => start_with_c
        | _ => if Qlt_le_dec main (line_outer gap (line ++ [c]))
               then line :: start_with_c
               else collect_css_aux main gap (line ++ [c]) t
        end
    end.
  Definition collect_css (wrap : bool) (main gap : Q) (l : list A) : list (list A) :=
    if wrap then collect_css_aux main gap [] l else match l with [] => [] | _ => [l] end.
End Collect.

(* ---- step 12, one line *)
Inductive justify := JStart | JEnd | JCenter | JBetween | JAround | JEvenly.

(* an item as step 12 sees it: content width jw, paddings + borders jpb, margins (None = auto) *)
Record jitem := mkJ { jid : Z; jw : Q; jpb : Q; jml : option Q; jmr : option Q }.

Definition oz (m : option Q) : Q := match m with None => 0 | Some q => q end.
Definition nauto (x : jitem) : Z :=
  ((match jml x with None => 1 | _ => 0 end) + (match jmr x with None => 1 | _ => 0 end))%Z.
Definition border_w (x : jitem) : Q := jw x + jpb x.

(* free_space before 12.1 *)
Definition jfree (W gap : Q) (line : list jitem) : Q :=
  W - sumQ (fun x => border_w x + oz (jml x) + oz (jmr x)) line - gaps_len line gap.
Definition nautos (line : list jitem) : Z := fold_right (fun x a => (nauto x + a)%Z) 0%Z line.

Definition fill_auto (share : Q) (x : jitem) : jitem :=
  mkJ (jid x) (jw x) (jpb x)
      (Some (match jml x with None => share | Some q => q end))
      (Some (match jmr x with None => share | Some q => q end)).

(* placed item: id, position_x (margin-box left edge), used content width, margin-box width *)
Record placed := mkP { pid : Z; px : Q; pw : Q; pmw : Q }.

Definition lead (j : justify) (free : Q) (n : nat) : Q :=
  match j with
  | JEnd => free
  | JCenter => free / 2
  | JAround => free / nQ n / 2
  | JEvenly => free / (nQ n + 1)
  | _ => 0
  end.
Definition between (j : justify) (free : Q) (n : nat) : Q :=
  match j with
  | JAround => free / nQ n
  | JBetween => if (1 <? Z.of_nat n)%Z then free / (nQ n - 1) else 0
  | JEvenly => free / (nQ n + 1)
  | _ => 0
  end.

(* the loop `for i, (index, child) in enumerate(line)` of 12.2 *)
Fixpoint place_loop (gap sp : Q) (first : bool) (pos : Q) (line : list jitem) : list placed :=
  match line with
  | [] => []
  | x :: t =>
      let pos1 := if first then pos else pos + gap in
      let mw := oz (jml x) + jw x + jpb x + oz (jmr x) in
      mkP (jid x) pos1 (jw x) mw :: place_loop gap sp false (pos1 + mw + sp) t
  end.

(* 12.1: auto margins take the positive free space *)
Definition margins_line (free0 : Q) (line : list jitem) : list jitem * Q :=
  let k := nautos line in
  if (0 <? k)%Z then (map (fill_auto (Qmax free0 0 / inject_Z k)) line, Qmin free0 0) else (line, free0).

(* fallback alignment when the items overflow; `jstart` = what flex-start means in the left-to-right frame *)
Definition fallback (jstart : justify) (free : Q) (j : justify) : justify :=
  if Qlt_le_dec free 0
  then match j with JBetween => jstart | JAround | JEvenly => JCenter | x => x end
  else j.

(* step 12 for one line; `reverse` = flex-direction ends with -reverse (the overflow fallback of space-between
   is flex-start, i.e. ('flex-end',) in the left-to-right frame of a reversed line) *)
Definition justify_line (reverse : bool) (j : justify) (origin W gap : Q) (line : list jitem) : list placed :=
  let (line1, free) := margins_line (jfree W gap line) line in
  let j' := fallback (if reverse then JEnd else JStart) free j in
  let n := length line in
  place_loop gap (between j' free n) true (origin + lead j' free n) line1.
