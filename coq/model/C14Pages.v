(* C14 - sequence of pages: sides and blank pages, the page counter, named strings / running elements.
   Hand models of weasyprint/layout/__init__.py initialize_page_maker, LayoutContext.get_string_or_element_for and
   weasyprint/layout/page.py remake_page (page side / blank page part), _standardize_page_based_counters,
   with formatting_structure/build.py update_counters restricted to the counter `page` in the single scope of
   the page context.  Definitions only; proofs in proofs/C14_pages.v.  Tied to /repo by the streams
   counters-direct, strings-direct (exact) and pages-render, strings-render (full renders). *)
From Coq Require Import ZArith List String Bool.
Require Import WV.model.C14Page.
Import ListNotations.
Open Scope string_scope.
Open Scope list_scope.
Open Scope Z_scope.

(* ------------------------------------------------------------------------------ sides and blank pages *)
(* next_page['break'] *)
Inductive brk := BAny | BPage | BLeft | BRight | BRecto | BVerso.

(* remake_page: `next_page_side` *)
Definition next_page_side (ltr : bool) (k : brk) : option side :=
  match k with
  | BLeft => Some SLeft
  | BRight => Some SRight
  | BRecto => Some (if xorb ltr false then SRight else SLeft)
  | BVerso => Some (if xorb ltr true then SRight else SLeft)
  | BAny | BPage => None
  end.

Definition side_of (right_page : bool) : side := if right_page then SRight else SLeft.

(* initialize_page_maker: right_page of the first page from the root's break-before and direction *)
Definition initial_right_page (ltr : bool) (root_break : brk) : bool :=
  match root_break with
  | BRight => true
  | BLeft => false
  | BRecto => ltr
  | BVerso => negb ltr
  | BAny | BPage => ltr
  end.

(* one remake_page: page type (side, blank) from page_maker[index] = (.., next_page, right_page, ..) *)
Definition page_step (ltr right_page : bool) (k : brk) : side * bool :=
  let blank := match next_page_side ltr k with
               | Some SLeft => right_page
               | Some SRight => negb right_page
               | None => false
               end in
  (side_of right_page, blank).

(* make_all_pages: `pending` = the break value in front of every page of content still to lay out (the head is
   next_page of the current page_maker entry).  A blank page consumes no content and hands the same next_page
   on; right_page flips after every page.  Fuel exhausted = None. *)
Fixpoint make_pages (fuel : nat) (ltr right_page : bool) (pending : list brk) : option (list (side * bool)) :=
  match pending with
  | [] => Some []
  | k :: rest =>
      match fuel with
      | O => None
      | S f =>
          let '(sd, blank) := page_step ltr right_page k in
          match make_pages f ltr (negb right_page) (if blank then pending else rest) with
          | Some ps => Some ((sd, blank) :: ps)
          | None => None
          end
      end
  end.

(* ---- the reading of the property (css-page-3 / css-break-3), as predicates on the list of pages ---- *)
Fixpoint alternating (right_page : bool) (sides : list side) : Prop :=
  match sides with [] => True | s :: r => s = side_of right_page /\ alternating (negb right_page) r end.

(* sides of the pages that carry content, in order *)
Definition content_sides (pages : list (side * bool)) : list side :=
  map fst (filter (fun p => negb (snd p)) pages).

(* for every content page, whether a blank page was inserted just before it *)
Fixpoint preceded_by_blank (prev_blank : bool) (pages : list (side * bool)) : list bool :=
  match pages with
  | [] => []
  | (_, true) :: r => preceded_by_blank true r
  | (_, false) :: r => prev_blank :: preceded_by_blank false r
  end.

(* every blank page is immediately followed by a page with content *)
Fixpoint blank_then_content (pages : list (side * bool)) : Prop :=
  match pages with
  | [] => True
  | (_, true) :: r => match r with (_, false) :: _ => blank_then_content r | _ => False end
  | (_, false) :: r => blank_then_content r
  end.

(* decidable renditions, for the judge *)
Fixpoint alternating_b (right_page : bool) (sides : list side) : bool :=
  match sides with [] => true | s :: r => side_eqb s (side_of right_page) && alternating_b (negb right_page) r end.
Fixpoint blank_then_content_b (pages : list (side * bool)) : bool :=
  match pages with
  | [] => true
  | (_, true) :: r => match r with (_, false) :: _ => blank_then_content_b r | _ => false end
  | (_, false) :: r => blank_then_content_b r
  end.
Fixpoint honoured_b (ltr : bool) (pending : list brk) (sides : list side) (pre : list bool) : bool :=
  match pending, sides, pre with
  | [], [], [] => true
  | k :: pr, s :: sr, b :: br =>
      match next_page_side ltr k with
      | Some w => side_eqb s w
      | None => negb b
      end && honoured_b ltr pr sr br
  | _, _, _ => false
  end.

Definition pages_eqb (x y : list (side * bool)) : bool :=
  Nat.eqb (List.length x) (List.length y) &&
  forallb (fun p => side_eqb (fst (fst p)) (fst (snd p)) && Bool.eqb (snd (fst p)) (snd (snd p))) (combine x y).

(* pages-render: direction, root break-before, breaks in front of the content pages after the first one, and the
   (side, blank) of the pages the implementation made *)
Definition sides_judge (c : bool * brk * list brk * list (side * bool)) : nat :=
  let '(ltr, root_break, breaks, out) := c in
  let rp := initial_right_page ltr root_break in
  let pending := BAny :: breaks in
  ((match make_pages (2 * List.length pending) ltr rp pending with
    | Some ps => if pages_eqb ps out then 0 else 1
    | None => 1
    end) +
   (if alternating_b rp (map fst out) && blank_then_content_b out
       && honoured_b ltr pending (content_sides out) (preceded_by_blank false out)
    then 0 else 2))%nat.

(* --------------------------------------------------------------------------------- the page counter *)
Definition ops := list (string * Z).
(* counter_set / counter_reset / counter_increment of the @page (or margin box) style; None = 'auto' *)
Record cstyle := mkCS { c_set : option ops; c_reset : option ops; c_incr : option ops }.

Definition touches_page (o : option ops) : bool :=
  match o with None => false | Some l => existsb (fun nv => String.eqb (fst nv) "page") l end.
Definition drop_pages (o : option ops) : ops :=
  match o with None => [] | Some l => filter (fun nv => negb (String.eqb (fst nv) "pages")) l end.

(* _standardize_page_based_counters(style, pseudo_type); is_page = (pseudo_type is None) *)
Definition standardize (st : cstyle) (is_page : bool) : ops * ops * ops :=
  let touched := touches_page (c_set st) || touches_page (c_reset st) || touches_page (c_incr st) in
  let incr := drop_pages (c_incr st) in
  (drop_pages (c_set st), drop_pages (c_reset st),
   if is_page && negb touched then ("page", 1) :: incr else incr).

(* update_counters on the value of `page` (None = no such counter yet): resets, then increments, then sets
   (css-lists-3 4.5; the order in /repo since commit 30cc3ac) *)
Definition apply_reset (v : option Z) (nv : string * Z) : option Z :=
  if String.eqb (fst nv) "page" then Some (snd nv) else v.
Definition apply_set (v : option Z) (nv : string * Z) : option Z :=
  if String.eqb (fst nv) "page" then Some (snd nv) else v.
Definition apply_incr (v : option Z) (nv : string * Z) : option Z :=
  if String.eqb (fst nv) "page" then Some (match v with Some x => x | None => 0 end + snd nv) else v.
Definition update_page_counter (v : option Z) (s : ops * ops * ops) : option Z :=
  let '(sets, resets, incrs) := s in
  fold_left apply_set sets (fold_left apply_incr incrs (fold_left apply_reset resets v)).

(* make_page for page after page: the value of counter(page) in the page state of every page *)
Fixpoint page_counters (v : option Z) (styles : list cstyle) : list (option Z) :=
  match styles with
  | [] => []
  | st :: r => let v' := update_page_counter v (standardize st true) in v' :: page_counters v' r
  end.

(* a margin box works on a copy of the page's state *)
Definition margin_counter (v : option Z) (st : cstyle) : option Z := update_page_counter v (standardize st false).

Definition oz_eqb (x y : option Z) : bool :=
  match x, y with None, None => true | Some a, Some b => a =? b | _, _ => false end.
Fixpoint ozl_eqb (x y : list (option Z)) : bool :=
  match x, y with [] , [] => true | a :: r, b :: s => oz_eqb a b && ozl_eqb r s | _, _ => false end.

(* counters-direct: styles of the successive pages, a margin-box style applied on the last page's state;
   implementation: value of `page` after every page, and in the margin box *)
Definition counters_judge (c : list cstyle * cstyle * (list (option Z) * option Z)) : nat :=
  let '(styles, mst, (out, mout)) := c in
  let m := page_counters None styles in
  if ozl_eqb m out && oz_eqb (margin_counter (last m None) mst) mout then 0%nat else 1%nat.

(* pages-render: the rules that won for each page (as the implementation's computed style shows them) are
   replaced here by the model's own cascade: see C14Doc.v *)

(* ------------------------------------------------------------- named strings and running elements *)
Inductive keyword := KFirst | KStart | KLast | KFirstExcept.

(* store[name]: assignments made on page 1, 2, ... in order ([] = the page is not a key of the dictionary) *)
Definition sstore := list (list Z).

Definition page_assignments (st : sstore) (page : nat) : list Z :=
  match page with O => [] | S p => nth p st [] end.

(* `for previous_page in range(current_page - 1, 0, -1): if previous_page in store[name]: return ...[-1]` *)
Fixpoint search_back (st : sstore) (p : nat) : option Z :=
  match p with
  | O => None
  | S q => match page_assignments st p with
           | [] => search_back st q
           | x :: l => Some (last l x)
           end
  end.

(* first-child chain of the page box: for each element, the names its string-set assigns *)
Definition chain_assigns (chain : list (list string)) (name : string) : bool :=
  existsb (fun names => existsb (String.eqb name) names) chain.

(* get_string_or_element_for(store, page, name, keyword) with self.current_page = current;
   None = Python None (rendered as the empty string) *)
Definition get_string (st : sstore) (current : nat) (kw : keyword) (start_assigns : bool) : option Z :=
  match page_assignments st current with
  | [] => search_back st (current - 1)
  | first :: l =>
      match kw with
      | KFirst => Some first
      | KStart => if start_assigns then Some first else search_back st (current - 1)
      | KLast => Some (last l first)
      | KFirstExcept => None
      end
  end.

(* ---- css-gcpm-3 7.1.3 (string()) / 7.3 (element()), written independently of the search ---- *)
(* all assignments made before page p, in document order *)
Definition before_page (st : sstore) (p : nat) : list Z := List.concat (firstn (p - 1) st).
Definition last_opt (l : list Z) : option Z := match l with [] => None | x :: r => Some (last r x) end.
(* entry value: the value of the named string at the end of the previous page *)
Definition entry_value (st : sstore) (p : nat) : option Z := last_opt (before_page st p).

Definition string_spec (st : sstore) (p : nat) (kw : keyword) (first_element_assigns : bool) : option Z :=
  let here := page_assignments st p in
  match kw with
  | KFirst => match here with x :: _ => Some x | [] => entry_value st p end
  | KStart => match here with x :: _ => if first_element_assigns then Some x else entry_value st p
                         | [] => entry_value st p end
  | KLast => match last_opt here with Some x => Some x | None => entry_value st p end
  | KFirstExcept => match here with _ :: _ => None | [] => entry_value st p end
  end.

(* strings-direct / strings-render: store, current page, keyword, chain flag, implementation's answer *)
Definition strings_judge (c : sstore * nat * keyword * bool * option Z) : nat :=
  let '(st, cur, kw, fl, out) := c in
  ((if oz_eqb (get_string st cur kw fl) out then 0 else 1) +
   (if oz_eqb (string_spec st cur kw fl) out then 0 else 2))%nat.
