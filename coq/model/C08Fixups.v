(* C08 - anonymous box fix-ups on an abstract box type: hand models of
   weasyprint/formatting_structure/build.py  wrap_improper, table_boxes_children / anonymous_table_boxes /
   wrap_table (the structural part), inline_in_block, block_in_inline / _inner_block_in_inline.
   Definitions only (proofs: proofs/C08_fixups.v).

   A box is its class (C08Tree.kind), a few attributes the fix-ups look at, and its children.  Styles, text and
   geometry are abstracted away; `ident` lets theorems follow a box through the rewriting. *)
From Coq Require Import Bool List Arith.
Require Import WV.model.C08Tree.
Import ListNotations.

Record attrs := mkA {
  a_flow : bool;        (* is_in_normal_flow() *)
  a_abs : bool;         (* is_absolutely_positioned() *)
  a_wrapper : bool;     (* is_table_wrapper *)
  a_anon : bool;        (* created by a fix-up (anonymous_from) *)
  a_empty : bool;       (* TextBox with text == '' *)
  a_space : bool;       (* TextBox with text == ' ' under a collapsing white-space value *)
  a_wsonly : bool;      (* is_whitespace(box): TextBox with only white space *)
  a_grp : nat;          (* row group: 0 table-row-group, 1 table-header-group, 2 table-footer-group *)
  a_capbot : bool;      (* caption: caption-side is bottom *)
  ident : nat
}.

Inductive box := B (k : kind) (a : attrs) (kids : list box).

Definition bk (b : box) : kind := match b with B k _ _ => k end.
Definition ba (b : box) : attrs := match b with B _ a _ => a end.
Definition bkids (b : box) : list box := match b with B _ _ l => l end.

Fixpoint erase (b : box) : tree :=
  match b with B k a l => N k (a_flow a) (a_wrapper a) (a_empty a) (map erase l) end.

(* the anonymous box created from `parent`: in flow, not positioned, not a wrapper *)
Definition anon_attrs (parent : attrs) : attrs :=
  mkA true false false true false false false 0 false (ident parent).

(* ================================================================== wrap_improper
   for child in children: if test(child): flush the pending run into one wrapper; yield child
                          else: improper.append(child)
   Result: Left x for a child that passes, Right run for a maximal run that does not. *)
Fixpoint wrap_runs {A} (test : A -> bool) (pending : list A) (l : list A) : list (A + list A) :=
  match l with
  | [] => match pending with [] => [] | _ => [inr pending] end
  | x :: r =>
      if test x then
        match pending with [] => inl x :: wrap_runs test [] r | _ => inr pending :: inl x :: wrap_runs test [] r end
      else wrap_runs test (pending ++ [x]) r
  end.

Definition unruns {A} (l : list (A + list A)) : list A :=
  flat_map (fun e => match e with inl x => [x] | inr run => run end) l.

(* ================================================================== anonymous table boxes (CSS 2.1 17.2.1) *)
Definition proper_table_child (k : kind) : bool :=
  match k with KRowGroup | KRow | KColGroup | KCol | KCaption => true | _ => false end.
Definition internal_table_or_caption (k : kind) : bool := proper_table_child k || is_k KCell k.
Definition tabular_container (k : kind) : bool :=
  match k with KTable | KInlineTable | KRowGroup | KRow => true | _ => false end.
(* parent_type in child.proper_parents *)
Definition proper_parent (child parent : kind) : bool :=
  match child with
  | KRowGroup | KColGroup | KCaption => is_table parent
  | KRow => is_table parent || is_k KRowGroup parent
  | KCol => is_table parent || is_k KColGroup parent
  | _ => false
  end.

Definition is_ws (b : box) : bool := is_k KText (bk b) && a_wsonly (ba b).
Definition itc (b : box) : bool := internal_table_or_caption (bk b).

(* rule 1.3: in a tabular container, white space before the last / after the first internal child goes *)
Definition rule13 (k : kind) (l : list box) : list box :=
  if tabular_container k && (2 <=? length l) then
    let l1 := match rev l with
              | text :: internal :: _ => if itc internal && is_ws text then removelast l else l
              | _ => l end in
    if 2 <=? length l1 then
      match l1 with
      | text :: internal :: r => if itc internal && is_ws text then internal :: r else l1
      | _ => l1 end
    else l1
  else l.

(* rule 1.4: white space between two internal table boxes (or captions) goes *)
Fixpoint rule14 (prev : option box) (l : list box) : list box :=
  match l with
  | [] => []
  | c :: r =>
      let drop := match prev, r with
                  | Some p, n :: _ => itc p && itc n && is_ws c
                  | _, _ => false end in
      if drop then rule14 (Some c) r else c :: rule14 (Some c) r
  end.

(* the monad of the fuel *)
Fixpoint mapM {A B} (f : A -> option B) (l : list A) : option (list B) :=
  match l with
  | [] => Some []
  | x :: r => match f x, mapM f r with Some y, Some ys => Some (y :: ys) | _, _ => None end
  end.

Section Step.
  (* rec wk a run = table_boxes_children(wrapper_type.anonymous_from(box, []), run), one level of fuel down *)
  Variable rec : kind -> attrs -> list box -> option box.

  Definition wrapI (pa : attrs) (wk : kind) (test : box -> bool) (l : list box) : option (list box) :=
    mapM (fun e => match e with inl x => Some x | inr run => rec wk (anon_attrs pa) run end) (wrap_runs test [] l).

  (* wrap_table: rows into row groups, header first and footer last, captions to the wrapper.
     Column boxes go to table.column_groups (not among the children): dropped here.
     Any other class among the children is the KeyError of `by_type[type(child)]`: None. *)
  Definition wrap_table (k : kind) (a : attrs) (l : list box) : option box :=
    if forallb (fun c => proper_table_child (bk c)) l then
      let rows := filter (fun c => is_k KRow (bk c) || is_k KRowGroup (bk c)) l in
      let caps := filter (fun c => is_k KCaption (bk c)) l in
      match wrapI a KRowGroup (fun c => is_k KRowGroup (bk c)) rows with
      | None => None
      | Some groups =>
          let header := find (fun g => Nat.eqb (a_grp (ba g)) 1) groups in
          let footer := find (fun g => Nat.eqb (a_grp (ba g)) 2) groups in
          (* every group that is not the chosen header / footer, in order *)
          let fix bodies (hd ft : bool) (gs : list box) : list box :=
            match gs with
            | [] => []
            | g :: r => if Nat.eqb (a_grp (ba g)) 1 && negb hd then bodies true ft r
                        else if Nat.eqb (a_grp (ba g)) 2 && negb ft then bodies hd true r
                        else g :: bodies hd ft r
            end in
          let ordered := (match header with Some h => [h] | None => [] end) ++ bodies false false groups
                         ++ (match footer with Some f => [f] | None => [] end) in
          (* float / position (TABLE_WRAPPER_BOX_PROPERTIES) move to the wrapper: the table itself is in flow *)
          let table := B k (mkA true false (a_wrapper a) (a_anon a) (a_empty a) (a_space a) (a_wsonly a) (a_grp a) (a_capbot a)
                                (ident a)) ordered in
          let wk := match k with KInlineTable => KInlineBlock | _ => KBlock end in
          let wa := mkA (a_flow a) (a_abs a) true true false false false 0 false (ident a) in
          Some (B wk wa (filter (fun c => negb (a_capbot (ba c))) caps ++ [table]
                         ++ filter (fun c => a_capbot (ba c)) caps))
      end
    else None.

  (* table_boxes_children(box, children) *)
  Definition tbc_step (k : kind) (a : attrs) (children : list box) : option box :=
    let children :=
      match k with
      | KCol => []                                                          (* rule 1.1 *)
      | KColGroup =>                                                        (* rule 1.2 *)
          match filter (fun c => is_k KCol (bk c)) children with
          | [] => (* "rule XXX": box.span anonymous columns; box.span is len(box.children) when the group had
                     children (none of them a column), else the span attribute (1 here) *)
                  repeat (B KCol (anon_attrs a) []) (Nat.max 1 (length children))
          | cols => cols
          end
      | _ => children
      end in
    let children := rule14 None (rule13 k children) in
    let s2 := match k with
              | KTable | KInlineTable => wrapI a KRow (fun c => proper_table_child (bk c)) children    (* rule 2.1 *)
              | KRowGroup => wrapI a KRow (fun c => is_k KRow (bk c)) children                         (* rule 2.2 *)
              | _ => Some children
              end in
    match s2 with
    | None => None
    | Some children =>
        let s3 := match k with
                  | KRow => wrapI a KCell (fun c => is_k KCell (bk c)) children                        (* rule 2.3 *)
                  | _ => wrapI a KRow (fun c => negb (is_k KCell (bk c))) children                     (* rule 3.1 *)
                  end in
        match s3 with
        | None => None
        | Some children =>
            let s4 := match k with                                                                     (* rule 3.2 *)
                      | KInline => wrapI a KInlineTable (fun c => negb (proper_table_child (bk c))) children
                      | _ => wrapI a KTable (fun c => negb (proper_table_child (bk c)) || proper_parent (bk c) k) children
                      end in
            match s4 with
            | None => None
            | Some children =>
                if is_table k then wrap_table k a children else Some (B k a children)
            end
        end
    end.
End Step.

(* fuel = depth of the nesting of calls on freshly made wrappers; None when it runs out *)
Fixpoint tbc (fuel : nat) : kind -> attrs -> list box -> option box :=
  match fuel with
  | O => fun _ _ _ => None
  | S n => tbc_step (tbc n)
  end.

(* a box that is not a ParentBox is returned as it is (running elements are not modelled) *)
Definition parent_kind (k : kind) : bool :=
  match k with KText | KBlockRepl | KInlineRepl => false | _ => true end.

(* anonymous_table_boxes(box): children first, then table_boxes_children *)
Fixpoint atb (fuel : nat) (b : box) : option box :=
  match b with
  | B k a l =>
      if parent_kind k then
        match (fix go (l : list box) : option (list box) :=
                 match l with
                 | [] => Some []
                 | c :: r => match atb fuel c, go r with Some c', Some r' => Some (c' :: r') | _, _ => None end
                 end) l with
        | Some l' => tbc fuel k a l'
        | None => None
        end
      else Some b
  end.

Definition FUEL := 8.

(* ================================================================== inline_in_block *)
(* the second loop of inline_in_block over the children of a block container:
   line = new_line_children, out = new_children (reversed accumulators are avoided: lists are short).
   None = the assertion `not isinstance(child_box, LineBox)`. *)
Fixpoint iib_loop (pa : attrs) (line out : list box) (l : list box) : option (list box) :=
  match l with
  | [] =>
      match line with
      | [] => Some out
      | _ => let lb := B KLine (anon_attrs pa) line in
             match out with
             | [] => Some [lb]
             | _ => Some (out ++ [B KBlock (anon_attrs pa) [lb]])
             end
      end
  | c :: r =>
      if is_k KLine (bk c) then None
      else if negb (match line with [] => true | _ => false end) && a_abs (ba c) then iib_loop pa (line ++ [c]) out r
      else if inline_level (bk c) || (negb (match line with [] => true | _ => false end) && negb (a_flow (ba c))) then
        if negb (match line with [] => true | _ => false end) || negb (is_k KText (bk c) && a_space (ba c))
        then iib_loop pa (line ++ [c]) out r
        else iib_loop pa line out r
      else
        match line with
        | [] => iib_loop pa [] (out ++ [c]) r
        | _ => iib_loop pa [] (out ++ [B KBlock (anon_attrs pa) [B KLine (anon_attrs pa) line]; c]) r
        end
  end.

Fixpoint iib (b : box) : option box :=
  match b with
  | B k a l =>
      match l with
      | [] => Some b
      | _ =>
        (* first loop: drop the emptied text boxes, recurse *)
        match (fix go (l : list box) : option (list box) :=
                 match l with
                 | [] => Some []
                 | c :: r =>
                     if is_k KText (bk c) && a_empty (ba c) then go r
                     else match iib c, go r with Some c', Some r' => Some (c' :: r') | _, _ => None end
                 end) l with
        | None => None
        | Some children =>
            if block_container k then
              match iib_loop a [] [] children with Some l' => Some (B k a l') | None => None end
            else Some (B k a children)
        end
      end
  end.

(* undo the wrapping: the content of anonymous block > line and of a line, in place *)
Definition unwrap_lines (l : list box) : list box :=
  flat_map (fun c => match c with
                     | B KLine _ xs => xs
                     | B KBlock a [B KLine _ xs] => if a_anon a then xs else [c]
                     | _ => [c]
                     end) l.

Definition droppable (c : box) : bool := is_k KText (bk c) && (a_empty (ba c) || a_space (ba c)).

(* ================================================================== block_in_inline
   _inner_block_in_inline(box, skip_stack): the part of an inline box (or line box) after `skip` up to the next
   in-flow block-level box.  The skip stack {i: {j: ...}} is the list [i; j; ...].
   Returns (new box, block found, resume stack).  The recursive call block_in_inline(child) on the other children
   is abstracted by `inner` (it rewrites a subtree without changing its root's class). *)
Section BlockInInline.
  Variable inner : box -> box.

  Definition is_block_in_flow (c : box) : bool := block_level (bk c) && a_flow (ba c).

  Fixpoint ibi (b : box) (stack : list nat) : box * option box * list nat :=
    match b with
    | B k a l =>
        let skip := match stack with [] => 0 | i :: _ => i end in
        let sub := match stack with [] => [] | _ :: s => s end in
        (* toskip counts down the children still to be skipped; idx is the index of the current child *)
        let '(new, blk, resume) :=
          (fix go (l : list box) (toskip idx : nat) (sub : list nat) : list box * option box * list nat :=
             match l with
             | [] => ([], None, [])
             | c :: r =>
                 match toskip with
                 | S t => go r t (S idx) sub
                 | O =>
                     if is_block_in_flow c then ([], Some c, [S idx])
                     else if is_k KInline (bk c) then
                       let '(c', blk, res) := ibi c sub in
                       match blk with
                       | Some _ => ([c'], blk, idx :: res)
                       | None => let '(rest, blk', res') := go r O (S idx) [] in (c' :: rest, blk', res')
                       end
                     else let '(rest, blk', res') := go r O (S idx) [] in (inner c :: rest, blk', res')
                 end
             end) l skip 0 sub in
        (B k a new, blk, resume)
    end.

  (* the while loop of block_in_inline on one line box: pieces and blocks alternate; fuel bounds the number of
     blocks (at most the size of the line) *)
  Fixpoint bii_line (fuel : nat) (line : box) (stack : list nat) : option (list (box + box)) :=
    match fuel with
    | O => None
    | S n =>
        let '(piece, blk, resume) := ibi line stack in
        match blk with
        | None => Some [inl piece]
        | Some b => match bii_line n line resume with
                    | Some rest => Some (inl piece :: inr (inner b) :: rest)
                    | None => None
                    end
        end
    end.
End BlockInInline.

(* the boxes of a piece of inline content in order, inline boxes being transparent: what the splitting must preserve *)
Fixpoint content (b : box) : list nat :=
  match b with
  | B k a l =>
      if is_k KInline k then
        (fix go (l : list box) : list nat := match l with [] => [] | c :: r => content c ++ go r end) l
      else [ident a]
  end.
Definition contents (l : list box) : list nat :=
  (fix go (l : list box) : list nat := match l with [] => [] | c :: r => content c ++ go r end) l.
(* of a line box (or of the pieces cut out of it) *)
Definition line_content (b : box) : list nat := contents (bkids b).

Fixpoint size (b : box) : nat :=
  match b with B _ _ l => S ((fix go (l : list box) : nat := match l with [] => 0 | c :: r => size c + go r end) l) end.

(* block_in_inline on a block whose only child is a line box, the boxes below needing no rewriting: the pieces are
   wrapped in anonymous blocks unless there is a single one *)
Definition bii_block (b : box) : option box :=
  match b with
  | B k a [ln] =>
      match bii_line (fun c => c) (S (size ln)) ln [] with
      | Some [inl p] => Some (B k a [p])
      | Some ps => Some (B k a (map (fun p => match p with inl piece => B KBlock (anon_attrs a) [piece] | inr blk => blk end) ps))
      | None => None
      end
  | _ => None
  end.

(* ================================================================== judges *)
Fixpoint tree_eqb (x y : tree) : bool :=
  match x, y with
  | N k f w e l, N k' f' w' e' l' =>
      kind_eqb k k' && Bool.eqb f f' && Bool.eqb w w' && Bool.eqb e e' &&
      (fix go (a b : list tree) : bool :=
         match a, b with [], [] => true | p :: a', q :: b' => tree_eqb p q && go a' b' | _, _ => false end) l l'
  end.

(* (input, output of anonymous_table_boxes as a tree): bit 0 model <> implementation, bit 1 table clause of
   spec_wf_tree fails on the implementation's output *)
Definition atb_judge (c : box * tree) : nat :=
  let '(b, out) := c in
  (match atb FUEL b with Some m => if tree_eqb (erase m) out then 0 else 1 | None => 1 end)
  + (if all_nodes clause_table KOther false out then 0 else 2).

(* the clause of spec_wf_tree that inline_in_block establishes: block containers and line boxes (inline boxes may
   still hold blocks: block_in_inline comes next) *)
Definition clause_bc : kind -> bool -> kind -> bool -> bool -> list tree -> bool :=
  fun _ _ k _ _ l => if block_container k || is_k KLine k then ifc_here false k l else true.

(* (input, output of inline_in_block): bit 0 model <> implementation, bit 1 block-container clause fails *)
Definition iib_judge (c : box * tree) : nat :=
  let '(b, out) := c in
  (match iib b with Some m => if tree_eqb (erase m) out then 0 else 1 | None => 1 end)
  + (if all_nodes clause_bc KOther false out then 0 else 2).

(* (a block holding one line box, output of block_in_inline): bit 0 model <> implementation, bit 1 the inline content
   clause (line and inline boxes hold only inline-level or out-of-flow boxes) fails *)
Definition bii_judge (c : box * tree) : nat :=
  let '(b, out) := c in
  (match bii_block b with Some m => if tree_eqb (erase m) out then 0 else 1 | None => 1 end)
  + (if all_nodes (clause_ifc false) KOther false out then 0 else 2).
