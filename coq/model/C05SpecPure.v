(* C05 (independent of coq/gen): decidable renditions of the specification, evaluated on implementation outputs by the correspondence
   check (runtime monitor; the theorems are in proofs/C05_*.v). *)
From Coq Require Import QArith Qminmax List String Bool.
Require Import WV.base.Py.
Import ListNotations.
Open Scope string_scope.
Open Scope list_scope.
Open Scope Q_scope.

Definition val_eqb (a b : val) : bool :=
  match a, b with
  | VNum x, VNum y => Qeq_bool x y
  | VStr x, VStr y => String.eqb x y
  | VNone, VNone => true
  | VBool x, VBool y => Bool.eqb x y
  | _, _ => false
  end.
Definition is_auto_b (v : val) : bool := match v with VStr _ => true | _ => false end.
Definition numof_b (v : val) : Q := match v with VNum q => q | _ => 0 end.
Definition impl (a b : bool) := negb a || b.

(* mode: 0 tuple, 1 ltr box, 2 rtl box, 3 ltr column, 4 rtl column *)
Definition mk_env (ml mr w : val) (pl pr bl br px cbw : Q) (mode : nat) : env :=
  [("box", VObj [("margin_left", ml); ("margin_right", mr); ("width", w);
        ("padding_left", VNum pl); ("padding_right", VNum pr);
        ("border_left_width", VNum bl); ("border_right_width", VNum br);
        ("position_x", VNum px); ("is_column", VBool (match mode with 3%nat | 4%nat => true | _ => false end))]);
   ("containing_block",
     match mode with
     | O => VList [VNum cbw; VNum 0]
     | _ => VObj [("width", VNum cbw);
                  ("style", VObj [("direction", VStr (match mode with 2%nat | 4%nat => "rtl" | _ => "ltr" end))])]
     end)].

Definition fld (o : val) (k : string) : val := match o with VObj f => lookup k f | _ => VErr "noobj" end.

Definition vals_eqb (a b : list val) : bool :=
  Nat.eqb (List.length a) (List.length b) && forallb (fun p => val_eqb (fst p) (snd p)) (combine a b).

(* boolean rendition of width_post (proofs/C05_width.v) applied to an output [a; c; d; x] *)
Definition width_spec_b (ml mr w : val) (pl pr bl br px cbw : Q) (mode : nat) (out : list val) : bool :=
  match out with
  | [VNum a; VNum c; VNum d; VNum x] =>
      let tot := numof_b ml + numof_b mr + pl + pr + bl + br + numof_b w in
      let fits := Qle_bool tot cbw in
      let sum := a + bl + pl + d + pr + br + c in
      let rtl_shift := match mode with 2%nat => true | _ => false end in
      impl (negb (is_auto_b w)) (Qeq_bool d (numof_b w)) &&
      impl (negb (is_auto_b ml)) (Qeq_bool a (numof_b ml)) &&
      impl (negb (is_auto_b mr)) (Qeq_bool c (numof_b mr)) &&
      impl (is_auto_b w) (Qeq_bool sum cbw && impl (is_auto_b ml) (Qeq_bool a 0) && impl (is_auto_b mr) (Qeq_bool c 0)) &&
      impl (negb (is_auto_b w) && (is_auto_b ml || is_auto_b mr) && fits)
           (Qeq_bool sum cbw && impl (is_auto_b ml && is_auto_b mr) (Qeq_bool a c)) &&
      impl (negb (is_auto_b w) && negb fits) (impl (is_auto_b ml) (Qeq_bool a 0) && impl (is_auto_b mr) (Qeq_bool c 0)) &&
      (if rtl_shift && negb (is_auto_b w)
       then impl (negb (is_auto_b ml || is_auto_b mr) || negb fits) (Qeq_bool (x + sum) (px + cbw)) &&
            impl ((is_auto_b ml || is_auto_b mr) && fits) (Qeq_bool x px)
       else Qeq_bool x px)
  | _ => false
  end.

Definition collapse_spec_q (ms : list Q) : Q :=
  fold_left Qmax (filter (fun m => Qle_bool 0 m) ms) 0 + fold_left Qmin (filter (fun m => Qle_bool m 0) ms) 0.

(* spec-only judges (used even when the regenerated model does not build) *)
Definition blw_spec_judge (c : (val * val * val) * (Q * Q * Q * Q * Q * Q) * nat * list val) : nat :=
  let '(ml, mr, w, (pl, pr, bl, br, px, cbw), mode, out) := c in
  if width_spec_b ml mr w pl pr bl br px cbw mode out then 0%nat else 2%nat.
Definition collapse_spec_judge (c : list Q * val) : nat :=
  let '(ms, out) := c in if val_eqb (VNum (collapse_spec_q ms)) out then 0%nat else 2%nat.
