(* C12 - flex: hand-written model of weasyprint/layout/flex.py, flex_layout step 6
   ("Resolve the flexible lengths", css-flexbox-1 9.7) as the code is now, in Q.
   Definitions only; the proofs are in proofs/C12_flex*.v.

   Inputs of the model = what steps 2-5 hand to step 6 for one flex line:
     per item  flex_base_size, min_<main>, max_<main> (None = inf), flex-grow, flex-shrink,
               main_outer_extra (3.A: paddings + borders + non-auto margins);
     main_gap, available_main_space = the definite main size of the container.
   hypothetical_main_size is computed as step 3 does: max(min, min(base, max)).
   `available_main_space == inf` cannot occur in step 6 (step 4 has made the main size definite), so the
   two `== inf` conversions of 9.7.5.b are not modelled. *)
From Coq Require Import QArith Qminmax Qabs List Bool ZArith Lia.
Import ListNotations.
Open Scope Q_scope.

Record item := mkItem {
  ibase : Q; imin : Q; imax : option Q; igrow : Q; ishrink : Q; iextra : Q }.

Definition qmin_opt (x : Q) (m : option Q) : Q := match m with None => x | Some y => Qmin x y end.
(* max(min_size, min(x, max_size)) *)
Definition clamp (it : item) (x : Q) : Q := Qmax (imin it) (qmin_opt x (imax it)).
Definition ihyp (it : item) : Q := clamp it (ibase it).

Inductive mode := Grow | Shrink.
Definition factor (md : mode) (it : item) : Q := match md with Grow => igrow it | Shrink => ishrink it end.

Fixpoint sumQ {A : Type} (f : A -> Q) (l : list A) : Q :=
  match l with [] => 0 | x :: t => f x + sumQ f t end.

Definition nQ (n : nat) : Q := inject_Z (Z.of_nat n).

(* (len(line) - 1) * main_gap  (9.7.1, step 12) *)
Definition gaps_len {A : Type} (l : list A) (gap : Q) : Q := (nQ (length l) - 1) * gap.
(* sum over enumerate(line) of (main_gap if i else 0)  (9.7.4, 9.7.5.b) *)
Definition gaps_enum {A : Type} (l : list A) (gap : Q) : Q :=
  match l with [] => 0 | _ :: t => nQ (length t) * gap end.

(* 9.7.1 *)
Definition choose_mode (items : list item) (gap avail : Q) : mode :=
  if Qlt_le_dec (sumQ (fun it => ihyp it + iextra it) items + gaps_len items gap) avail then Grow else Shrink.

(* per item state of the loop *)
Record fst := mkF { fit : item; ffrozen : bool; ftarget : Q }.

(* 9.7.3: is the item left unfrozen?  (flex factor non-zero and the base size on the right side of the
   hypothetical size) *)
Definition flexible (md : mode) (it : item) : bool :=
  negb ((if Qeq_dec (factor md it) 0 then true else false) ||
        match md with
        | Grow => if Qlt_le_dec (ihyp it) (ibase it) then true else false
        | Shrink => if Qlt_le_dec (ibase it) (ihyp it) then true else false
        end).
(* target_main_size of a non-frozen item is not set by the code in 9.7.3 (it is never read before 9.7.5.c
   writes it): the model puts the hypothetical size there *)
Definition init_item (md : mode) (it : item) : fst := mkF it (negb (flexible md it)) (ihyp it).

Definition used_size (x : fst) : Q := if ffrozen x then ftarget x else ibase (fit x).
(* 9.7.4 and 9.7.5.b *)
Definition free_space (avail gap : Q) (l : list fst) : Q :=
  avail - sumQ (fun x => used_size x + iextra (fit x)) l - gaps_enum l gap.
Definition ufs (md : mode) (l : list fst) : Q :=
  sumQ (fun x => if ffrozen x then 0 else factor md (fit x)) l.

Definition set_target (x : fst) (t : Q) : fst := mkF (fit x) (ffrozen x) t.
Definition set_frozen (x : fst) : fst := mkF (fit x) true (ftarget x).

Definition gsum (l : list fst) : Q := sumQ (fun x => if ffrozen x then 0 else igrow (fit x)) l.
Definition ssum (l : list fst) : Q :=
  sumQ (fun x => if ffrozen x then 0 else ibase (fit x) * ishrink (fit x)) l.

(* what is distributed in proportion to (9.7.5.c) *)
Definition weight (md : mode) (it : item) : Q :=
  match md with Grow => igrow it | Shrink => ibase it * ishrink it end.
(* the share of the free space an unfrozen item receives *)
Definition ratio (md : mode) (l : list fst) (x : fst) : Q :=
  match md with
  | Grow => igrow (fit x) / gsum l
  | Shrink => if Qeq_dec (ssum l) 0 then 0 else (ibase (fit x) * ishrink (fit x)) / ssum l
  end.

(* 9.7.5.c for one item *)
Definition dist1 (md : mode) (rem : Q) (l : list fst) (x : fst) : fst :=
  if ffrozen x then x
  else set_target x (if Qeq_dec rem 0 then ibase (fit x) else ibase (fit x) + rem * ratio md l x).
(* None = ZeroDivisionError (flex_grow_factors_sum == 0) *)
Definition distribute (md : mode) (rem : Q) (l : list fst) : option (list fst) :=
  if Qeq_dec rem 0 then Some (map (dist1 md rem l) l)
  else match md with
       | Grow => if Qeq_dec (gsum l) 0 then None else Some (map (dist1 md rem l) l)
       | Shrink => Some (map (dist1 md rem l) l)
       end.

(* 9.7.5.d: (new state, adjustment) *)
Definition fix_viol (x : fst) : fst * Q :=
  if ffrozen x then (x, 0)
  else let c := clamp (fit x) (ftarget x) in (set_target x c, c - ftarget x).

(* 9.7.5.e *)
Definition freeze_b (tot adj : Q) : bool :=
  if Qeq_dec tot 0 then true
  else if Qlt_le_dec 0 tot
       then (if Qlt_le_dec 0 adj then true else false)
       else (if Qlt_le_dec adj 0 then true else false).
Definition freeze (tot : Q) (p : fst * Q) : fst :=
  let (x, adj) := p in if freeze_b tot adj then set_frozen x else x.

(* 9.7.5.b: the free space to distribute in this pass *)
Definition pass_rem (md : mode) (avail gap init0 : Q) (l : list fst) : Q :=
  let u := ufs md l in
  let rem := free_space avail gap l in
  if Qlt_le_dec u 1
  then (let s := init0 * u in if Qlt_le_dec (Qabs s) (Qabs rem) then s else rem)
  else rem.

(* one iteration of the `while not all(frozen)` loop *)
Definition pass (md : mode) (avail gap init0 : Q) (l : list fst) : option (list fst) :=
  match distribute md (pass_rem md avail gap init0 l) l with
  | None => None
  | Some l1 =>
      let l2 := map fix_viol l1 in
      let tot := sumQ snd l2 in
      Some (map (freeze tot) l2)
  end.

Inductive res := Done (l : list fst) | OutOfFuel | DivZero.

Fixpoint loop (md : mode) (avail gap init0 : Q) (fuel : nat) (l : list fst) : res :=
  if forallb ffrozen l then Done l
  else match fuel with
       | O => OutOfFuel
       | S f => match pass md avail gap init0 l with
                | None => DivZero
                | Some l' => loop md avail gap init0 f l'
                end
       end.

(* steps 9.7.1 - 9.7.5 for one line; the fuel is the number of items *)
Definition resolve (items : list item) (gap avail : Q) : res :=
  let md := choose_mode items gap avail in
  let l0 := map (init_item md) items in
  loop md avail gap (free_space avail gap l0) (length items) l0.

Definition targets (r : res) : option (list Q) :=
  match r with Done l => Some (map ftarget l) | _ => None end.

(* ---- validity of the inputs (what the CSS parser / steps 2-3 guarantee) *)
Definition le_max (t : Q) (m : option Q) : Prop := match m with None => True | Some y => t <= y end.
Definition lt_max (t : Q) (m : option Q) : Prop := match m with None => True | Some y => t < y end.
Definition valid_item (it : item) : Prop :=
  0 <= igrow it /\ 0 <= ishrink it /\ 0 <= ibase it /\ le_max (imin it) (imax it).

(* outer main size of the line after resolution *)
Definition total (gap : Q) (l : list fst) : Q :=
  sumQ (fun x => ftarget x + iextra (fit x)) l + gaps_len l gap.

(* ---- decidable helpers for the correspondence judge *)
Definition Qabs_le_b (d eps : Q) : bool := Qle_bool (Qabs d) eps.
