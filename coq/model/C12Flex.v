(* C12 - flex: hand-written model of weasyprint/layout/flex.py, flex_layout step 6
   ("Resolve the flexible lengths", css-flexbox-1 9.7) as the code is now, in Q.
   Definitions only; the proofs are in proofs/C12_flex*.v.

   Inputs of the model = what steps 2-5 hand to step 6 for one flex line:
     per item  flex_base_size, min_<main>, max_<main> (None = inf), flex-grow, flex-shrink,
               main_outer_extra (3.A: borders + non-auto margins - the paddings are NOT in it),
               and the paddings (used only by step 12 and by the css reference);
     main_gap, available_main_space = the definite main size of the container.
   hypothetical_main_size is computed as step 3 does: max(min, min(base, max)).
   `available_main_space == inf` cannot occur in step 6 (step 4 has made the main size definite). *)
From Coq Require Import QArith Qminmax Qround Qabs List Bool ZArith Lia.
Import ListNotations.
Open Scope Q_scope.

Record item := mkItem {
  ibase : Q; imin : Q; imax : option Q; igrow : Q; ishrink : Q; iextra : Q; ipad : Q }.

Definition qmin_opt (x : Q) (m : option Q) : Q := match m with None => x | Some y => Qmin x y end.
(* max(min_size, min(x, max_size)) *)
Definition clamp (it : item) (x : Q) : Q := Qmax (imin it) (qmin_opt x (imax it)).
Definition ihyp (it : item) : Q := clamp it (ibase it).

Inductive mode := Grow | Shrink.
Definition factor (md : mode) (it : item) : Q := match md with Grow => igrow it | Shrink => ishrink it end.

Fixpoint sumQ {A : Type} (f : A -> Q) (l : list A) : Q :=
  match l with [] => 0 | x :: t => f x + sumQ f t end.

Definition nQ (n : nat) : Q := inject_Z (Z.of_nat n).

(* (len(line) - 1) * main_gap  (9.7.1, step 12) *)
Definition gaps_len {A : Type} (l : list A) (gap : Q) : Q := (nQ (length l) - 1) * gap.
(* sum over enumerate(line) of (main_gap if i else 0)  (9.7.4, 9.7.5.b) *)
Definition gaps_enum {A : Type} (l : list A) (gap : Q) : Q :=
  match l with [] => 0 | _ :: t => nQ (length t) * gap end.

(* 9.7.1 *)
Definition choose_mode (items : list item) (gap avail : Q) : mode :=
  if Qlt_le_dec (sumQ (fun it => ihyp it + iextra it) items + gaps_len items gap) avail then Grow else Shrink.

(* per item state of the loop *)
Record fst := mkF { fit : item; ffrozen : bool; ftarget : Q }.

(* 9.7.3 ; target_main_size of a non-frozen item is not set by the code here (never read before 9.7.5.c
   writes it): the model puts the hypothetical size there *)
Definition init_item (md : mode) (it : item) : fst :=
  let cond := match md with
              | Grow => if Qlt_le_dec (ihyp it) (ibase it) then true else false
              | Shrink => if Qlt_le_dec (ibase it) (ihyp it) then true else false
              end in
  mkF it ((if Qeq_dec (factor md it) 0 then true else false) || cond) (ihyp it).

Definition used_size (x : fst) : Q := if ffrozen x then ftarget x else ibase (fit x).
(* 9.7.4 and 9.7.5.b *)
Definition free_space (avail gap : Q) (l : list fst) : Q :=
  avail - sumQ (fun x => used_size x + iextra (fit x)) l - gaps_enum l gap.
Definition ufs (md : mode) (l : list fst) : Q :=
  sumQ (fun x => if ffrozen x then 0 else factor md (fit x)) l.

(* int(log10(x)) for x > 0, -inf (None) otherwise *)
Fixpoint il10 (fuel : nat) (p n : Z) : Z :=
  match fuel with
  | O => 0%Z
  | S f => if (10 * p <=? n)%Z then (1 + il10 f (10 * p) n)%Z else 0%Z
  end.
Definition ilog10 (n : Z) : Z := il10 (S (Z.to_nat (Z.log2 n))) 1 n.
Definition mag (x : Q) : option Z :=
  if Qlt_le_dec 0 x
  then Some (if Qlt_le_dec x 1 then (- ilog10 (Qfloor (/ x)))%Z else ilog10 (Qfloor x))
  else None.
Definition mag_lt (a b : option Z) : bool :=
  match a, b with
  | None, Some _ => true
  | Some x, Some y => (x <? y)%Z
  | _, None => false
  end.
(* the code's test `initial_magnitude < remaining_magnitude` *)
Definition dec_code (init rem : Q) : bool := mag_lt (mag init) (mag rem).
(* css-flexbox 9.7.4.b: "if the magnitude of this value is less than the magnitude of the remaining
   free space" *)
Definition dec_css (init rem : Q) : bool := if Qlt_le_dec (Qabs init) (Qabs rem) then true else false.

Definition set_target (x : fst) (t : Q) : fst := mkF (fit x) (ffrozen x) t.
Definition set_frozen (x : fst) : fst := mkF (fit x) true (ftarget x).

Definition gsum (l : list fst) : Q := sumQ (fun x => if ffrozen x then 0 else igrow (fit x)) l.
Definition ssum (l : list fst) : Q :=
  sumQ (fun x => if ffrozen x then 0 else ibase (fit x) * ishrink (fit x)) l.

(* the share of the free space an unfrozen item receives (9.7.5.c); None = ZeroDivisionError *)
Definition ratio (md : mode) (l : list fst) (x : fst) : Q :=
  match md with
  | Grow => igrow (fit x) / gsum l
  | Shrink => if Qeq_dec (ssum l) 0 then 0 else (ibase (fit x) * ishrink (fit x)) / ssum l
  end.

(* 9.7.5.c *)
Definition distribute (md : mode) (rem : Q) (l : list fst) : option (list fst) :=
  if Qeq_dec rem 0
  then Some (map (fun x => if ffrozen x then x else set_target x (ibase (fit x))) l)
  else match md with
       | Grow => if Qeq_dec (gsum l) 0 then None
                 else Some (map (fun x => if ffrozen x then x
                                          else set_target x (ibase (fit x) + rem * ratio Grow l x)) l)
       | Shrink => Some (map (fun x => if ffrozen x then x
                                       else set_target x (ibase (fit x) + rem * ratio Shrink l x)) l)
       end.

(* 9.7.5.d: (new state, adjustment) *)
Definition fix_viol (x : fst) : fst * Q :=
  if ffrozen x then (x, 0)
  else let c := clamp (fit x) (ftarget x) in (set_target x c, c - ftarget x).

(* 9.7.5.e *)
Definition freeze (tot : Q) (p : fst * Q) : fst :=
  let (x, adj) := p in
  if Qeq_dec tot 0 then set_frozen x
  else if Qlt_le_dec 0 tot
       then (if Qlt_le_dec 0 adj then set_frozen x else x)
       else (if Qlt_le_dec adj 0 then set_frozen x else x).

(* one iteration of the `while not all(frozen)` loop; `cumul` = the code multiplies the variable
   initial_free_space in place (true for the code, false for the css reference); `dec` = the magnitude test *)
Definition pass (dec : Q -> Q -> bool) (cumul : bool) (md : mode) (avail gap : Q) (init0 init : Q) (l : list fst)
  : option (Q * list fst) :=
  let u := ufs md l in
  let rem := free_space avail gap l in
  let init' := if Qlt_le_dec u 1 then (if cumul then init else init0) * u else (if cumul then init else init0) in
  let rem' := if dec init' rem then init' else rem in
  match distribute md rem' l with
  | None => None
  | Some l1 =>
      let l2 := map fix_viol l1 in
      let tot := sumQ snd l2 in
      Some (init', map (freeze tot) l2)
  end.

Inductive res := Done (l : list fst) | OutOfFuel | DivZero.

Fixpoint loop (dec : Q -> Q -> bool) (cumul : bool) (md : mode) (avail gap init0 : Q) (fuel : nat) (init : Q) (l : list fst) : res :=
  if forallb ffrozen l then Done l
  else match fuel with
       | O => OutOfFuel
       | S f => match pass dec cumul md avail gap init0 init l with
                | None => DivZero
                | Some (i', l') => loop dec cumul md avail gap init0 f i' l'
                end
       end.

Definition resolve_gen (dec : Q -> Q -> bool) (cumul : bool) (items : list item) (gap avail : Q) : res :=
  let md := choose_mode items gap avail in
  let l0 := map (init_item md) items in
  let i0 := free_space avail gap l0 in
  loop dec cumul md avail gap i0 (length items) i0 l0.

(* the model of the code *)
Definition resolve (items : list item) (gap avail : Q) : res := resolve_gen dec_code true items gap avail.

Definition targets (r : res) : option (list Q) :=
  match r with Done l => Some (map ftarget l) | _ => None end.

(* ---- css-flexbox-1 9.7 reference: outer size includes the paddings; true magnitudes; the initial free
   space is not overwritten *)
Definition css_item (it : item) : item :=
  mkItem (ibase it) (imin it) (imax it) (igrow it) (ishrink it) (iextra it + ipad it) 0.
Definition resolve_css (items : list item) (gap avail : Q) : res :=
  resolve_gen dec_css false (map css_item items) gap avail.

(* ---- validity of the inputs (what the CSS parser / steps 2-3 guarantee) *)
Definition le_max (t : Q) (m : option Q) : Prop := match m with None => True | Some y => t <= y end.
Definition lt_max (t : Q) (m : option Q) : Prop := match m with None => True | Some y => t < y end.
Definition valid_item (it : item) : Prop :=
  0 <= igrow it /\ 0 <= ishrink it /\ 0 <= ibase it /\ le_max (imin it) (imax it).

Definition total (gap : Q) (l : list fst) : Q :=
  sumQ (fun x => ftarget x + iextra (fit x)) l + gaps_len l gap.

(* ---- decidable helpers for the correspondence judge *)
Definition Qabs_le_b (d eps : Q) : bool := Qle_bool (Qabs d) eps.
Fixpoint close_list (eps : Q) (a b : list Q) : bool :=
  match a, b with
  | [], [] => true
  | x :: a', y :: b' => Qabs_le_b (x - y) eps && close_list eps a' b'
  | _, _ => false
  end.
