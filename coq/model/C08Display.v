(* C08 - display / float / position -> computed display -> box class: hand model of
   weasyprint/css/computed_values.py display(), compute_float() and
   weasyprint/formatting_structure/build.py BOX_TYPE_FROM_DISPLAY / make_box.  Definitions only.

   The validator (css/validation/properties.py display) produces: ('none',), one-element tuples for the internal
   table values, and (outside, inside[, 'list-item']); 'inline-table' / 'inline-flex' / 'inline-grid' arrive as
   ('inline', 'table' / 'flex' / 'grid') and 'inline-block' as ('inline', 'flow-root'). *)
From Coq Require Import Bool List.
Import ListNotations.

Inductive outer := OBlock | OInline.
Inductive inner := Flow | FlowRoot | ITable | Flex | Grid.
Inductive tpart := Caption | RowGroup | HeaderGroup | FooterGroup | Row | Cell | ColGroup | Col.
Inductive disp := DNone | DPart (t : tpart) | DPair (o : outer) (i : inner) (li : bool).

Inductive posv := PStatic | PRelative | PAbsolute | PFixed | PRunning.
Inductive floatv := FNone | FLeft | FRight | FFootnote.

(* computed_values.display:
     if position in ('absolute','fixed') or float_ != 'none' or style.is_root_element:
         if len(value) == 1 and value[0].startswith('table-'): return ('block','flow')
         elif value[0] == 'inline':
             if 'list-item' in value: return ('block','flow','list-item')
             elif value[1] in ('table','flex','grid'): return ('block', value[1])
             else: return ('block','flow')
     return value
   (float_ is the specified float) *)
Definition blockifies (p : posv) (f : floatv) (root : bool) : bool :=
  match p with PAbsolute | PFixed => true | _ => false end
  || match f with FNone => false | _ => true end
  || root.

Definition display (p : posv) (f : floatv) (root : bool) (v : disp) : disp :=
  if blockifies p f root then
    match v with
    | DPart _ => DPair OBlock Flow false
    | DPair OInline i li =>
        if li then DPair OBlock Flow true
        else match i with ITable | Flex | Grid => DPair OBlock i false | _ => DPair OBlock Flow false end
    | _ => v
    end
  else v.

(* computed_values.compute_float *)
Definition compute_float (p : posv) (f : floatv) : floatv :=
  match p with PAbsolute | PFixed | PRunning => FNone | _ => f end.

(* ---- the table of CSS 2.1 section 9.7 (step 3), with the display values later levels added
   (CSS Display 3 section 2.7: blockification sets the outer display type to block and keeps the inner one,
   except that inline-block becomes block): written from the specifications *)
Definition css_blockify (v : disp) : disp :=
  match v with
  | DNone => DNone
  | DPart _ => DPair OBlock Flow false                  (* table-row-group ... table-caption -> block *)
  | DPair OInline Flow li => DPair OBlock Flow li       (* inline -> block ; inline list-item -> list-item *)
  | DPair OInline FlowRoot li => DPair OBlock Flow li   (* inline-block -> block *)
  | DPair OInline ITable li => DPair OBlock ITable li   (* inline-table -> table *)
  | DPair OInline Flex li => DPair OBlock Flex li       (* inline-flex -> flex *)
  | DPair OInline Grid li => DPair OBlock Grid li       (* inline-grid -> grid *)
  | DPair OBlock i li => DPair OBlock i li              (* others: same as specified *)
  end.

(* CSS 2.1 9.7: 1. display none: nothing else applies; 2. position absolute/fixed: float computes to none and
   display follows the table; 3. float not none: display follows the table; 4. root element: the table;
   5. otherwise as specified *)
Definition css_display (p : posv) (f : floatv) (root : bool) (v : disp) : disp :=
  match v with
  | DNone => DNone
  | _ => if match p with PAbsolute | PFixed => true | _ => false end then css_blockify v
         else if match f with FNone => false | _ => true end then css_blockify v
         else if root then css_blockify v else v
  end.

(* the values the validator produces: list-item only goes with flow / flow-root *)
Definition valid_disp (v : disp) : bool :=
  match v with DPair _ (ITable | Flex | Grid) true => false | _ => true end.

(* ---- BOX_TYPE_FROM_DISPLAY[style['display'][:2]] ---- *)
Inductive boxcls := BlockBox | InlineBox | InlineBlockBox | TableBox | InlineTableBox | FlexBox | InlineFlexBox
                  | GridBox | InlineGridBox | TableRowBox | TableRowGroupBox | TableColumnBox | TableColumnGroupBox
                  | TableCellBox | TableCaptionBox.

Definition box_class (v : disp) : option boxcls :=
  match v with
  | DNone => None                                 (* element_to_box returns [] before make_box *)
  | DPart Row => Some TableRowBox
  | DPart (RowGroup | HeaderGroup | FooterGroup) => Some TableRowGroupBox
  | DPart Col => Some TableColumnBox
  | DPart ColGroup => Some TableColumnGroupBox
  | DPart Cell => Some TableCellBox
  | DPart Caption => Some TableCaptionBox
  | DPair OBlock (Flow | FlowRoot) _ => Some BlockBox
  | DPair OInline Flow _ => Some InlineBox
  | DPair OInline FlowRoot _ => Some InlineBlockBox
  | DPair OBlock ITable _ => Some TableBox
  | DPair OInline ITable _ => Some InlineTableBox
  | DPair OBlock Flex _ => Some FlexBox
  | DPair OInline Flex _ => Some InlineFlexBox
  | DPair OBlock Grid _ => Some GridBox
  | DPair OInline Grid _ => Some InlineGridBox
  end.

(* what the class hierarchy of boxes.py says about each class *)
Definition block_level (c : boxcls) : bool :=
  match c with BlockBox | TableBox | InlineTableBox | FlexBox | GridBox | TableCaptionBox => true | _ => false end.
Definition inline_level (c : boxcls) : bool :=
  match c with InlineBox | InlineBlockBox | InlineFlexBox | InlineGridBox => true | _ => false end.
(* InlineTableBox derives from TableBox (block-level); build.wrap_table wraps it in an InlineBlockBox *)

(* ---- judge: (position, specified float, is root, specified display, computed display of the implementation,
   computed float, class of the generated box or None) ; bit 0 model <> implementation, bit 1 the implementation
   differs from the CSS table *)
Definition disp_eqb (a b : disp) : bool :=
  match a, b with
  | DNone, DNone => true
  | DPart s, DPart t => match s, t with Caption, Caption | RowGroup, RowGroup | HeaderGroup, HeaderGroup
                        | FooterGroup, FooterGroup | Row, Row | Cell, Cell | ColGroup, ColGroup | Col, Col => true
                        | _, _ => false end
  | DPair o i l, DPair o' i' l' =>
      match o, o' with OBlock, OBlock | OInline, OInline => true | _, _ => false end
      && match i, i' with Flow, Flow | FlowRoot, FlowRoot | ITable, ITable | Flex, Flex | Grid, Grid => true | _, _ => false end
      && Bool.eqb l l'
  | _, _ => false
  end.
Definition float_eqb (a b : floatv) : bool :=
  match a, b with FNone, FNone | FLeft, FLeft | FRight, FRight | FFootnote, FFootnote => true | _, _ => false end.
Definition cls_code (c : boxcls) : nat :=
  match c with BlockBox => 1 | InlineBox => 2 | InlineBlockBox => 3 | TableBox => 4 | InlineTableBox => 5 | FlexBox => 6
  | InlineFlexBox => 7 | GridBox => 8 | InlineGridBox => 9 | TableRowBox => 10 | TableRowGroupBox => 11
  | TableColumnBox => 12 | TableColumnGroupBox => 13 | TableCellBox => 14 | TableCaptionBox => 15 end.

(* CSS 2.1 9.7 step 2: an absolutely positioned (absolute / fixed) box does not float; otherwise float is as specified
   (step 1: with display none float does not apply: not judged) *)
Definition css_float (p : posv) (f : floatv) : option floatv :=
  match p with PAbsolute | PFixed => Some FNone | PRunning => None | _ => Some f end.
(* bit 1: the implementation's computed display is not the CSS table, or its computed float is not CSS 2.1 9.7's, or the
   generated box is not of the class named after the CSS computed display *)
Definition display_judge (c : posv * floatv * bool * disp * disp * floatv * nat) : nat :=
  let '(p, f, root, v, d, cf, k) := c in
  let m := display p f root v in
  (if disp_eqb m d && float_eqb (compute_float p f) cf
      && Nat.eqb (match box_class m with Some b => cls_code b | None => 0 end) k then 0 else 1)
  + (if disp_eqb d (css_display p f root v)
        && match v, css_float p f with DNone, _ => true | _, Some x => float_eqb cf x | _, None => true end
        && Nat.eqb (match box_class (css_display p f root v) with Some b => cls_code b | None => 0 end) k
     then 0 else 2).
