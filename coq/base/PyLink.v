(* Linking calls between translated functions: [ocall] of the operations record is interpreted by running the
   callee's own regenerated body (recursion bounded by an explicit depth; exhausted depth is the error value
   "RecursionError", which the theorems exclude). *)
From Coq Require Import QArith List String Bool.
Require Import WV.base.Py.
Import ListNotations.
Open Scope string_scope.

Definition fn := (list string * list stmt)%type.      (* parameter names, body *)
Definition table := list (string * fn).

Fixpoint find_fn (f : string) (t : table) : option fn :=
  match t with [] => None | (g, d) :: r => if String.eqb f g then Some d else find_fn f r end.

Fixpoint bind (ps : list string) (vs : list val) : option env :=
  match ps, vs with
  | [], [] => Some []
  | p :: ps', v :: vs' => match bind ps' vs' with Some r => Some ((p, v) :: r) | None => None end
  | _, _ => None
  end.

(* the value of a call: what the body returns (None when it falls off the end), VErr m when it raises m *)
Definition call_body (O : qops) (d : fn) (args : list val) : val :=
  match bind (fst d) args with
  | None => VErr "TypeError"
  | Some rho => run O (snd d) rho (fun _ r => match r with Some v => v | None => VNone end) VErr
  end.

Fixpoint link (t : table) (n : nat) (f : string) (args : list val) : val :=
  match n with
  | O => VErr "RecursionError"
  | S n' => match find_fn f t with
            | None => VErr "NameError"
            | Some d => call_body (with_calls real_ops (link t n')) d args
            end
  end.

Definition linked (t : table) (n : nat) : qops := with_calls real_ops (link t n).

Lemma with_calls_ok O c : ops_ok O -> ops_ok (with_calls O c).
Proof. intros [? ? ? ? ? ? ? ?]. constructor; assumption. Qed.
Lemma linked_ok t n : ops_ok (linked t n).
Proof. apply with_calls_ok, real_ok. Qed.
Lemma ocall_linked t n f args : ocall (linked t (S n)) f args =
  match find_fn f t with None => VErr "NameError" | Some d => call_body (linked t n) d args end.
Proof. reflexivity. Qed.
