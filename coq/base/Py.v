(* Deep embedding of a small Python subset: syntax + total big-step semantics. *)
From Coq Require Import QArith Qminmax Lqa List String Bool ZArith.
From Coq Require Qround.
Import ListNotations.
Open Scope string_scope.

Inductive val :=
| VNum (q : Q) | VStr (s : string) | VBool (b : bool) | VNone
| VList (l : list val) | VObj (fields : list (string * val)) | VErr (msg : string).

(* Numeric operations are a parameter of the interpreter.  Proofs are carried out for an arbitrary record of
   operations satisfying [ops_ok] (so that evaluation cannot unfold rational arithmetic: the operations are
   variables) and then instantiated with [real_ops]; the correspondence check evaluates with [real_ops]. *)
Record qops := mkOps {
  qadd : Q -> Q -> Q; qsub : Q -> Q -> Q; qmul : Q -> Q -> Q; qdiv : Q -> Q -> Q;
  qmax : Q -> Q -> Q; qmin : Q -> Q -> Q; qleb : Q -> Q -> bool; qeqb : Q -> Q -> bool;
  (* what a call of another function (by name) returns; VErr m = it raises m.  Theorems about a body with calls
     assume the callee's specification about [ocall O]; base/PyLink.v discharges it by running the callee's own
     regenerated body *)
  ocall : string -> list val -> val;
  (* how many iterations a `while` loop may make before the interpreter gives up with the error value
     "FuelExhausted" (which the theorems exclude: they say how much is enough) *)
  wfuel : nat }.
Definition real_ops : qops :=
  mkOps Qplus Qminus Qmult Qdiv Qmax Qmin Qle_bool Qeq_bool (fun _ _ => VErr "NameError") 1000.
Definition with_calls (O : qops) (c : string -> list val -> val) : qops :=
  mkOps (qadd O) (qsub O) (qmul O) (qdiv O) (qmax O) (qmin O) (qleb O) (qeqb O) c (wfuel O).
Definition with_fuel (O : qops) (n : nat) : qops :=
  mkOps (qadd O) (qsub O) (qmul O) (qdiv O) (qmax O) (qmin O) (qleb O) (qeqb O) (ocall O) n.
Record ops_ok (O : qops) : Prop := mkOk {
  qadd_eq : qadd O = Qplus; qsub_eq : qsub O = Qminus; qmul_eq : qmul O = Qmult; qdiv_eq : qdiv O = Qdiv;
  qmax_eq : qmax O = Qmax; qmin_eq : qmin O = Qmin; qleb_eq : qleb O = Qle_bool; qeqb_eq : qeqb O = Qeq_bool }.
Lemma real_ok : ops_ok real_ops.
Proof. constructor; reflexivity. Qed.

Inductive binop := Add | Sub | Mul | Div.
Inductive cmpop := Eq | NotEq | Lt | LtE | Gt | GtE.

(* Built-in operations on values (the arguments are evaluated from left to right, like those of a call; the meaning
   is [prim_apply], a closed function: nothing is left to an oracle).  Integers are the numbers whose reduced
   fraction has denominator 1.  Only lists are measured / indexed / sliced: any other operand is the error value
   "TypeError" (strings are not indexed in this embedding, as for [EIndex]).
   New primitives can be added at the END of [prim] without touching the interpreter. *)
Inductive prim :=
| PLen        (* len(a) *)
| PRange      (* range(n), where it is iterated (comprehension / generator): the list 0 .. n-1 *)
| PIndex      (* a[i], i any expression: negative i counts from the end *)
| PSliceTo    (* a[:n] *)
| PMod        (* a % b on numbers: floor-mod, a - b * floor(a / b) (the sign of the divisor); b = 0 raises *)
| PAbs        (* abs(a), a a number *)
| PFloorDiv   (* a // b on numbers: the floor of the quotient (an integer); b == 0 is ZeroDivisionError *)
| PJoin       (* 'sep'.join(l), l a list of strings *)
| PReversed   (* reversed(l) where it is consumed at once (the argument of join): the reversed list *)
| PRange2     (* range(a, b), wherever it is iterated: the list a .. b-1 *)
| PEnumerate  (* enumerate(a), wherever it is iterated: the list of the pairs [i; a[i]] *)
| PSum        (* sum(a) of a list of numbers: 0 + a[0] + a[1] + ... from the left *)
| PSeqAdd     (* a + b where the operands may be sequences: numbers add, two lists / two strings concatenate *)
| PSeqMul     (* a * b where an operand may be a sequence: numbers multiply; a string / a list and an integer n (in
                 either order) is n copies of it, none when n <= 0 *)
| PSeqLen     (* len(a), a a list or a string (the number of its characters) *)
| PSortedByAttr  (* l.sort(key=lambda v: v.a) / sorted(l, key=...) [l; 'a'], l a list of objects whose attribute a is a
                    number: the STABLE sort by that number (list.sort is stable; on numbers the stable sorted
                    permutation is unique) *)
| PSliceFrom.    (* a[n:], a a list: the elements from index n on (a negative n counts from the end, an n beyond
                    either end is clamped, as Python does); a[:n] ++ a[n:] = a for every integer n *)
Definition as_int (q : Q) : option Z :=
  let r := Qred q in match Qden r with xH => Some (Qnum r) | _ => None end.
Definition vint (z : Z) : val := VNum (inject_Z z).
Fixpoint zrange_from (start : Z) (n : nat) : list val :=
  match n with Datatypes.O => [] | S n' => vint start :: zrange_from (start + 1) n' end.
Fixpoint strs_of (l : list val) : option (list string) :=
  match l with
  | [] => Some []
  | VStr s :: r => match strs_of r with Some ss => Some (s :: ss) | None => None end
  | _ => None
  end.
Fixpoint enum_from (z : Z) (l : list val) : list val :=
  match l with [] => [] | v :: r => VList [vint z; v] :: enum_from (z + 1) r end.
Fixpoint sum_vals (acc : Q) (l : list val) : val :=
  match l with
  | [] => VNum acc
  | VNum x :: r => sum_vals (acc + x)%Q r
  | VErr m :: _ => VErr m
  | _ :: _ => VErr "TypeError"
  end.
Fixpoint str_repeat (n : nat) (s : string) : string :=
  match n with Datatypes.O => EmptyString | S n' => String.append s (str_repeat n' s) end.
Fixpoint list_repeat (n : nat) (l : list val) : list val :=
  match n with Datatypes.O => [] | S n' => List.app l (list_repeat n' l) end.
(* PSortedByAttr: the keys (every element must be an object with a numeric attribute a; anything else is the error
   value TypeError: Python raises AttributeError / TypeError there, or orders non-numeric keys, which is outside this
   embedding), then a stable insertion sort on the keys *)
Fixpoint obj_attr (a : string) (f : list (string * val)) : option val :=
  match f with [] => None | (k, v) :: r => if String.eqb a k then Some v else obj_attr a r end.
Fixpoint attr_keys (a : string) (l : list val) : option (list (Q * val)) :=
  match l with
  | [] => Some []
  | VObj f :: r => match obj_attr a f, attr_keys a r with
                   | Some (VNum k), Some ks => Some ((k, VObj f) :: ks)
                   | _, _ => None
                   end
  | _ :: _ => None
  end.
Fixpoint key_insert (k : Q) (v : val) (l : list (Q * val)) : list (Q * val) :=
  match l with
  | [] => [(k, v)]
  | (k', v') :: r => if Qle_bool k k' then (k, v) :: l else (k', v') :: key_insert k v r
  end.
Fixpoint key_sort (l : list (Q * val)) : list (Q * val) :=
  match l with [] => [] | (k, v) :: r => key_insert k v (key_sort r) end.
Definition prim_apply (p : prim) (args : list val) : val :=
  match p, args with
  | PAbs, [VNum q] => VNum (if Qle_bool 0 q then q else Qopp q)
  | PFloorDiv, [VNum a; VNum b] =>
      if Qeq_bool b 0 then VErr "ZeroDivisionError"
      else let q := Qdiv a b in vint (Z.div (Qnum q) (Zpos (Qden q)))       (* floor of a / b *)
  | PJoin, [VStr sep; VList l] =>
      match strs_of l with Some ss => VStr (String.concat sep ss) | None => VErr "TypeError" end
  | PReversed, [VList l] => VList (rev l)
  | PLen, [VList l] => vint (Z.of_nat (List.length l))
  | PRange, [VNum q] =>
      match as_int q with Some n => VList (zrange_from 0 (Z.to_nat n)) | None => VErr "TypeError" end
  | PIndex, [VList l; VNum q] =>
      match as_int q with
      | Some i => let n := Z.of_nat (List.length l) in
                  if ((0 <=? i) && (i <? n))%Z then nth (Z.to_nat i) l (VErr "IndexError")
                  else if ((- n <=? i) && (i <? 0))%Z then nth (Z.to_nat (n + i)) l (VErr "IndexError")
                  else VErr "IndexError"
      | None => VErr "TypeError"
      end
  | PSliceTo, [VList l; VNum q] =>
      match as_int q with
      | Some i => if (0 <=? i)%Z then VList (firstn (Z.to_nat i) l)
                  else VList (firstn (Z.to_nat (Z.of_nat (List.length l) + i)) l)
      | None => VErr "TypeError"
      end
  | PMod, [VNum x; VNum y] =>
      if Qeq_bool y 0 then VErr "ZeroDivisionError"
      else VNum (x - y * inject_Z (Coq.QArith.Qround.Qfloor (x / y)))%Q
  | PRange2, [VNum a; VNum b] =>
      match as_int a, as_int b with
      | Some x, Some y => VList (zrange_from x (Z.to_nat (y - x)))
      | _, _ => VErr "TypeError"
      end
  | PEnumerate, [VList l] => VList (enum_from 0 l)
  | PSum, [VList l] => sum_vals 0 l
  | PSeqAdd, [VNum a; VNum b] => VNum (a + b)%Q
  | PSeqAdd, [VList a; VList b] => VList (List.app a b)
  | PSeqAdd, [VStr a; VStr b] => VStr (String.append a b)
  | PSeqMul, [VNum a; VNum b] => VNum (a * b)%Q
  | PSeqMul, [VStr s; VNum q] =>
      match as_int q with Some n => VStr (str_repeat (Z.to_nat n) s) | None => VErr "TypeError" end
  | PSeqMul, [VNum q; VStr s] =>
      match as_int q with Some n => VStr (str_repeat (Z.to_nat n) s) | None => VErr "TypeError" end
  | PSeqMul, [VList l; VNum q] =>
      match as_int q with Some n => VList (list_repeat (Z.to_nat n) l) | None => VErr "TypeError" end
  | PSeqMul, [VNum q; VList l] =>
      match as_int q with Some n => VList (list_repeat (Z.to_nat n) l) | None => VErr "TypeError" end
  | PSeqLen, [VList l] => vint (Z.of_nat (List.length l))
  | PSeqLen, [VStr s] => vint (Z.of_nat (String.length s))
  | PSortedByAttr, [VList l; VStr a] =>
      match attr_keys a l with Some ks => VList (map snd (key_sort ks)) | None => VErr "TypeError" end
  | PSliceFrom, [VList l; VNum q] =>
      match as_int q with
      | Some i => if (0 <=? i)%Z then VList (skipn (Z.to_nat i) l)
                  else VList (skipn (Z.to_nat (Z.of_nat (List.length l) + i)) l)
      | None => VErr "TypeError"
      end
  | _, _ => VErr "TypeError"
  end.

Inductive expr :=
| EConst (v : val)
| EVar (x : string)
| EAttr (e : expr) (a : string)
| EBin (o : binop) (a b : expr)
| ECmp (a : expr) (rest : list (cmpop * expr))   (* chained comparison *)
| EAnd (a b : expr) | EOr (a b : expr) | ENot (a : expr)
| ECond (c a b : expr)                            (* a if c else b *)
| EMaxGen (elt : expr) (x : string) (it : expr) (cond : option expr)   (* max(elt for x in it if cond) *)
| EMinGen (elt : expr) (x : string) (it : expr) (cond : option expr)
| ESubscr (e : expr) (k : string)                (* e['k'] *)
| EIndex (e : expr) (n : nat)                    (* e[0] *)
| EIsObj (e : expr)                              (* isinstance(e, boxes.Box) *)
| ETuple (es : list expr)                        (* (a, b) / [a, b] *)
| EIn (neg : bool) (e : expr) (c : expr)         (* e in c / e not in c *)
| ECall (f : string) (args : list expr)
| EXor (a b : expr)                              (* a ^ b on booleans *)
| EListComp (elt : expr) (x : string) (it : expr) (cond : option expr)   (* [elt for x in it if cond] *)
| EPrim (p : prim) (args : list expr).            (* len(a) / range(a) as an iterable / a[i] / a[:n] : see prim_apply *)         (* f(a, b): another translated function (method: ".name", self first) *)

Inductive target := TVar (x : string) | TAttr (x : string) (a : string).

Inductive stmt :=
| SAssign (ts : list target) (e : expr)           (* a = b.c = e *)
| SAug (t : target) (o : binop) (e : expr)
| SIf (c : expr) (th el : list stmt)
| SExtend (x : string) (e : expr)
| SReturn (e : expr)
| SFor (x : string) (it : expr) (body : list stmt)   (* for x in it: body *)
| SAssert (e : expr)
| SUnpack (ts : list target) (e : expr)           (* a, b.c = e *)
| SWhile (c : expr) (body : list stmt)            (* while c: body  (at most wfuel iterations) *)
| SBreak | SContinue                              (* only directly in a while body (through ifs) *)
| SAppend (x : string) (e : expr)                 (* x.append(e) *)
| SPass
| SSetItem (x : string) (i : expr) (e : expr).    (* x[i] = e  (x a variable holding a list / a dict) *)

Definition env := list (string * val).
Fixpoint lookup (k : string) (l : list (string * val)) : val :=
  match l with [] => VErr ("unbound:" ++ k) | (k', v) :: r => if String.eqb k k' then v else lookup k r end.
Fixpoint update (k : string) (v : val) (l : list (string * val)) : list (string * val) :=
  match l with [] => [(k, v)] | (k', v') :: r => if String.eqb k k' then (k, v) :: r else (k', v') :: update k v r end.

(* x[i] = v on values: Python's index normalisation (a negative index counts from the end) *)
Definition norm_index (len : nat) (z : Z) : option nat :=
  let z' := if Z.ltb z 0 then (z + Z.of_nat len)%Z else z in
  if Z.ltb z' 0 then None else if Z.ltb z' (Z.of_nat len) then Some (Z.to_nat z') else None.
Fixpoint list_set {T} (l : list T) (n : nat) (v : T) : list T :=
  match l, n with
  | [], _ => []
  | _ :: r, Datatypes.O => v :: r
  | x :: r, S n' => x :: list_set r n' v
  end.
Definition setitem (c i v : val) : val :=
  match c, i with
  | VList l, VNum q => match as_int q with
                       | Some z => match norm_index (List.length l) z with
                                   | Some n => VList (list_set l n v) | None => VErr "IndexError" end
                       | None => VErr "TypeError" end
  | VObj f, VStr k => VObj (update k v f)
  | VErr m, _ => VErr m | _, VErr m => VErr m
  | _, _ => VErr "TypeError"
  end.

Section Interp.
Variable O : qops.

Definition truthy (v : val) : bool :=
  match v with VBool b => b | VNone => false | VNum q => negb ((qeqb O) q 0)
             | VStr s => negb (String.eqb s "") | VList l => match l with [] => false | _ => true end
             | VObj _ => true | VErr _ => false end.

Definition arith (o : binop) (a b : val) : val :=
  match a, b with
  | VNum x, VNum y =>
      match o with Add => VNum ((qadd O) x y) | Sub => VNum ((qsub O) x y) | Mul => VNum ((qmul O) x y)
                 | Div => if (qeqb O) y 0 then VErr "ZeroDivisionError" else VNum ((qdiv O) x y) end
  | VList x, VList y => match o with Add => VList (x ++ y) | _ => VErr "TypeError" end   (* [a] + [b] *)
  | VErr m, _ => VErr m | _, VErr m => VErr m
  | _, _ => VErr "TypeError"
  end.

Definition veq (a b : val) : bool :=
  match a, b with
  | VNum x, VNum y => (qeqb O) x y
  | VStr x, VStr y => String.eqb x y
  | VBool x, VBool y => Bool.eqb x y
  | VNone, VNone => true
  | _, _ => false      (* Python: 'auto' == 3 is False *)
  end.
(* structural equality on tuples/lists of scalars (used by [in]) *)
Fixpoint veq_deep (a b : val) {struct a} : bool :=
  match a, b with
  | VList la, VList lb =>
      (fix go (la lb : list val) : bool :=
         match la, lb with
         | [], [] => true
         | x :: la', y :: lb' => veq_deep x y && go la' lb'
         | _, _ => false end) la lb
  | _, _ => veq a b
  end.



(* list traversals used by the interpreter, as top-level functions so that lemmas can be stated about them *)
Fixpoint gen_collect {R} (f : val -> (option val -> R) -> R) (l : list val) (acc : list val) (k : list val -> R) : R :=
  match l with
  | [] => k (rev acc)
  | v :: l' => f v (fun o => match o with Some ve => gen_collect f l' (ve :: acc) k | None => gen_collect f l' acc k end)
  end.
Fixpoint gen_iter {R E} (f : val -> E -> (E -> R) -> R) (l : list val) (rho : E) (k : E -> R) : R :=
  match l with
  | [] => k rho
  | v :: l' => f v rho (fun rho' => gen_iter f l' rho' k)
  end.

(* ---- CPS semantics: every branch on a number comparison is an [if] at the head ---- *)
Section CPS.
Variable R : Type.
Variable err : string -> R.      (* what to answer when an expression raises *)

Definition bool_k (v : val) (k : bool -> R) : R :=      (* truthiness *)
  match v with
  | VBool b => k b | VNone => k false
  | VNum q => if (qeqb O) q 0 then k false else k true
  | VStr s => k (negb (String.eqb s "")) | VList l => k (match l with [] => false | _ => true end)
  | VObj _ => k true | VErr m => err m end.

Definition arith_k (o : binop) (a b : val) (k : val -> R) : R :=
  match a, b with
  | VNum x, VNum y =>
      match o with Add => k (VNum ((qadd O) x y)) | Sub => k (VNum ((qsub O) x y)) | Mul => k (VNum ((qmul O) x y))
                 | Div => if (qeqb O) y 0 then err "ZeroDivisionError" else k (VNum ((qdiv O) x y)) end
  | VList x, VList y => match o with Add => k (VList (x ++ y)) | _ => err "TypeError" end
  | VErr m, _ => err m | _, VErr m => err m
  | _, _ => err "TypeError"
  end.

Definition veq_k (a b : val) (k : bool -> R) : R :=
  match a, b with
  | VNum x, VNum y => if (qeqb O) x y then k true else k false
  | VStr x, VStr y => k (String.eqb x y)
  | VBool x, VBool y => k (Bool.eqb x y)
  | VNone, VNone => k true
  | VList _, VList _ => k (veq_deep a b)
  | VErr m, _ => err m | _, VErr m => err m
  | _, _ => k false
  end.

Definition cmp_k (o : cmpop) (a b : val) (k : bool -> R) : R :=
  match o with
  | Eq => veq_k a b k
  | NotEq => veq_k a b (fun r => k (negb r))
  | _ => match a, b with
         | VNum x, VNum y =>
             match o with
             | Lt => if (qleb O) y x then k false else k true
             | LtE => if (qleb O) x y then k true else k false
             | Gt => if (qleb O) x y then k false else k true
             | _ => if (qleb O) y x then k true else k false end
         | VErr m, _ => err m | _, VErr m => err m
         | _, _ => err "TypeError"
         end
  end.

Definition minmax_k (ismax : bool) (vs : list val) (k : val -> R) : R :=
  match vs with
  | [] => err "ValueError"
  | v0 :: vs' =>
      (fix go (acc : val) (l : list val) : R :=
         match l with
         | [] => k acc
         | v :: l' => match acc, v with
                      | VNum x, VNum y => go (VNum (if ismax then (qmax O) x y else (qmin O) x y)) l'
                      | _, _ => err "TypeError" end
         end) v0 vs'
  end.

Fixpoint eval (rho : env) (e : expr) (k : val -> R) {struct e} : R :=
  match e with
  | EConst v => k v
  | EVar x => k (lookup x rho)
  | EAttr e a => eval rho e (fun v => match v with VObj f => k (lookup a f) | VErr m => err m | _ => err "AttributeError" end)
  | ESubscr e a => eval rho e (fun v => match v with VObj f => k (lookup a f) | VErr m => err m | _ => err "TypeError" end)
  | EIndex e n => eval rho e (fun v => match v with VList l => k (nth n l (VErr "IndexError")) | VErr m => err m | _ => err "TypeError" end)
  | EIsObj e => eval rho e (fun v => match v with VObj _ => k (VBool true) | VErr m => err m | _ => k (VBool false) end)
  | EBin o a b => eval rho a (fun va => eval rho b (fun vb => arith_k o va vb k))
  | ECmp a rest =>
      eval rho a (fun va =>
        (fix chain (left : val) (rest : list (cmpop * expr)) : R :=
           match rest with
           | [] => k (VBool true)
           | (o, e) :: rest' =>
               eval rho e (fun r => cmp_k o left r (fun b => if b then chain r rest' else k (VBool false)))
           end) va rest)
  | EAnd a b => eval rho a (fun va => bool_k va (fun t => if t then eval rho b k else k va))
  | EOr a b => eval rho a (fun va => bool_k va (fun t => if t then k va else eval rho b k))
  | ENot a => eval rho a (fun va => bool_k va (fun t => k (VBool (negb t))))
  | ECond c a b => eval rho c (fun vc => bool_k vc (fun t => if t then eval rho a k else eval rho b k))
  | ETuple es =>
      (fix go (es : list expr) (acc : list val) : R :=
         match es with
         | [] => k (VList (rev acc))
         | e1 :: es' => eval rho e1 (fun v => go es' (v :: acc))
         end) es []
  | EIn neg e c =>
      eval rho e (fun v => eval rho c (fun vc =>
        match vc with
        | VList l =>
            (fix mem (l : list val) : R :=
               match l with
               | [] => k (VBool neg)
               | x :: l' => veq_k x v (fun b => if b then k (VBool (negb neg)) else mem l')
               end) l
        | VErr m => err m | _ => err "TypeError" end))
  | EXor a b => eval rho a (fun va => eval rho b (fun vb =>
      match va, vb with
      | VBool x, VBool y => k (VBool (xorb x y))
      | VErr m, _ => err m | _, VErr m => err m
      | _, _ => err "TypeError" end))
  | ECall f args =>
      (fix go (es : list expr) (acc : list val) : R :=
         match es with
         | [] => match ocall O f (rev acc) with VErr m => err m | v => k v end
         | e1 :: es' => eval rho e1 (fun v => match v with VErr m => err m | _ => go es' (v :: acc) end)
         end) args []
  | EPrim p args =>
      (fix go (es : list expr) (acc : list val) : R :=
         match es with
         | [] => match prim_apply p (rev acc) with VErr m => err m | v => k v end
         | e1 :: es' => eval rho e1 (fun v => match v with VErr m => err m | _ => go es' (v :: acc) end)
         end) args []
  | EListComp elt x it cond =>
      eval rho it (fun vit =>
        match vit with
        | VList l =>
            gen_collect (fun v kk =>
               let rho' := update x v rho in
               match cond with
               | Some c => eval rho' c (fun vc => bool_k vc (fun t =>
                             if t then eval rho' elt (fun ve => kk (Some ve)) else kk None))
               | None => eval rho' elt (fun ve => kk (Some ve))
               end) l [] (fun vs => k (VList vs))
        | VErr m => err m | _ => err "TypeError" end)
  | EMaxGen elt x it cond | EMinGen elt x it cond =>
      let ismax := match e with EMaxGen _ _ _ _ => true | _ => false end in
      eval rho it (fun vit =>
        match vit with
        | VList l =>
            gen_collect (fun v kk =>
               let rho' := update x v rho in
               match cond with
               | Some c => eval rho' c (fun vc => bool_k vc (fun t =>
                             if t then eval rho' elt (fun ve => kk (Some ve)) else kk None))
               | None => eval rho' elt (fun ve => kk (Some ve))
               end) l [] (fun vs => minmax_k ismax vs k)
        | VErr m => err m | _ => err "TypeError" end)
  end.
End CPS.

Definition assign1 (rho : env) (t : target) (v : val) : env :=
  match t with
  | TVar x => update x v rho
  | TAttr x a => match lookup x rho with
                 | VObj f => update x (VObj (update a v f)) rho
                 | _ => update x (VErr "AttributeError") rho end
  end.
Definition tget (rho : env) (t : target) : val :=
  match t with TVar x => lookup x rho | TAttr x a => match lookup x rho with VObj f => lookup a f | _ => VErr "AttributeError" end end.


(* `break` / `continue` set the variable "%flow" (not a Python name); every block stops at a statement that leaves
   it set, and the enclosing `while` consumes it *)
Definition flowing (rho : env) : bool := match lookup "%flow" rho with VStr _ => true | _ => false end.

Section EXEC.
Variable A : Type.
Variable kret : env -> val -> A.
Variable kerr : string -> A.
Fixpoint exec (s : stmt) (rho : env) (k : env -> A) {struct s} : A :=
  match s with
  | SPass => k rho
  | SAssign ts e => eval A kerr rho e (fun v => k (fold_left (fun r t => assign1 r t v) ts rho))
  | SAug t o e => eval A kerr rho e (fun v => arith_k A kerr o (tget rho t) v (fun r => k (assign1 rho t r)))
  | SExtend x e => eval A kerr rho e (fun v =>
                   match lookup x rho, v with
                   | VList a, VList b => k (update x (VList (a ++ b)) rho)
                   | _, _ => kerr "TypeError" end)
  | SReturn e => eval A kerr rho e (fun v => kret rho v)
  | SIf c th el =>
      let block := fix block (l : list stmt) (rho : env) (k : env -> A) : A :=
                     match l with
                     | [] => k rho
                     | s :: l' => exec s rho (fun rho' => if flowing rho' then k rho' else block l' rho' k)
                     end in
      eval A kerr rho c (fun vc => bool_k A kerr vc (fun t =>
        if t then block th rho k else block el rho k))
  | SFor x it body =>
      let block := fix block (l : list stmt) (rho : env) (k : env -> A) : A :=
                     match l with
                     | [] => k rho
                     | s :: l' => exec s rho (fun rho' => if flowing rho' then k rho' else block l' rho' k)
                     end in
      eval A kerr rho it (fun vit =>
        match vit with
        | VList l => gen_iter (fun v rho k' => block body (update x v rho) k') l rho k
        | VErr m => kerr m | _ => kerr "TypeError" end)
  | SAssert e => eval A kerr rho e (fun v => bool_k A kerr v (fun t => if t then k rho else kerr "AssertionError"))
  | SUnpack ts e =>
      eval A kerr rho e (fun v =>
        match v with
        | VList vs => if Nat.eqb (List.length ts) (List.length vs)
                      then k (fold_left (fun r tv => assign1 r (fst tv) (snd tv)) (combine ts vs) rho)
                      else kerr "ValueError"
        | VErr m => kerr m | _ => kerr "TypeError" end)
  | SBreak => k (update "%flow" (VStr "break") rho)
  | SContinue => k (update "%flow" (VStr "continue") rho)
  | SAppend x e => eval A kerr rho e (fun v =>
                   match lookup x rho with
                   | VList a => k (update x (VList (a ++ [v])) rho)
                   | VErr m => kerr m | _ => kerr "AttributeError" end)
  | SWhile c body =>
      let block := fix block (l : list stmt) (rho : env) (k : env -> A) : A :=
                     match l with
                     | [] => k rho
                     | s :: l' => exec s rho (fun rho' => if flowing rho' then k rho' else block l' rho' k)
                     end in
      (fix loop (n : nat) (rho : env) : A :=
         match n with
         | Datatypes.O => kerr "FuelExhausted"
         | S n' =>
             eval A kerr rho c (fun vc => bool_k A kerr vc (fun t =>
               if t then
                 block body rho (fun rho' =>
                   match lookup "%flow" rho' with
                   | VStr f => if String.eqb f "break" then k (update "%flow" VNone rho')
                               else loop n' (update "%flow" VNone rho')
                   | _ => loop n' rho'
                   end)
               else k rho))
         end) (wfuel O) rho
  | SSetItem x i e =>       (* Python's order: the value, then the container, then the index *)
      eval A kerr rho e (fun v => eval A kerr rho i (fun vi =>
        match v with
        | VErr m => kerr m
        | _ => match setitem (lookup x rho) vi v with
               | VErr m => kerr m
               | c' => k (update x c' rho) end
        end))
  end.
Fixpoint exec_block (l : list stmt) (rho : env) (k : env -> A) : A :=
  match l with
  | [] => k rho
  | s :: l' => exec s rho (fun rho' => if flowing rho' then k rho' else exec_block l' rho' k)
  end.
End EXEC.
(* run a body and observe the final environment with [obs]; raising or returning early are observed too *)
Definition run {A} (body : list stmt) (rho : env) (obs : env -> option val -> A) (kerr : string -> A) : A :=
  exec_block A (fun rho v => obs rho (Some v)) kerr body rho (fun rho => obs rho None).
End Interp.
