(* C19 - Rendering is a pure function of its inputs: property theorems only
   (models: model/C19Cache.v C19Names.v C19Pdf.v C19Relayout.v C19Args.v C19Dates.v; proofs: proofs/C19_*.v).
   In Gallina every function is pure: the theorems are about the models that carry the STATE the code carries (the
   caller's image cache and the image objects in it, the resource dictionaries and the iteration order of a
   set, the style dictionary flex layout writes into) and about the output options (zoom, copy).  Hash-seed
   independence, module-level state and dict/set iteration order of the real interpreter are covered by the
   differential monitor of harness/p_c19.py only. *)
From Coq Require Import ZArith QArith List Bool Permutation.
Require Import WV.model.C19Args WV.model.C19Cache WV.model.C19Names WV.model.C19Pdf WV.model.C19Relayout WV.model.C19Dates.
Require Import WV.proofs.C19_args WV.proofs.C19_cache WV.proofs.C19_names WV.proofs.C19_pdf WV.proofs.C19_relayout WV.proofs.C19_dates.
Import ListNotations.

(* ---- 1. the image cache (get_image_from_uri + options['cache']), all operation histories ----
   The dictionary key is (URL, key part) with key part = (image-orientation, dpi, optimize_images, jpeg_quality); the
   forced mime type is the one argument of a load that is not in the key.
   run s h: the observations of the history h (Get url key mime | Emit url key dpi_ratio) on the dictionary state s;
   spec_run [] h: what every operation gives with no cache at all (cold u k m = decode (fetch u) k m; for Emit, that
   value embedded with the ratio).  Whether the dictionary is empty, warm, or was filled by other renders - with any
   orientations, image options and dpi ratios: same values. *)
Theorem C19_cache_is_transparent
  (Url Key Mime Bytes Data Ratio : Type) (url_eqb : Url -> Url -> bool)
  (url_eqb_eq : forall a b, url_eqb a b = true <-> a = b) (key_eqb : Key -> Key -> bool)
  (key_eqb_eq : forall a b, key_eqb a b = true <-> a = b) (is_one : Ratio -> bool)
  (fetch : Url -> option Bytes) (decode : Url -> Bytes -> Key -> Mime -> option Data) (resample : Data -> Ratio -> Data)
  (h : list (op Url Key Mime Ratio)) :
  one_mime_per_key Url Key Mime Ratio h ->
  map (value_of Data) (snd (C19Cache.run Url Key Mime Bytes Data Ratio url_eqb key_eqb is_one fetch decode resample empty h)) =
  spec_run Url Key Mime Bytes Data Ratio url_eqb key_eqb is_one fetch decode resample [] h.
Proof. exact (cache_is_transparent Url Key Mime Bytes Data Ratio url_eqb url_eqb_eq key_eqb key_eqb_eq is_one fetch decode resample h). Qed.
Print Assumptions C19_cache_is_transparent.

(* without any proviso when the decoders do not tell forced mime types apart (measured on the implementation at every
   run: obligation premise:decode-ignores-forced-mime) *)
Theorem C19_cache_is_transparent_when_mime_is_ignored
  (Url Key Mime Bytes Data Ratio : Type) (url_eqb : Url -> Url -> bool)
  (url_eqb_eq : forall a b, url_eqb a b = true <-> a = b) (key_eqb : Key -> Key -> bool)
  (key_eqb_eq : forall a b, key_eqb a b = true <-> a = b) (is_one : Ratio -> bool)
  (fetch : Url -> option Bytes) (decode : Url -> Bytes -> Key -> Mime -> option Data) (resample : Data -> Ratio -> Data)
  (h : list (op Url Key Mime Ratio)) :
  (forall u b k m m', decode u b k m = decode u b k m') ->
  map (value_of Data) (snd (C19Cache.run Url Key Mime Bytes Data Ratio url_eqb key_eqb is_one fetch decode resample empty h)) =
  spec_run Url Key Mime Bytes Data Ratio url_eqb key_eqb is_one fetch decode resample [] h.
Proof. exact (cache_is_transparent_when_mime_is_ignored Url Key Mime Bytes Data Ratio url_eqb url_eqb_eq key_eqb key_eqb_eq is_one fetch decode resample h). Qed.
Print Assumptions C19_cache_is_transparent_when_mime_is_ignored.

(* 1b. warm = cold: after any earlier history `pre` on the same dictionary (other renders sharing the cache) a
   history that loads what it embeds observes exactly what it observes on an empty dictionary *)
Theorem C19_warm_cache_equals_cold_cache
  (Url Key Mime Bytes Data Ratio : Type) (url_eqb : Url -> Url -> bool)
  (url_eqb_eq : forall a b, url_eqb a b = true <-> a = b) (key_eqb : Key -> Key -> bool)
  (key_eqb_eq : forall a b, key_eqb a b = true <-> a = b) (is_one : Ratio -> bool)
  (fetch : Url -> option Bytes) (decode : Url -> Bytes -> Key -> Mime -> option Data) (resample : Data -> Ratio -> Data)
  (pre h : list (op Url Key Mime Ratio)) :
  one_mime_per_key Url Key Mime Ratio (pre ++ h) -> self_contained Url Key Mime Ratio h ->
  let run := C19Cache.run Url Key Mime Bytes Data Ratio url_eqb key_eqb is_one fetch decode resample in
  map (value_of Data) (snd (run (fst (run empty pre)) h)) = map (value_of Data) (snd (run empty h)).
Proof. exact (warm_cache_equals_cold_cache Url Key Mime Bytes Data Ratio url_eqb url_eqb_eq key_eqb key_eqb_eq is_one fetch decode resample pre h). Qed.
Print Assumptions C19_warm_cache_equals_cold_cache.

(* 1c. embedding an image at write time, with any dpi ratio, leaves the dictionary and the cached objects as they are *)
Theorem C19_embedding_leaves_the_cache_unchanged
  (Url Key Mime Bytes Data Ratio : Type) (url_eqb : Url -> Url -> bool) (key_eqb : Key -> Key -> bool) (is_one : Ratio -> bool)
  (fetch : Url -> option Bytes) (decode : Url -> Bytes -> Key -> Mime -> option Data) (resample : Data -> Ratio -> Data)
  (s : state Url Key Data) (u : Url) (k : Key) (r : Ratio) :
  fst (C19Cache.step Url Key Mime Bytes Data Ratio url_eqb key_eqb is_one fetch decode resample s (Emit u k r)) = s.
Proof. exact (embedding_leaves_the_cache_unchanged Url Key Mime Bytes Data Ratio url_eqb key_eqb is_one fetch decode resample s u k r). Qed.
Print Assumptions C19_embedding_leaves_the_cache_unchanged.

(* 1d. the failure case: a failed fetch or decode stores None under the key; later requests of the key get None
   without a second fetch *)
Theorem C19_failed_load_is_cached
  (Url Key Mime Bytes Data Ratio : Type) (url_eqb : Url -> Url -> bool)
  (url_eqb_eq : forall a b, url_eqb a b = true <-> a = b) (key_eqb : Key -> Key -> bool)
  (key_eqb_eq : forall a b, key_eqb a b = true <-> a = b) (is_one : Ratio -> bool)
  (fetch : Url -> option Bytes) (decode : Url -> Bytes -> Key -> Mime -> option Data) (resample : Data -> Ratio -> Data)
  (s : state Url Key Data) (u : Url) (k : Key) (m : Mime) :
  let step := C19Cache.step Url Key Mime Bytes Data Ratio url_eqb key_eqb is_one fetch decode resample in
  lookup Url Key url_eqb key_eqb (u, k) (cache s) = None -> cold Url Key Mime Bytes Data fetch decode u k m = None ->
  let '(s', x) := step s (Get u k m) in
  x = OGet None /\ lookup Url Key url_eqb key_eqb (u, k) (cache s') = Some None /\ forall m', step s' (Get u k m') = (s', OGet None).
Proof. exact (failed_load_is_cached Url Key Mime Bytes Data Ratio url_eqb url_eqb_eq key_eqb key_eqb_eq is_one fetch decode resample s u k m). Qed.
Print Assumptions C19_failed_load_is_cached.

Theorem C19_each_key_fetched_at_most_once
  (Url Key Mime Bytes Data Ratio : Type) (url_eqb : Url -> Url -> bool)
  (url_eqb_eq : forall a b, url_eqb a b = true <-> a = b) (key_eqb : Key -> Key -> bool)
  (key_eqb_eq : forall a b, key_eqb a b = true <-> a = b) (is_one : Ratio -> bool)
  (fetch : Url -> option Bytes) (decode : Url -> Bytes -> Key -> Mime -> option Data) (resample : Data -> Ratio -> Data)
  (h : list (op Url Key Mime Ratio)) :
  NoDup (fetched (fst (C19Cache.run Url Key Mime Bytes Data Ratio url_eqb key_eqb is_one fetch decode resample empty h))).
Proof. exact (each_key_fetched_at_most_once Url Key Mime Bytes Data Ratio url_eqb url_eqb_eq key_eqb key_eqb_eq is_one fetch decode resample h). Qed.
Print Assumptions C19_each_key_fetched_at_most_once.

(* 1e. the former refutations (the key was the URL alone; get_x_object wrote the thumbnail into the cached object),
   now positive on the instance the correspondence stream uses: two key parts of one URL are two loads ... *)
Theorem C19_cache_separates_key_parts :
  map (value_of term) (snd (run_t [] [(7, 0, 0); (7, 1, 0)]%Z empty two_variants)) =
    [Some (7, 0, 0, []); Some (7, 1, 0, []); Some (7, 0, 0, [])]%Z /\
  length (fetched (fst (run_t [] [(7, 0, 0); (7, 1, 0)]%Z empty two_variants))) = 2%nat.
Proof. exact cache_separates_key_parts. Qed.
Print Assumptions C19_cache_separates_key_parts.

(* ... and a render that embeds with ratio 5 leaves the full image to the render that shares the dictionary *)
Theorem C19_resampling_is_not_remembered :
  map (value_of term) (snd (run_t [] [(7, 0, 0)]%Z empty resampled_then_reused)) =
    [Some (7, 0, 0, []); Some (7, 0, 0, [5]); Some (7, 0, 0, []); Some (7, 0, 0, []); Some (7, 0, 0, [5])]%Z.
Proof. exact resampling_is_not_remembered. Qed.
Print Assumptions C19_resampling_is_not_remembered.

(* what stays outside the key: a decoder that told forced mime types apart would leak (model-level witness only: the
   implementation's decoders do not, see 1a') *)
Theorem C19_cache_key_ignores_forced_mime_type :
  map (value_of term) (snd (run_t [] [(7, 0, 0); (7, 0, 1)]%Z empty [Get 7 0 0; Get 7 0 1]%Z)) = [Some (7, 0, 0, []); Some (7, 0, 0, [])]%Z /\
  spec_run Z Z Z unit term Z Z.eqb Z.eqb (fun r => (r =? 1)%Z) (t_fetch []) (t_decode [(7, 0, 0); (7, 0, 1)]%Z) t_resample [] [Get 7 0 0; Get 7 0 1]%Z =
    [Some (7, 0, 0, []); Some (7, 0, 1, [])]%Z.
Proof. exact cache_key_ignores_forced_mime_type. Qed.
Print Assumptions C19_cache_key_ignores_forced_mime_type.

(* ---- 2. resource names (Stream.set_state / add_group / add_pattern / add_shading / add_image, the images table) ----
   outcome order cs = (names handed out, keys of every resource dictionary, images with max(dpi_ratios)) for the call
   sequence cs, when sets iterate in the order `order`: any two executions agree *)
Theorem C19_names_deterministic (order1 order2 : list Z -> list Z) (cs : list call) :
  (forall l, Permutation (order1 l) l) -> (forall l, Permutation (order2 l) l) ->
  outcome order1 cs = outcome order2 cs.
Proof. exact (names_deterministic order1 order2 cs). Qed.
Print Assumptions C19_names_deterministic.

(* names depend on the calls made so far only: later calls never rename *)
Theorem C19_names_depend_on_earlier_calls_only (cs more : list call) d ns :
  C19Names.run doc0 (cs ++ more) = Some (d, ns) ->
  exists d1, C19Names.run doc0 cs = Some (d1, firstn (length cs) ns).
Proof. exact (names_depend_on_earlier_calls_only cs more d ns). Qed.
Print Assumptions C19_names_depend_on_earlier_calls_only.

(* a permutation-insensitive container: sorted() fixes the order (the /Dests name tree of generate_pdf) *)
Theorem C19_sorted_is_canonical (l l' : list (Z * Z)) :
  Permutation l l' -> NoDup (map fst l) -> isort l = isort l'.
Proof. exact (sorted_is_canonical l l'). Qed.
Print Assumptions C19_sorted_is_canonical.

(* fonts are named by the md5-derived digest of their description in first-use order, never by hash() *)
Theorem C19_font_names_ignore_hash_salt (Desc : Type) (desc_eqb : Desc -> Desc -> bool) (digest : Desc -> Z)
        (salt1 salt2 : Z) (uses : list Desc) :
  font_names Desc desc_eqb digest salt1 uses = font_names Desc desc_eqb digest salt2 uses.
Proof. exact (font_names_ignore_hash_salt Desc desc_eqb digest salt1 salt2 uses). Qed.
Print Assumptions C19_font_names_ignore_hash_salt.

(* ---- 3. zoom: scale = zoom * 0.75 ----
   linear f z: f z = z * f 1, coordinate by coordinate.  MediaBox, TrimBox, the page CTM, every rectangle of a link /
   form field / attachment annotation and every destination point *)
Theorem C19_pdf_coordinates_scale_linearly (z : Q) (p : page) :
  linear (fun z => media_box z p) z /\
  linear (fun z => trim_box z p) z /\
  linear (fun z => ctm z p) z /\
  (forall r, linear (fun z => rect z p r) z) /\
  (forall xy, fst (point z p xy) == z * fst (point 1 p xy) /\ snd (point z p xy) == z * snd (point 1 p xy)).
Proof. exact (pdf_coordinates_scale_linearly z p). Qed.
Print Assumptions C19_pdf_coordinates_scale_linearly.

(* the BleedBox ("at most 10 points from the TrimBox") is linear exactly while the cap is not reached *)
Theorem C19_bleed_box_linear_within_cap (z : Q) (p : page) :
  within_cap z p -> linear (fun z => bleed_box z p) z.
Proof. exact (bleed_box_linear_within_cap z p). Qed.
Print Assumptions C19_bleed_box_linear_within_cap.

Theorem C19_pdf_coordinates_scale_linearly_refuted_bleed_box : ~ linear (fun z => bleed_box z capped_page) 2.
Proof. exact bleed_box_not_linear_beyond_cap. Qed.
Print Assumptions C19_pdf_coordinates_scale_linearly_refuted_bleed_box.

(* the font size of form field appearances (text fields, check boxes; radio buttons) follows the zoom *)
Theorem C19_form_font_size_linear (z fs : Q) :
  form_font_size z fs == z * form_font_size 1 fs /\ radio_font_size z fs == z * radio_font_size 1 fs.
Proof. exact (form_font_size_linear z fs). Qed.
Print Assumptions C19_form_font_size_linear.

(* ---- 4. Document.copy(pages) ---- *)
Theorem C19_copy_selects_exactly (Page Meta Out : Type) (paint : Page -> Out) (d : document Page Meta) (sel : list Page) :
  d_pages Page Meta (copy Page Meta d (Pages Page sel)) = sel /\
  written Page Meta Out paint (copy Page Meta d (Pages Page sel)) = map paint sel /\
  d_pages Page Meta (copy Page Meta d (All Page)) = d_pages Page Meta d /\
  d_meta Page Meta (copy Page Meta d (Pages Page sel)) = d_meta Page Meta d /\
  d_fonts Page Meta (copy Page Meta d (Pages Page sel)) = [].
Proof. exact (copy_selects_exactly Page Meta Out paint d sel). Qed.
Print Assumptions C19_copy_selects_exactly.

(* ---- 5. flex layout and child.style ----
   layout c: per line (cross size, start, used item heights); after c: the container as the next layout of the same
   boxes finds it.  The stretched sizes are written to copies: every container laid out again gives the same result *)
Theorem C19_relayout_idempotent (c : container) :
  after c = c /\ same_layout (layout (after c)) (layout c) /\ c_lines (after_shared_style c) = laid_out_items c.
Proof. exact (relayout_idempotent c). Qed.
Print Assumptions C19_relayout_idempotent.

(* the variant that wrote into the style shared by all copies of the box was idempotent for auto-height and for
   single-line containers only ... *)
Theorem C19_shared_style_idempotent_cases (c : container) :
  c_cross c = None \/ (length (c_lines c) <= 1)%nat -> same_layout (layout (after_shared_style c)) (layout c).
Proof. exact (shared_style_idempotent_cases c). Qed.
Print Assumptions C19_shared_style_idempotent_cases.

(* ... and not for a multi-line container with a definite height (align-content: stretch): height 100, item a auto
   (10 px of content, stretched) on line 1, item b 20 px on line 2: lines 45/55, and 62.5/37.5 from the written styles.
   The harness replays this container: one pass and two passes must agree on the implementation *)
Theorem C19_relayout_shared_style_variant_refuted :
  normal (layout witness) = [(45, 0, [45]); (55, 45, [20])] /\
  normal (layout (after witness)) = [(45, 0, [45]); (55, 45, [20])] /\
  normal (layout (after_shared_style witness)) = [(125 # 2, 0, [45]); (75 # 2, 125 # 2, [20])] /\
  ~ same_layout (layout (after_shared_style witness)) (layout witness).
Proof. exact shared_style_variant_refuted. Qed.
Print Assumptions C19_relayout_shared_style_variant_refuted.

(* ---- 6. the caller's argument containers (options['stylesheets'] in Document._build_layout_context) ----
   render_call env sheets = (the caller's list after the render_call, what the render sees of each sheet: its source and whether its
   @font-face/@counter-style rules are registered for this render); env = the FontConfiguration/CounterStyle of the
   render_call (a fresh one per render by default).  The effect of a render_call on the caller's list is the identity ... *)
Open Scope Z_scope.
Theorem C19_arguments_are_read_only (env : Z) (sheets : list sheet) : fst (render_call env sheets) = sheets.
Proof. exact (arguments_are_read_only env sheets). Qed.
Print Assumptions C19_arguments_are_read_only.

(* ... hence the k-th render_call with the same list object gives what the first gave (all render_calls with fresh environments, or
   all with the shared one: `alike`), and the list is still the one the caller built *)
Theorem C19_output_is_history_independent (sheets : list sheet) (e1 : Z) (envs : list Z) :
  Forall (alike sheets e1) envs ->
  Forall (fun o => o = snd (render_call e1 sheets)) (snd (render_calls render_call (e1 :: envs) sheets)) /\
  fst (render_calls render_call (e1 :: envs) sheets) = sheets.
Proof. exact (output_is_history_independent sheets e1 envs). Qed.
Print Assumptions C19_output_is_history_independent.

(* filling the caller's list in place breaks both: [file name], two renders with their own font configuration *)
Theorem C19_arguments_are_read_only_in_place_variant_refuted :
  fst (render_call_in_place 1 [Raw 7]) = [Parsed 7 1] /\
  snd (render_calls render_call_in_place [1; 2] [Raw 7]) = [[(7, true)]; [(7, false)]] /\
  snd (render_calls render_call [1; 2] [Raw 7]) = [[(7, true)]; [(7, true)]].
Proof. exact in_place_variant_refuted. Qed.
Print Assumptions C19_arguments_are_read_only_in_place_variant_refuted.

(* ---- 7. the environment is an input, the clock is not: the dates written into the PDF ----
   write epoch clock d: Info /CreationDate /ModDate, the /Params dates of every /EmbeddedFile, head.modified of every
   font program, for the dated document d (its <meta> dates, its attachments as constructed - source kind, created / modified
   arguments, times of the named file -, its fonts), SOURCE_DATE_EPOCH = epoch and the system clock `clock` (the k-th
   read gives clock k).  With the variable set - to ANY value, 0 included - two executions under any two clocks write the
   same dates ... *)
Theorem C19_dates_ignore_the_clock (e : Z) (clock1 clock2 : nat -> Z) (d : dated) :
  write (Some e) clock1 d = write (Some e) clock2 d.
Proof. exact (dates_ignore_the_clock e clock1 clock2 d). Qed.
Print Assumptions C19_dates_ignore_the_clock.

(* ... and every date is the one the document gives or, when it gives none, the epoch (date_ok: created / modified given
   -> that value; else a Filename attachment -> the file's times, an input; else e).  Decided by the harness on every
   single render of the epoch stream (date_judge), without a second render and without the real clock *)
Theorem C19_default_dates_are_the_epoch (e : Z) (clock : nat -> Z) (d : dated) :
  w_info (write (Some e) clock d) = (d_created d, d_modified d) /\
  Forall2 (fun a w => date_ok e a w = true) (d_attachments d) (w_files (write (Some e) clock d)) /\
  Forall (fun w => font_ok e (map f_file_modified (d_font_programs d)) w = true) (w_fonts (write (Some e) clock d)).
Proof. exact (default_dates_are_the_epoch e clock d). Qed.
Print Assumptions C19_default_dates_are_the_epoch.

(* the judge evaluated on the implementation's PDFs: mask 0 means every date found in the PDF obeys the above *)
Theorem C19_date_judge_sound e t meta infos files font_files fonts others :
  date_judge (Some e, t, meta, infos, files, font_files, fonts, others) = 0%nat ->
  Forall (fun aw => date_ok e (fst aw) (snd aw) = true) files /\
  Forall (fun w => font_ok e font_files w = true) fonts /\
  Forall (fun w => w = e) others /\
  Forall (fun i => oz_eqb (fst i) (fst meta) = true /\ oz_eqb (snd i) (snd meta) = true) infos.
Proof. exact (date_judge_sound e t meta infos files font_files fonts others). Qed.
Print Assumptions C19_date_judge_sound.

(* a test of the VALUE of the variable for truth is the code for every non-zero value ... *)
Theorem C19_dates_truthy_variant_agrees_off_zero (e : Z) (clock : nat -> Z) (l : list attachment) :
  e <> 0 -> forall k, attachments_dates_truthy (Some e) clock k l = attachments_dates (Some e) clock k l.
Proof. exact (truthy_variant_agrees_off_zero e clock l). Qed.
Print Assumptions C19_dates_truthy_variant_agrees_off_zero.

(* ... and writes the clock at SOURCE_DATE_EPOCH=0 (<link rel=attachment>, clocks 1000 and 1001): hence the epoch is a
   dimension of the stream, with 0 among its values *)
Theorem C19_dates_truthy_variant_refuted :
  attachments_dates_truthy (Some 0) (fun _ => 1000) 0 [linked] = [(1000, 1000)] /\
  attachments_dates_truthy (Some 0) (fun _ => 1001) 0 [linked] = [(1001, 1001)] /\
  attachments_dates (Some 0) (fun _ => 1000) 0 [linked] = [(0, 0)] /\
  attachments_dates (Some 0) (fun _ => 1001) 0 [linked] = [(0, 0)] /\
  date_ok 0 linked (1000, 1000) = false.
Proof. exact truthy_variant_refuted. Qed.
Print Assumptions C19_dates_truthy_variant_refuted.
