(* C04 - Break controls are honoured: property theorems only. *)
From Coq Require Import QArith List String Bool Arith.
Require Import WV.base.Py WV.gen.GenBlock WV.model.Frag2 WV.proofs.C04_fold WV.proofs.C04_breaks.
Import ListNotations.

(* The value fold of block_level_page_break in /repo (regenerated on every run) computes fold_breaks for every
   list of break values ... *)
Theorem C04_break_fold_of_source (l : list brk) :
  run real_ops break_fold_body [("values"%string, VList (map bval l))]
      (returns_val (bval (fold_breaks l))) (fun _ => False).
Proof. exact (break_fold_is_fold_breaks l). Qed.
Print Assumptions C04_break_fold_of_source.

(* ... and force_page_break / avoid_page_break of /repo are these predicates, inside and outside columns *)
Theorem C04_force_page_break_of_source (v : brk) (in_col : bool) :
  run real_ops force_page_break_body [("page_break"%string, bval v); ("context"%string, ctx_val in_col)]
      (returns_val (VBool (if in_col then force_in_col v else force v))) (fun _ => False).
Proof. exact (force_page_break_spec v in_col). Qed.
Print Assumptions C04_force_page_break_of_source.
Theorem C04_avoid_page_break_of_source (v : brk) (in_col : bool) :
  run real_ops avoid_page_break_body [("page_break"%string, bval v); ("context"%string, ctx_val in_col)]
      (returns_val (VBool (if in_col then avoid_in_col v else avoid v))) (fun _ => False).
Proof. exact (avoid_page_break_spec v in_col). Qed.
Print Assumptions C04_avoid_page_break_of_source.

(* the strongest value among all boxes meeting at a break point wins:
   auto < avoid* < column < page < left/right/recto/verso *)
Theorem C04_strongest_value_wins (l : list brk) : rank (fold_breaks l) = list_max (map rank l).
Proof. exact (fold_breaks_rank_is_max l). Qed.
Print Assumptions C04_strongest_value_wins.

Theorem C04_forced_break_always_forces (l : list brk) v :
  In v l -> force v = true -> force (fold_breaks l) = true.
Proof. exact (forced_break_always_forces l v). Qed.
Print Assumptions C04_forced_break_always_forces.

Theorem C04_last_side_wins (l : list brk) :
  (exists v, In v l /\ rank v = 4) ->
  exists l1 v l2, l = l1 ++ v :: l2 /\ rank v = 4 /\ (forall x, In x l2 -> rank x < 4) /\ fold_breaks l = v.
Proof. exact (last_side_wins l). Qed.
Print Assumptions C04_last_side_wins.

Theorem C04_avoid_honoured_for_both_kinds (l : list brk) v :
  (forall x, In x l -> rank x <= 1) -> In v l -> avoid v = true -> avoid (fold_breaks l) = true.
Proof. exact (avoid_honoured_for_both_kinds l v). Qed.
Print Assumptions C04_avoid_honoured_for_both_kinds.

(* a forced break between two siblings ends the page before the second one and records the break value *)
Theorem C04_forced_break_stops c rec child cst is_root pie bs index sub s lastf :
  ls_newc s <> [] -> lastf = last (ls_newc s) (FLine 0 0 0 None 0 0) ->
  force (fold_breaks (before_chain (Some lastf) ++ after_chain_box child)) = true ->
  exists s', blk_step c rec child cst is_root pie bs index sub s = SStop (Some (SChild index None)) s' /\
             ls_newc s' = ls_newc s /\
             ls_np s' = Some (fold_breaks (before_chain (Some lastf) ++ after_chain_box child)).
Proof. exact (forced_break_stops c rec child cst is_root pie bs index sub s lastf). Qed.
Print Assumptions C04_forced_break_stops.

(* orphans and widows: kept whenever the page is not empty; otherwise the paragraph moves as a whole *)
Theorem C04_orphans_widows_kept st n rem pie drop :
  break_line st n rem pie = Some drop -> pie = false ->
  s_orphans st <= n - drop /\ s_widows st <= drop + 1 + rem /\ drop <= n.
Proof. exact (orphans_widows_kept st n rem pie drop). Qed.
Print Assumptions C04_orphans_widows_kept.
Theorem C04_unsatisfiable_moves_whole_paragraph st n rem :
  (n < s_orphans st \/ n + 1 + rem < s_orphans st + s_widows st) -> break_line st n rem false = None.
Proof. exact (unsatisfiable_moves_whole_paragraph st n rem). Qed.
Print Assumptions C04_unsatisfiable_moves_whole_paragraph.
Theorem C04_override_only_when_empty st n rem drop :
  break_line st n rem true = Some drop ->
  (s_orphans st <= n - drop /\ s_widows st <= drop + 1 + rem) \/ drop = 0.
Proof. exact (override_only_when_empty st n rem drop). Qed.
Print Assumptions C04_override_only_when_empty.

(* page sides: the first non-blank page after left/right/recto/verso has the requested side, with at most one
   blank page in between *)
Theorem C04_forced_side_honoured ltr np right w :
  want_side ltr np = Some w ->
  (is_blank ltr np right = false -> right = w) /\
  (is_blank ltr np right = true -> is_blank ltr np (negb right) = false /\ negb right = w).
Proof. exact (forced_side_honoured ltr np right w). Qed.
Print Assumptions C04_forced_side_honoured.
Theorem C04_blank_only_for_side_mismatch ltr np right :
  is_blank ltr np right = true -> exists w, want_side ltr np = Some w /\ w <> right.
Proof. exact (blank_only_for_side_mismatch ltr np right). Qed.
Print Assumptions C04_blank_only_for_side_mismatch.

(* ---- a change of named page between two siblings.  block_level_page_name(sibling_before, sibling_after) of
   weasyprint/layout/block.py REGENERATED from the source on every run (gen/GenPageName.v): with page_values() an
   oracle answering (start, end) page names per box, it returns the start page name of the box after exactly when
   it differs from the end page name of the box before, and None (falls off its end) otherwise *)
Require WV.base.PyLink WV.gen.GenPageName WV.proofs.C04_gen_page_name.
Module PN := WV.proofs.C04_gen_page_name.

Theorem C04_source_page_name_change_reported O sb sa s1 e1 s2 e2 :
  PN.page_values_oracle O sb s1 e1 -> PN.page_values_oracle O sa s2 e2 ->
  run O GenPageName.block_level_page_name_body
      [("sibling_before"%string, VObj sb); ("sibling_after"%string, VObj sa)]
      (fun _ r => r = if String.eqb e1 s2 then None else Some (VStr s2)) (fun _ => False).
Proof. exact (PN.gen_block_level_page_name_eqb O sb sa s1 e1 s2 e2). Qed.
Print Assumptions C04_source_page_name_change_reported.

(* ... as the value of the call `page_name = block_level_page_name(last_in_flow_child, child)`: *)
Theorem C04_source_page_name_call O sb sa s1 e1 s2 e2 :
  PN.page_values_oracle O sb s1 e1 -> PN.page_values_oracle O sa s2 e2 ->
  let v := PyLink.call_body O (GenPageName.block_level_page_name_args, GenPageName.block_level_page_name_body)
                            [VObj sb; VObj sa] in
  (e1 <> s2 -> v = VStr s2) /\ (e1 = s2 -> v = VNone) /\
  (* the caller's test `if page_name or force_page_break(...)` sees a true value exactly for a change to a NAMED
     page; a change back to the unnamed page '' is returned but is not truthy *)
  (truthy O v = true <-> e1 <> s2 /\ s2 <> ""%string).
Proof. exact (PN.page_name_call_spec O sb sa s1 e1 s2 e2). Qed.
Print Assumptions C04_source_page_name_call.

(* ---- page sides and blank pages.  The slice of remake_page (weasyprint/layout/page.py) that decides the side a
   forced break asks for and whether a blank page is inserted, the two `if page_type.blank:` statements of make_page
   and the end of remake_page (the entry of the next page), REGENERATED from the source on every run
   (gen/GenPageSide.v).  PS.entry_env s d pg ra r fn .. is what the slice reads: next_page = {'break': s, 'page': pg},
   right_page = r, resume_at = ra, context.reported_footnotes = fn, root_box.style['direction'] = d; PS.np_of reads a
   string as a break value of the model (anything that is not one of the ten CSS values, e.g. 'any', is no break);
   want_side / is_blank are those of the page loop Frag2.paginate_loop *)
Require WV.gen.GenPageSide WV.proofs.C04_gen_page_side.
Module PS := WV.proofs.C04_gen_page_side.

(* for EVERY break value, direction and parity the slice computes want_side and is_blank of the model; the only other
   blank page is the one that holds reported footnotes after the end of the content *)
Theorem C04_source_page_side_is_model O nrest crest rrest srest s d pg ra r fn :
  (forall m, ra <> VErr m) ->
  run O GenPageSide.page_side_body (PS.entry_env s d pg ra r fn nrest crest rrest srest)
    (fun rho ret =>
       let blank := is_blank (PS.ltr_of d) (PS.np_of s) r || (PS.nonempty fn && PS.is_none ra) in
       ret = None /\ lookup "next_page_side"%string rho = PS.side_val (want_side (PS.ltr_of d) (PS.np_of s)) /\
       lookup "blank"%string rho = VBool blank /\
       lookup "name"%string rho = (if blank then VStr ""%string else pg) /\
       lookup "side"%string rho = VStr (if r then "right" else "left")%string)
    (fun _ => False).
Proof. exact (PS.gen_page_side_is_model O nrest crest rrest srest s d pg ra r fn). Qed.
Print Assumptions C04_source_page_side_is_model.

(* after a forced break naming a side: this page holds content and has that side, or it is blank and the page made
   from what a blank page leaves behind (same resume_at and next_page, parity flipped: next theorem) holds content
   and has that side - at most one blank page in between *)
Theorem C04_source_forced_side_honoured O nrest crest rrest srest s d pg ra r w :
  (forall m, ra <> VErr m) -> want_side (PS.ltr_of d) (PS.np_of s) = Some w ->
  run O GenPageSide.page_side_body (PS.entry_env s d pg ra r [] nrest crest rrest srest)
    (fun rho _ =>
       (lookup "blank"%string rho = VBool false /\ lookup "side"%string rho = PS.side_val (Some w) /\
        lookup "name"%string rho = pg) \/
       (lookup "blank"%string rho = VBool true /\
        run O GenPageSide.page_side_body (PS.entry_env s d pg ra (negb r) [] nrest crest rrest srest)
          (fun rho' _ => lookup "blank"%string rho' = VBool false /\ lookup "side"%string rho' = PS.side_val (Some w) /\
                         lookup "name"%string rho' = pg)
          (fun _ => False)))
    (fun _ => False).
Proof. exact (PS.source_forced_side_honoured O nrest crest rrest srest s d pg ra r w). Qed.
Print Assumptions C04_source_forced_side_honoured.

(* a blank page hands on the resume_at it was given and the next_page of its own entry; the entry appended for the
   next page has these two values and the other parity (first pass: the entry does not exist yet) *)
Theorem C04_source_blank_page_hands_on O (HO : ops_ok O) trest root cw pm i page ra0 npv r ps st erest ra' np' :
  ocall O ".copy_with_children"%string [root; VList []] = cw -> (forall m, cw <> VErr m) ->
  (forall m, root <> VErr m) -> (forall m, ra0 <> VErr m) ->
  nth i pm (VErr "IndexError"%string) = VList (ra0 :: npv :: VBool r :: ps :: st :: erest) ->
  List.length pm = S i ->
  run O GenPageSide.blank_enter_body
    [("page_type"%string, VObj (("blank"%string, VBool true) :: trest)); ("resume_at"%string, ra0);
     ("root_box"%string, root)]
    (fun rho ret => ret = None /\ lookup "previous_resume_at"%string rho = ra0 /\ lookup "root_box"%string rho = cw)
    (fun _ => False) /\
  run O GenPageSide.blank_return_body
    [("page_type"%string, VObj (("blank"%string, VBool true) :: trest)); ("previous_resume_at"%string, ra0);
     ("page_maker"%string, VList pm); ("page_number"%string, PS.vnat (S i)); ("page"%string, page);
     ("resume_at"%string, ra'); ("next_page"%string, np')]
    (fun _ ret => ret = Some (VList [page; ra0; npv])) (fun _ => False) /\
  run O GenPageSide.page_next_body
    [("index"%string, PS.vnat i); ("page_maker"%string, VList pm); ("right_page"%string, VBool r);
     ("resume_at"%string, ra0); ("next_page"%string, npv); ("page_state"%string, ps); ("page"%string, page)]
    (fun rho ret => ret = Some (VList [page; ra0]) /\
       lookup "page_maker"%string rho = VList (pm ++ [VList [ra0; npv; VBool (negb r); ps; PS.fresh_state ra0]]))
    (fun _ => False).
Proof. exact (PS.blank_page_hands_on O HO trest root cw pm i page ra0 npv r ps st erest ra' np'). Qed.
Print Assumptions C04_source_blank_page_hands_on.

(* a page with content returns what the layout of the root box gave, and the next entry flips the parity too *)
Theorem C04_source_content_page_returns O trest pra pm pn page ra np :
  run O GenPageSide.blank_return_body
    [("page_type"%string, VObj (("blank"%string, VBool false) :: trest)); ("previous_resume_at"%string, pra);
     ("page_maker"%string, pm); ("page_number"%string, pn); ("page"%string, page); ("resume_at"%string, ra);
     ("next_page"%string, np)]
    (fun _ ret => ret = Some (VList [page; ra; np])) (fun _ => False).
Proof. exact (PS.gen_blank_return_content O trest pra pm pn page ra np). Qed.
Print Assumptions C04_source_content_page_returns.
Theorem C04_source_next_entry_flips_parity O (HO : ops_ok O) i pm (r : bool) ra np ps page :
  (List.length pm <= S i)%nat -> (forall m, ra <> VErr m) ->
  run O GenPageSide.page_next_body
    [("index"%string, PS.vnat i); ("page_maker"%string, VList pm); ("right_page"%string, VBool r);
     ("resume_at"%string, ra); ("next_page"%string, np); ("page_state"%string, ps); ("page"%string, page)]
    (fun rho ret => ret = Some (VList [page; ra]) /\
       lookup "page_maker"%string rho = VList (pm ++ [VList [ra; np; VBool (negb r); ps; PS.fresh_state ra]]))
    (fun _ => False).
Proof. exact (PS.gen_page_next_new O HO i pm r ra np ps page). Qed.
Print Assumptions C04_source_next_entry_flips_parity.

(* a blank page is inserted only for a value that names a side, when the parity is the other one *)
Theorem C04_source_blank_only_for_side O nrest crest rrest srest s d pg ra r fn :
  (forall m, ra <> VErr m) -> fn = [] \/ ra <> VNone ->
  run O GenPageSide.page_side_body (PS.entry_env s d pg ra r fn nrest crest rrest srest)
    (fun rho _ => lookup "blank"%string rho = VBool true ->
                  exists w, want_side (PS.ltr_of d) (PS.np_of s) = Some w /\ w <> r /\
                            (s = "left" \/ s = "right" \/ s = "recto" \/ s = "verso")%string)
    (fun _ => False).
Proof. exact (PS.source_blank_only_for_side O nrest crest rrest srest s d pg ra r fn). Qed.
Print Assumptions C04_source_blank_only_for_side.

(* the model's page loop makes the same step on a blank page *)
Theorem C04_model_blank_page_step fuel root H lh ltr i resume np right :
  is_blank ltr np right = true ->
  paginate_loop (S fuel) root H lh ltr i resume np right =
  pcons (SBlank, []) (paginate_loop fuel root H lh ltr (S i) resume np (negb right)).
Proof. exact (PS.paginate_loop_blank_step fuel root H lh ltr i resume np right). Qed.
Print Assumptions C04_model_blank_page_step.

(* ---- orphans and widows, about the source.  _break_line of weasyprint/layout/block.py REGENERATED from the source
   on every run (gen/GenBreakLine.v), whole: when the page is not empty (page_is_empty = False), for every list `ncs`
   of lines already placed, every list `rest` of lines still to come, every orphans and every widows >= 1, the body
   either cancels the box (abort = True: no line of the paragraph stays, nothing is removed from new_children) or
   breaks inside the paragraph (abort = False, stop = True) leaving in new_children at least `orphans` of the placed
   lines (a prefix of them) and, for the next page, at least `widows` lines (those given back, the line that
   overflowed and the lines still to come).  remove_placeholders is any function; BLS.dict1 k v is the display {k: v} *)
Require WV.gen.GenBreakLine WV.proofs.C03_gen_break_line.
Module BLS := WV.proofs.C03_gen_break_line.

Theorem C04_source_break_line_orphans_widows
        (T : Type) (kids_of : T -> list val) (extra : T -> list (string * val)) rp1 rp2 rp3
        (O : qops) (HO : ops_ok O)
        (HR : forall cx l ab fb,
            ocall O "remove_placeholders"%string [VObj cx; VList l; VList ab; VList fb] =
            VList [VNone; VObj (rp1 cx l ab fb); VList (rp2 cx l ab fb); VList (rp3 cx l ab fb)])
        (HD : forall k v, ocall O "%dict1"%string [k; v] = BLS.dict1 k v)
        st sx bx lc lx rest ix sk ra cx (ncs : list T) ab fb :
  BLS.not_err sk -> 1 <= s_widows st ->
  run O GenBreakLine.break_line_body (BLS.bl_env T kids_of extra st sx bx lc lx rest false ix sk ra cx ncs ab fb)
    (fun rho r =>
       exists abort stop resume kept,
         r = Some (VList [VBool abort; VBool stop; resume]) /\
         lookup "new_children"%string rho = VList (map (BLS.vline T kids_of extra) kept) /\
         (abort = true -> stop = false /\ kept = ncs) /\
         (abort = false -> stop = true /\ (exists drop, kept = removelast_n drop ncs) /\
            s_orphans st <= List.length kept /\
            s_widows st <= List.length ncs + 1 + List.length rest - List.length kept))
    (fun _ => False).
Proof.
  exact (BLS.gen_break_line_orphans_widows T kids_of extra rp1 rp2 rp3 O HO HR HD st sx bx lc lx rest ix sk ra cx ncs ab fb).
Qed.
Print Assumptions C04_source_break_line_orphans_widows.
