(* C04 - Break controls are honoured: property theorems only. *)
From Coq Require Import QArith List String Bool Arith.
Require Import WV.base.Py WV.gen.GenBlock WV.model.Frag2 WV.proofs.C04_fold WV.proofs.C04_breaks.
Import ListNotations.

(* The value fold of block_level_page_break in /repo (regenerated on every run) computes fold_breaks for every
   list of break values ... *)
Theorem C04_break_fold_of_source (l : list brk) :
  run real_ops break_fold_body [("values"%string, VList (map bval l))]
      (returns_val (bval (fold_breaks l))) (fun _ => False).
Proof. exact (break_fold_is_fold_breaks l). Qed.
Print Assumptions C04_break_fold_of_source.

(* ... and force_page_break / avoid_page_break of /repo are these predicates, inside and outside columns *)
Theorem C04_force_page_break_of_source (v : brk) (in_col : bool) :
  run real_ops force_page_break_body [("page_break"%string, bval v); ("context"%string, ctx_val in_col)]
      (returns_val (VBool (if in_col then force_in_col v else force v))) (fun _ => False).
Proof. exact (force_page_break_spec v in_col). Qed.
Print Assumptions C04_force_page_break_of_source.
Theorem C04_avoid_page_break_of_source (v : brk) (in_col : bool) :
  run real_ops avoid_page_break_body [("page_break"%string, bval v); ("context"%string, ctx_val in_col)]
      (returns_val (VBool (if in_col then avoid_in_col v else avoid v))) (fun _ => False).
Proof. exact (avoid_page_break_spec v in_col). Qed.
Print Assumptions C04_avoid_page_break_of_source.

(* the strongest value among all boxes meeting at a break point wins:
   auto < avoid* < column < page < left/right/recto/verso *)
Theorem C04_strongest_value_wins (l : list brk) : rank (fold_breaks l) = list_max (map rank l).
Proof. exact (fold_breaks_rank_is_max l). Qed.
Print Assumptions C04_strongest_value_wins.

Theorem C04_forced_break_always_forces (l : list brk) v :
  In v l -> force v = true -> force (fold_breaks l) = true.
Proof. exact (forced_break_always_forces l v). Qed.
Print Assumptions C04_forced_break_always_forces.

Theorem C04_last_side_wins (l : list brk) :
  (exists v, In v l /\ rank v = 4) ->
  exists l1 v l2, l = l1 ++ v :: l2 /\ rank v = 4 /\ (forall x, In x l2 -> rank x < 4) /\ fold_breaks l = v.
Proof. exact (last_side_wins l). Qed.
Print Assumptions C04_last_side_wins.

Theorem C04_avoid_honoured_for_both_kinds (l : list brk) v :
  (forall x, In x l -> rank x <= 1) -> In v l -> avoid v = true -> avoid (fold_breaks l) = true.
Proof. exact (avoid_honoured_for_both_kinds l v). Qed.
Print Assumptions C04_avoid_honoured_for_both_kinds.

(* a forced break between two siblings ends the page before the second one and records the break value *)
Theorem C04_forced_break_stops c rec child cst is_root pie bs index sub s lastf :
  ls_newc s <> [] -> lastf = last (ls_newc s) (FLine 0 0 0 None 0 0) ->
  force (fold_breaks (before_chain (Some lastf) ++ after_chain_box child)) = true ->
  exists s', blk_step c rec child cst is_root pie bs index sub s = SStop (Some (SChild index None)) s' /\
             ls_newc s' = ls_newc s /\
             ls_np s' = Some (fold_breaks (before_chain (Some lastf) ++ after_chain_box child)).
Proof. exact (forced_break_stops c rec child cst is_root pie bs index sub s lastf). Qed.
Print Assumptions C04_forced_break_stops.

(* orphans and widows: kept whenever the page is not empty; otherwise the paragraph moves as a whole *)
Theorem C04_orphans_widows_kept st n rem pie drop :
  break_line st n rem pie = Some drop -> pie = false ->
  s_orphans st <= n - drop /\ s_widows st <= drop + 1 + rem /\ drop <= n.
Proof. exact (orphans_widows_kept st n rem pie drop). Qed.
Print Assumptions C04_orphans_widows_kept.
Theorem C04_unsatisfiable_moves_whole_paragraph st n rem :
  (n < s_orphans st \/ n + 1 + rem < s_orphans st + s_widows st) -> break_line st n rem false = None.
Proof. exact (unsatisfiable_moves_whole_paragraph st n rem). Qed.
Print Assumptions C04_unsatisfiable_moves_whole_paragraph.
Theorem C04_override_only_when_empty st n rem drop :
  break_line st n rem true = Some drop ->
  (s_orphans st <= n - drop /\ s_widows st <= drop + 1 + rem) \/ drop = 0.
Proof. exact (override_only_when_empty st n rem drop). Qed.
Print Assumptions C04_override_only_when_empty.

(* page sides: the first non-blank page after left/right/recto/verso has the requested side, with at most one
   blank page in between *)
Theorem C04_forced_side_honoured ltr np right w :
  want_side ltr np = Some w ->
  (is_blank ltr np right = false -> right = w) /\
  (is_blank ltr np right = true -> is_blank ltr np (negb right) = false /\ negb right = w).
Proof. exact (forced_side_honoured ltr np right w). Qed.
Print Assumptions C04_forced_side_honoured.
Theorem C04_blank_only_for_side_mismatch ltr np right :
  is_blank ltr np right = true -> exists w, want_side ltr np = Some w /\ w <> right.
Proof. exact (blank_only_for_side_mismatch ltr np right). Qed.
Print Assumptions C04_blank_only_for_side_mismatch.

(* ---- a change of named page between two siblings.  block_level_page_name(sibling_before, sibling_after) of
   weasyprint/layout/block.py REGENERATED from the source on every run (gen/GenPageName.v): with page_values() an
   oracle answering (start, end) page names per box, it returns the start page name of the box after exactly when
   it differs from the end page name of the box before, and None (falls off its end) otherwise *)
Require WV.base.PyLink WV.gen.GenPageName WV.proofs.C04_gen_page_name.
Module PN := WV.proofs.C04_gen_page_name.

Theorem C04_source_page_name_change_reported O sb sa s1 e1 s2 e2 :
  PN.page_values_oracle O sb s1 e1 -> PN.page_values_oracle O sa s2 e2 ->
  run O GenPageName.block_level_page_name_body
      [("sibling_before"%string, VObj sb); ("sibling_after"%string, VObj sa)]
      (fun _ r => r = if String.eqb e1 s2 then None else Some (VStr s2)) (fun _ => False).
Proof. exact (PN.gen_block_level_page_name_eqb O sb sa s1 e1 s2 e2). Qed.
Print Assumptions C04_source_page_name_change_reported.

(* ... as the value of the call `page_name = block_level_page_name(last_in_flow_child, child)`: *)
Theorem C04_source_page_name_call O sb sa s1 e1 s2 e2 :
  PN.page_values_oracle O sb s1 e1 -> PN.page_values_oracle O sa s2 e2 ->
  let v := PyLink.call_body O (GenPageName.block_level_page_name_args, GenPageName.block_level_page_name_body)
                            [VObj sb; VObj sa] in
  (e1 <> s2 -> v = VStr s2) /\ (e1 = s2 -> v = VNone) /\
  (* the caller's test `if page_name or force_page_break(...)` sees a true value exactly for a change to a NAMED
     page; a change back to the unnamed page '' is returned but is not truthy *)
  (truthy O v = true <-> e1 <> s2 /\ s2 <> ""%string).
Proof. exact (PN.page_name_call_spec O sb sa s1 e1 s2 e2). Qed.
Print Assumptions C04_source_page_name_call.
