(* C16 - The output is a well-formed, self-consistent PDF under every option: property theorems only.
   Model: coq/model/C16Stream.v (weasyprint/pdf/stream.py as a state machine over API calls, tied to the source by the
   direct-call correspondence of harness/p_c16.py) and coq/model/C16Res.v (resource dictionaries and _use_references). *)
From Coq Require Import ZArith List Bool.
Require Import WV.model.C16Stream.
Require Import WV.proofs.C16_balance WV.proofs.C16_skip WV.proofs.C16_names.
Import ListNotations.
Open Scope Z_scope.

(* Every well-bracketed sequence of calls (nested `with stacked`, paired begin_text/end_text and
   begin/end_marked_content) on a fresh Stream runs without raising and leaves a token list that is properly
   nested over q/Q, BT/ET and BMC|BDC/EMC, hence Dyck in each of them with all prefix depths >= 0, and the ctm
   stack is back to one entry; the two peephole rules (empty `q Q` dropped, `ET BT` merged) are part of `run`. *)
Theorem C16_balanced_calls_give_balanced_tokens (mark : bool) (d : egsd) (ops : list op) :
  wb ops = true ->
  exists s', run ops (fresh mark d) = Some s' /\
    nested (rev (toks s')) = true /\ dyck_q (rev (toks s')) = true /\ dyck_text (rev (toks s')) = true /\
    dyck_mc (rev (toks s')) = true /\ length (ctms s') = 1%nat.
Proof. exact (balanced_calls_give_balanced_tokens mark d ops). Qed.
Print Assumptions C16_balanced_calls_give_balanced_tokens.

(* ... and at every intermediate point: no call raises (the assert in pop_state included), the ctm stack has one
   entry per open q plus one, the tokens emitted so far never close more than was opened *)
Theorem C16_ctm_stack_never_empty (mark : bool) (d : egsd) (ops ops1 ops2 : list op) :
  wb ops = true -> ops = ops1 ++ ops2 ->
  exists s1 b, run ops1 (fresh mark d) = Some s1 /\ wscan [] ops1 = Some b /\
    length (ctms s1) = S (countb Bq b) /\ tscan [] (rev (toks s1)) = Some (vis mark b).
Proof. exact (ctm_stack_never_empty mark d ops ops1 ops2). Qed.
Print Assumptions C16_ctm_stack_never_empty.

(* Skipping is sound: for well-bracketed calls in which the text matrix is set before anything is shown in a text
   object, and in which no operator is installed behind a non-empty cache (`guarded`), a reference interpreter of
   the graphics state renders the emitted tokens exactly as it renders the un-optimised sequence: same
   observations (operator, colours, alphas, font, CTM, text matrix) at every painting operator, same final state. *)
Theorem C16_skip_is_sound (mark : bool) (d : egsd) (ops : list op) (s' : st) :
  wb ops = true -> tm_disciplined false ops = true -> guarded ops (fresh mark d) = true ->
  run ops (fresh mark d) = Some s' ->
  let X := interp (rev (toks s')) in
  let Y := interp (rev (ntoks (nrun ops (nfresh mark d)))) in
  i_err X = false /\ i_err Y = false /\ i_obs X = i_obs Y /\ i_g X = i_g Y /\ i_stack X = i_stack Y /\
  i_text X = false /\ i_text Y = false.
Proof. exact (skip_is_sound mark d ops s'). Qed.
Print Assumptions C16_skip_is_sound.

(* in particular when the calls never use set_state with /ca or /CA nor the Pattern colour space *)
Theorem C16_skip_is_sound_without_raw_operators (mark : bool) (d : egsd) (ops : list op) (s' : st) :
  wb ops = true -> tm_disciplined false ops = true -> forallb raw_free ops = true ->
  run ops (fresh mark d) = Some s' ->
  let X := interp (rev (toks s')) in
  let Y := interp (rev (ntoks (nrun ops (nfresh mark d)))) in
  i_err X = false /\ i_err Y = false /\ i_obs X = i_obs Y /\ i_g X = i_g Y /\ i_stack X = i_stack Y /\
  i_text X = false /\ i_text Y = false.
Proof. exact (skip_is_sound_raw_free mark d ops s'). Qed.
Print Assumptions C16_skip_is_sound_without_raw_operators.

(* Refuted without the guard (finding F12): set_alpha_state / mask-border install an ExtGState with /ca 1 without
   touching the alpha cache; the next set_alpha with the cached value is skipped and the fill is painted with
   alpha 1 instead of 0.5 *)
Theorem C16_skip_unsound_after_raw_gs_refuted :
  exists ops s',
    wb ops = true /\ tm_disciplined false ops = true /\ run ops (fresh false []) = Some s' /\
    guarded ops (fresh false []) = false /\
    same_rendering (interp (rev (toks s'))) (interp (rev (ntoks (nrun ops (nfresh false []))))) = false /\
    map (fun o => g_ca (snd (fst (fst o)))) (i_obs (interp (rev (toks s')))) = [1000; 1000] /\
    map (fun o => g_ca (snd (fst (fst o)))) (i_obs (interp (rev (ntoks (nrun ops (nfresh false [])))))) = [500; 500].
Proof. exact skip_unsound_after_raw_gs. Qed.
Print Assumptions C16_skip_unsound_after_raw_gs_refuted.

(* ... and the Pattern colour (set_color_space('Pattern') + set_color_special) goes behind the colour cache *)
Theorem C16_skip_unsound_after_pattern_colour_refuted :
  exists ops s',
    wb ops = true /\ tm_disciplined false ops = true /\ run ops (fresh false []) = Some s' /\
    guarded ops (fresh false []) = false /\
    same_rendering (interp (rev (toks s'))) (interp (rev (ntoks (nrun ops (nfresh false []))))) = false /\
    map (fun o => g_fill (snd (fst (fst o)))) (i_obs (interp (rev (toks s')))) = [PPat 0; PPat 0; PPat 0; PPat 0] /\
    map (fun o => g_fill (snd (fst (fst o)))) (i_obs (interp (rev (ntoks (nrun ops (nfresh false [])))))) =
      [PCol (0, 0); PCol (0, 0); PPat 0; PPat 0].
Proof. exact skip_unsound_after_pattern_colour. Qed.
Print Assumptions C16_skip_unsound_after_pattern_colour_refuted.

(* ExtGState names, for ALL call sequences: each `/name gs` in the stream is a key of the stream's resource
   dictionary, bound to what was stored when it was emitted (s{len(dict)} is always fresh, nothing is re-bound) *)
Theorem C16_gs_names_defined (mark : bool) (d : egsd) (ops : list op) (s' : st) :
  egs_wf d = true -> run ops (fresh mark d) = Some s' ->
  forall k v, In (Tgs k v) (toks s') -> lookup k (egs s') = Some v.
Proof. exact (gs_names_defined mark d ops s'). Qed.
Print Assumptions C16_gs_names_defined.

Theorem C16_gs_names_stable (mark : bool) (d : egsd) (ops1 ops2 : list op) (s1 s2 : st) (k : key) (v : gsval) :
  egs_wf d = true -> run ops1 (fresh mark d) = Some s1 -> run ops2 s1 = Some s2 ->
  lookup k (egs s1) = Some v -> lookup k (egs s2) = Some v.
Proof. exact (gs_names_stable mark d ops1 ops2 s1 s2 k v). Qed.
Print Assumptions C16_gs_names_stable.

